"""Differential check for C19 refactoring 2.

Compares the serving.py implementation from the worktree (DechunkedInput,
WSGIRequestHandler.make_environ, WSGIRequestHandler.run_wsgi) against a pasted
copy of the ORIGINAL implementation, (a) directly on DechunkedInput with random
chunk framings and read patterns and (b) end to end by feeding raw HTTP requests
through handle_one_request() with an in-memory rfile/wfile and random WSGI apps.

Run: cd /tmp/wt12-C19 && PYTHONPATH=/tmp/wt12-C19/src /venv/bin/python /tmp/twin7-C19/2/diff_check.py
"""

from __future__ import annotations

# ORIGINAL implementation (verbatim from the unmodified tree).
ORIG_DECHUNK = r'''
class DechunkedInput(io.RawIOBase):
    """An input stream that handles Transfer-Encoding 'chunked'"""

    def __init__(self, rfile: t.IO[bytes]) -> None:
        self._rfile = rfile
        self._done = False
        self._len = 0

    def readable(self) -> bool:
        return True

    def read_chunk_len(self) -> int:
        try:
            line = self._rfile.readline().decode("latin1")
            _len = int(line.strip(), 16)
        except ValueError as e:
            raise OSError("Invalid chunk header") from e
        if _len < 0:
            raise OSError("Negative chunk length not allowed")
        return _len

    def readinto(self, buf: bytearray) -> int:  # type: ignore
        read = 0
        while not self._done and read < len(buf):
            if self._len == 0:
                # This is the first chunk or we fully consumed the previous
                # one. Read the next length of the next chunk
                self._len = self.read_chunk_len()

            if self._len == 0:
                # Found the final chunk of size 0. The stream is now exhausted,
                # but there is still a final newline that should be consumed
                self._done = True

            if self._len > 0:
                # There is data (left) in this chunk, so append it to the
                # buffer. If this operation fully consumes the chunk, this will
                # reset self._len to 0.
                n = min(len(buf), self._len)

                # If (read + chunk size) becomes more than len(buf), buf will
                # grow beyond the original size and read more data than
                # required. So only read as much data as can fit in buf.
                if read + n > len(buf):
                    n = len(buf) - read

                data = self._rfile.read(n)

                # A short read means the stream ended inside the chunk. Don't
                # splice it into buf, that would resize the caller's buffer.
                if len(data) != n:
                    raise OSError("Unexpected end of chunked data")

                buf[read : read + n] = data
                self._len -= n
                read += n

            if self._len == 0:
                # Skip the terminating newline of a chunk that has been fully
                # consumed. This also applies to the 0-sized final chunk
                terminator = self._rfile.readline()
                if terminator not in (b"\n", b"\r\n", b"\r"):
                    raise OSError("Missing chunk terminating newline")

        return read

'''

ORIG_METHODS = r'''
    def make_environ(self) -> WSGIEnvironment:
        request_url = urlsplit(self.path)
        url_scheme = "http" if self.server.ssl_context is None else "https"

        if not self.client_address:
            self.client_address = ("<local>", 0)
        elif isinstance(self.client_address, str):
            self.client_address = (self.client_address, 0)

        # If there was no scheme but the path started with two slashes,
        # the first segment may have been incorrectly parsed as the
        # netloc, prepend it to the path again.
        if not request_url.scheme and request_url.netloc:
            path_info = f"/{request_url.netloc}{request_url.path}"
        else:
            path_info = request_url.path

        path_info = unquote(path_info)

        environ: WSGIEnvironment = {
            "wsgi.version": (1, 0),
            "wsgi.url_scheme": url_scheme,
            "wsgi.input": self.rfile,
            "wsgi.errors": sys.stderr,
            "wsgi.multithread": self.server.multithread,
            "wsgi.multiprocess": self.server.multiprocess,
            "wsgi.run_once": False,
            "werkzeug.socket": self.connection,
            "SERVER_SOFTWARE": self.server_version,
            "REQUEST_METHOD": self.command,
            "SCRIPT_NAME": "",
            "PATH_INFO": _wsgi_encoding_dance(path_info),
            "QUERY_STRING": _wsgi_encoding_dance(request_url.query),
            # Non-standard, added by mod_wsgi, uWSGI
            "REQUEST_URI": _wsgi_encoding_dance(self.path),
            # Non-standard, added by gunicorn
            "RAW_URI": _wsgi_encoding_dance(self.path),
            "REMOTE_ADDR": self.address_string(),
            "REMOTE_PORT": self.port_integer(),
            "SERVER_NAME": self.server.server_address[0],
            "SERVER_PORT": str(self.server.server_address[1]),
            "SERVER_PROTOCOL": self.request_version,
        }

        for key, value in self.headers.items():
            if "_" in key:
                continue

            key = key.upper().replace("-", "_")
            value = value.replace("\r\n", "")
            if key not in ("CONTENT_TYPE", "CONTENT_LENGTH"):
                key = f"HTTP_{key}"
                if key in environ:
                    value = f"{environ[key]},{value}"
            environ[key] = value

        if environ.get("HTTP_TRANSFER_ENCODING", "").strip().lower() == "chunked":
            environ["wsgi.input_terminated"] = True
            environ["wsgi.input"] = DechunkedInput(environ["wsgi.input"])

        # Per RFC 2616, if the URL is absolute, use that as the host.
        # We're using "has a scheme" to indicate an absolute URL.
        if request_url.scheme and request_url.netloc:
            environ["HTTP_HOST"] = request_url.netloc

        try:
            # binary_form=False gives nicer information, but wouldn't be compatible with
            # what Nginx or Apache could return.
            peer_cert = self.connection.getpeercert(binary_form=True)
            if peer_cert is not None:
                # Nginx and Apache use PEM format.
                environ["SSL_CLIENT_CERT"] = ssl.DER_cert_to_PEM_cert(peer_cert)
        except ValueError:
            # SSL handshake hasn't finished.
            self.server.log("error", "Cannot fetch SSL peer certificate info")
        except AttributeError:
            # Not using TLS, the socket will not have getpeercert().
            pass

        return environ

    def run_wsgi(self) -> None:
        if self.headers.get("Expect", "").lower().strip() == "100-continue":
            self.wfile.write(b"HTTP/1.1 100 Continue\r\n\r\n")

        self.environ = environ = self.make_environ()
        status_set: str | None = None
        headers_set: list[tuple[str, str]] | None = None
        status_sent: str | None = None
        headers_sent: list[tuple[str, str]] | None = None
        chunk_response: bool = False

        def write(data: bytes) -> None:
            nonlocal status_sent, headers_sent, chunk_response
            assert status_set is not None, "write() before start_response"
            assert headers_set is not None, "write() before start_response"
            if status_sent is None:
                status_sent = status_set
                headers_sent = headers_set
                try:
                    code_str, msg = status_sent.split(None, 1)
                except ValueError:
                    code_str, msg = status_sent, ""
                code = int(code_str)
                self.send_response(code, msg)
                header_keys = set()
                for key, value in headers_sent:
                    self.send_header(key, value)
                    header_keys.add(key.lower())

                # Use chunked transfer encoding if there is no content
                # length. Do not use for 1xx and 204 responses. 304
                # responses and HEAD requests are also excluded, which
                # is the more conservative behavior and matches other
                # parts of the code.
                # https://httpwg.org/specs/rfc7230.html#rfc.section.3.3.1
                if (
                    not (
                        "content-length" in header_keys
                        or environ["REQUEST_METHOD"] == "HEAD"
                        or (100 <= code < 200)
                        or code in {204, 304}
                    )
                    and self.protocol_version >= "HTTP/1.1"
                ):
                    chunk_response = True
                    self.send_header("Transfer-Encoding", "chunked")

                # Always close the connection. This disables HTTP/1.1
                # keep-alive connections. They aren't handled well by
                # Python's http.server because it doesn't know how to
                # drain the stream before the next request line.
                self.send_header("Connection", "close")
                self.end_headers()

            assert isinstance(data, bytes), "applications must write bytes"

            if data:
                if chunk_response:
                    self.wfile.write(hex(len(data))[2:].encode())
                    self.wfile.write(b"\r\n")

                self.wfile.write(data)

                if chunk_response:
                    self.wfile.write(b"\r\n")

            self.wfile.flush()

        def start_response(status, headers, exc_info=None):  # type: ignore
            nonlocal status_set, headers_set
            if exc_info:
                try:
                    if headers_sent:
                        raise exc_info[1].with_traceback(exc_info[2])
                finally:
                    exc_info = None
            elif headers_set:
                raise AssertionError("Headers already set")
            status_set = status
            headers_set = headers
            return write

        def execute(app: WSGIApplication) -> None:
            application_iter = app(environ, start_response)
            try:
                for data in application_iter:
                    write(data)
                if not headers_sent:
                    write(b"")
                if chunk_response:
                    self.wfile.write(b"0\r\n\r\n")
            finally:
                # Check for any remaining data in the read socket, and discard it. This
                # will read past request.max_content_length, but lets the client see a
                # 413 response instead of a connection reset failure. If we supported
                # keep-alive connections, this naive approach would break by reading the
                # next request line. Since we know that write (above) closes every
                # connection we can read everything.
                selector = selectors.DefaultSelector()
                selector.register(self.connection, selectors.EVENT_READ)
                total_size = 0
                total_reads = 0

                # A timeout of 0 tends to fail because a client needs a small amount of
                # time to continue sending its data.
                while selector.select(timeout=0.01):
                    # Only read 10MB into memory at a time.
                    data = self.rfile.read(10_000_000)
                    total_size += len(data)
                    total_reads += 1

                    # Stop reading on no data, >=10GB, or 1000 reads. If a client sends
                    # more than that, they'll get a connection reset failure.
                    if not data or total_size >= 10_000_000_000 or total_reads > 1000:
                        break

                selector.close()

                if hasattr(application_iter, "close"):
                    application_iter.close()

        try:
            execute(self.server.app)
        except connection_dropped_errors as e:
            self.connection_dropped(e, environ)
        except Exception as e:
            if self.server.passthrough_errors:
                raise

            if status_sent is not None and chunk_response:
                self.close_connection = True

            try:
                # if we haven't yet sent the headers but they are set
                # we roll back to be able to set them again.
                if status_sent is None:
                    status_set = None
                    headers_set = None
                execute(InternalServerError())
            except Exception:
                pass

            from .debug.tbtools import DebugTraceback

            msg = DebugTraceback(e).render_traceback_text()
            self.server.log("error", f"Error on request:\n{msg}")

'''


import io
import random
import selectors
import sys
import textwrap

import werkzeug.serving as serving

# ---------------------------------------------------------------------------
# Build the ORIGINAL implementation next to the one from the worktree.
# ---------------------------------------------------------------------------
_ns = dict(vars(serving))
exec(compile(ORIG_DECHUNK, "<orig-dechunk>", "exec"), _ns)
OrigDechunkedInput = _ns["DechunkedInput"]
exec(
    compile("class OrigMixin:\n" + ORIG_METHODS, "<orig-methods>", "exec"),
    _ns,
)
OrigMixin = _ns["OrigMixin"]


class OrigHandler(OrigMixin, serving.WSGIRequestHandler):
    pass


class NewHandler(serving.WSGIRequestHandler):
    pass


assert OrigHandler.run_wsgi is not serving.WSGIRequestHandler.run_wsgi
assert OrigHandler.make_environ is not serving.WSGIRequestHandler.make_environ
assert _ns["DechunkedInput"] is not serving.DechunkedInput

# deterministic dates
serving.WSGIRequestHandler.date_time_string = lambda self, timestamp=None: "DATE"
serving.WSGIRequestHandler.log_date_time_string = lambda self: "LOGDATE"

LOGS = []


def _fake_log(type, message, *args):
    try:
        LOGS.append((type, message % args if args else message))
    except Exception as e:  # pragma: no cover
        LOGS.append((type, message, repr(args), repr(e)))


serving._log = _fake_log


class FakeSelector:
    remaining = 0

    def register(self, *a, **k):
        pass

    def select(self, timeout=None):
        if FakeSelector.remaining > 0:
            FakeSelector.remaining -= 1
            return [1]
        return []

    def close(self):
        pass


selectors.DefaultSelector = FakeSelector


class RecordingWFile:
    def __init__(self, fail_after=None):
        self.events = []
        self.fail_after = fail_after
        self.n = 0

    def write(self, data):
        self.n += 1
        if self.fail_after is not None and self.n > self.fail_after:
            raise BrokenPipeError("boom")
        self.events.append(bytes(data))
        return len(data)

    def flush(self):
        self.events.append("FLUSH")


class FakeConn:
    pass


def make_conn(kind):
    c = FakeConn()
    if kind == "none":
        c.getpeercert = lambda binary_form=False: None
    elif kind == "cert":
        c.getpeercert = lambda binary_form=False: b"\x30\x82certbytes" * 7
    elif kind == "valueerror":

        def g(binary_form=False):
            raise ValueError("handshake")

        c.getpeercert = g
    # kind == "plain": no attribute -> AttributeError
    return c


class FakeServer:
    def __init__(self, app, cfg):
        self.app = app
        self.ssl_context = cfg["ssl_context"]
        self.multithread = cfg["multithread"]
        self.multiprocess = cfg["multiprocess"]
        self.server_address = cfg["server_address"]
        self.passthrough_errors = cfg["passthrough_errors"]
        self._server_version = "Werkzeug/test"
        self.logs = []

    def log(self, type, message, *args):
        if message.startswith("Error on request:"):
            # traceback text contains file names / line numbers of the
            # implementation itself; only keep the final line.
            message = "Error on request: ..." + message.rstrip().rsplit("\n", 1)[-1]
        self.logs.append((type, message, args))


class AppError(Exception):
    pass


def snapshot_environ(environ):
    out = {}
    for k, v in environ.items():
        if k == "wsgi.input":
            out[k] = type(v).__name__
        elif k == "wsgi.errors":
            out[k] = v is sys.stderr
        elif k == "werkzeug.socket":
            out[k] = type(v).__name__
        else:
            out[k] = v
    return tuple(out.items())  # ordered: insertion order must match too


def read_input(stream, pattern, rnd):
    """Read the request body using a given pattern; record everything."""
    rec = []
    try:
        if pattern == "none":
            pass
        elif pattern == "all":
            rec.append(stream.read())
        elif pattern == "readall_twice":
            rec.append(stream.read())
            rec.append(stream.read())
        elif pattern == "sized":
            for _ in range(200):
                n = rnd.choice([1, 2, 3, 5, 7, 16, 64, 1000])
                d = stream.read(n)
                rec.append(d)
                if not d:
                    break
        elif pattern == "readline":
            for _ in range(200):
                d = stream.readline()
                rec.append(d)
                if not d:
                    break
        elif pattern == "readinto":
            for _ in range(200):
                n = rnd.choice([0, 1, 2, 4, 9, 33, 500])
                buf = bytearray(n)
                r = stream.readinto(buf)
                rec.append((r, bytes(buf), len(buf)))
                if not r and n:
                    break
        elif pattern == "buffered":
            br = io.BufferedReader(stream, buffer_size=rnd.choice([1, 3, 8, 64, 8192]))
            for _ in range(200):
                d = br.read(rnd.choice([1, 4, 10, 100]))
                rec.append(d)
                if not d:
                    break
        elif pattern == "iter":
            for line in stream:
                rec.append(line)
    except Exception as e:
        rec.append(("EXC", type(e).__name__, str(e), type(e.__cause__).__name__))
    return rec


def make_app(spec, record):
    rnd = random.Random(spec["seed"])

    class Iter:
        def __init__(self, chunks):
            self.chunks = list(chunks)
            self.i = 0

        def __iter__(self):
            return self

        def __next__(self):
            if spec["raise_at"] == self.i:
                raise spec["exc_type"]("mid-iteration")
            if self.i >= len(self.chunks):
                raise StopIteration
            c = self.chunks[self.i]
            self.i += 1
            return c

        def close(self):
            record.append("closed")

    def app(environ, start_response):
        record.append(("environ", snapshot_environ(environ)))
        stream = environ["wsgi.input"]
        if spec["wrap_limit"] and environ.get("CONTENT_LENGTH", "").isdigit() and not environ.get("wsgi.input_terminated"):
            stream = io.BytesIO(stream.read(int(environ["CONTENT_LENGTH"])))
        record.append(("body", read_input(stream, spec["read_pattern"], rnd)))
        if spec["mutate_method"] == "delete":
            environ.pop("REQUEST_METHOD", None)
        elif spec["mutate_method"] == "head":
            environ["REQUEST_METHOD"] = "HEAD"
        if spec["raise_at"] == "before":
            raise spec["exc_type"]("before start_response")
        if spec["no_start_response"]:
            return Iter(spec["body"])
        w = start_response(spec["status"], list(spec["headers"]))
        if spec["second_start"] == "plain":
            try:
                start_response("200 OK", [("X-Second", "1")])
            except AssertionError as e:
                record.append(("second", str(e)))
        elif spec["second_start"] == "exc_info":
            try:
                raise AppError("inner")
            except AppError:
                start_response("500 INTERNAL", [("X-Second", "2")], sys.exc_info())
        if spec["use_write"]:
            for c in spec["write_chunks"]:
                w(c)
            if spec["second_start"] == "exc_info_after_write":
                try:
                    raise AppError("inner2")
                except AppError:
                    start_response("500 X", [("X-Second", "3")], sys.exc_info())
        if spec["raise_at"] == "after":
            raise spec["exc_type"]("after start_response")
        if spec["plain_list"]:
            return list(spec["body"])
        return Iter(spec["body"])

    return app


def run_case(handler_cls, case):
    del LOGS[:]
    record = []
    app = make_app(case["app"], record)
    h = object.__new__(handler_cls)
    h.rfile = io.BytesIO(case["raw"])
    h.wfile = RecordingWFile(case["wfile_fail_after"])
    h.client_address = case["client_address"]
    h.server = FakeServer(app, case["server"])
    h.connection = h.request = make_conn(case["conn"])
    h.close_connection = True
    if case["protocol_version"] is not None:
        h.protocol_version = case["protocol_version"]
    FakeSelector.remaining = case["selector_ready"]
    exc = None
    try:
        h.handle_one_request()
    except BaseException as e:
        exc = (type(e).__name__, str(e))
    return {
        "exc": exc,
        "wfile": h.wfile.events,
        "record": record,
        "server_logs": h.server.logs,
        "logs": list(LOGS),
        "close_connection": h.close_connection,
        "rfile_pos": "closed" if h.rfile.closed else h.rfile.tell(),
        "client_address": h.client_address,
        "environ_attr": snapshot_environ(h.environ) if hasattr(h, "environ") else None,
    }


# ---------------------------------------------------------------------------
# Generators
# ---------------------------------------------------------------------------
def gen_chunked_body(rnd):
    out = b""
    kind = rnd.choice(["ok"] * 6 + ["trunc", "bad_header", "neg", "noterm", "ext", "nofinal", "garbage", "empty"])
    nchunks = rnd.randrange(0, 6)
    payload = b""
    for _ in range(nchunks):
        size = rnd.choice([1, 2, 3, 5, 10, 17, 100, 300])
        data = bytes(rnd.choice(b"abcdefXYZ\r\n0123 ;") for _ in range(size))
        fmt = rnd.choice(["%x", "%X", " %x ", "0%x", "%x\t", "+%x", "0x%x"])
        eol = rnd.choice([b"\r\n"] * 5 + [b"\n", b"\r"])
        term = rnd.choice([b"\r\n"] * 6 + [b"\n", b"\r"])
        out += (fmt % size).encode() + eol + data + term
        payload += data
    final = rnd.choice([b"0\r\n\r\n"] * 5 + [b"0\n\n", b"00\r\n\r\n", b"0\r\n", b"0\r\n\r\nEXTRA", b"0\r\nTrailer: x\r\n\r\n"])
    if kind == "ok":
        out += final
    elif kind == "trunc":
        out += final
        out = out[: rnd.randrange(0, len(out) + 1)]
    elif kind == "bad_header":
        out += rnd.choice([b"zz\r\n", b"\r\n", b"1 2\r\n", b"\xff\r\n", b"1_0\r\nabcdefghijklmnop\r\n", b"\xb2\r\nab\r\n"]) + b"data\r\n" + final
    elif kind == "neg":
        out += rnd.choice([b"-1\r\nx\r\n", b"-0\r\n\r\n", b"-a\r\n"]) + final
    elif kind == "noterm":
        out += b"3\r\nabcXX" + final
    elif kind == "ext":
        out += b"3;ext=1\r\nabc\r\n" + final
    elif kind == "nofinal":
        pass
    elif kind == "garbage":
        out += bytes(rnd.randrange(256) for _ in range(rnd.randrange(0, 30)))
    elif kind == "empty":
        out = b""
    return out


def gen_request(rnd):
    method = rnd.choice(["GET", "POST", "HEAD", "PUT", "DELETE", "OPTIONS", "PATCH", "FOO"])
    path = rnd.choice(
        [
            "/",
            "/a/b",
            "/a%20b/%E2%9C%93",
            "/%2Fx%2f",
            "//double/slash",
            "//host:80/p",
            "///three",
            "http://example.com/abs/path",
            "http://example.com:8080/abs?x=1",
            "https://h/",
            "/caf\xe9".encode("utf-8").decode("latin1"),
            "/%FF%fe",
            "/p;params",
            "*",
            "/a+b",
            "/%",
            "/%zz",
            "relative/path",
            "/x#frag",
        ]
    )
    query = rnd.choice(["", "", "?a=1&b=2", "?q=%20%41", "?", "?a=b?c=d", "?x=\xe9".encode("utf-8").decode("latin1"), "?a#f"])
    version = rnd.choice(["HTTP/1.1", "HTTP/1.1", "HTTP/1.0"])
    headers = []
    pool = [
        ("Host", "localhost:5000"),
        ("User-Agent", "diff/1.0"),
        ("Accept", "*/*"),
        ("Accept", "text/html"),
        ("X-Custom", "v1"),
        ("X-Custom", "v2"),
        ("x-custom", "v3"),
        ("X_Under", "evil"),
        ("X-Under_Score", "evil2"),
        ("Cookie", "a=b"),
        ("Cookie", "c=d"),
        ("Content-Type", "text/plain"),
        ("Content-Type", "application/json"),
        ("content-type", "x/y"),
        ("X-Fold", "part1\r\n part2"),
        ("X-Latin", "caf\xe9"),
        ("X-Empty", ""),
        ("Content_Length", "999"),
        ("Transfer_Encoding", "chunked"),
        ("Connection", "keep-alive"),
    ]
    for _ in range(rnd.randrange(0, 8)):
        headers.append(rnd.choice(pool))
    body_kind = rnd.choice(["none", "cl", "chunked", "chunked", "chunked", "both", "te_other"])
    body = b""
    if body_kind in ("cl", "both"):
        body = bytes(rnd.choice(b"abc\r\n123") for _ in range(rnd.choice([0, 1, 5, 100, 2000])))
        cl = str(len(body)) if rnd.random() < 0.85 else rnd.choice(["", "abc", "-1", str(len(body) + 5), "3, 3"])
        headers.append(("Content-Length", cl))
        if rnd.random() < 0.1:
            headers.append(("Content-Length", cl))
    if body_kind in ("chunked", "both"):
        te = rnd.choice(["chunked"] * 5 + ["Chunked", " CHUNKED ", "chunked ", "gzip, chunked", "chunked, chunked", "\tchunked"])
        headers.append((rnd.choice(["Transfer-Encoding", "transfer-encoding", "TRANSFER-ENCODING"]), te))
        if rnd.random() < 0.1:
            headers.append(("Transfer-Encoding", "chunked"))
        body = gen_chunked_body(rnd)
    if body_kind == "te_other":
        headers.append(("Transfer-Encoding", rnd.choice(["gzip", "identity", ""])))
        body = gen_chunked_body(rnd)
    if rnd.random() < 0.15:
        headers.append(("Expect", rnd.choice(["100-continue", "100-Continue ", "other"])))
    rnd.shuffle(headers)
    raw = f"{method} {path}{query} {version}\r\n".encode("latin1")
    for k, v in headers:
        raw += f"{k}: {v}\r\n".encode("latin1")
    raw += b"\r\n" + body
    if rnd.random() < 0.03:
        raw = rnd.choice([b"", b"GARBAGE\r\n\r\n", b"GET /\r\n\r\n", b"GET / HTTP/9.9\r\n\r\n", b"GET /a b c HTTP/1.1\r\n\r\n"])
    return raw


def gen_case(seed):
    rnd = random.Random(seed)
    status = rnd.choice(
        [
            "200 OK",
            "200 OK",
            "200 OK",
            "201 CREATED",
            "204 NO CONTENT",
            "304 NOT MODIFIED",
            "100 Continue",
            "101 Switching Protocols",
            "199 X",
            "404 NOT FOUND",
            "500 INTERNAL SERVER ERROR",
            "200",
            "200  Two  Spaces",
            " 200 lead",
            "200\tTab",
            "302 FOUND",
            "999 WAT",
            "abc",
            "",
        ]
    )
    nbody = rnd.randrange(0, 5)
    body = [rnd.choice([b"", b"x", b"hello", b"a" * 15, b"b" * 16, b"c" * 255, b"d" * 4096, b"\r\n"]) for _ in range(nbody)]
    if rnd.random() < 0.03:
        body.append("not-bytes")
    rheaders = []
    hpool = [
        ("Content-Type", "text/plain"),
        ("X-A", "1"),
        ("X-A", "2"),
        ("Set-Cookie", "a=b"),
        ("Server", "custom"),
        ("Date", "custom-date"),
        ("Connection", "keep-alive"),
        ("Transfer-Encoding", "chunked"),
    ]
    for _ in range(rnd.randrange(0, 4)):
        rheaders.append(rnd.choice(hpool))
    if rnd.random() < 0.4:
        total = sum(len(b) for b in body if isinstance(b, bytes))
        rheaders.append((rnd.choice(["Content-Length", "content-length", "CONTENT-LENGTH", "Content-length"]), str(total)))
    rnd.shuffle(rheaders)
    raise_at = rnd.choice([None] * 10 + ["before", "after", 0, 1, 2])
    app = {
        "seed": seed,
        "status": status,
        "headers": rheaders,
        "body": body,
        "use_write": rnd.random() < 0.2,
        "write_chunks": [rnd.choice([b"", b"w1", b"w" * 20]) for _ in range(rnd.randrange(0, 3))],
        "read_pattern": rnd.choice(["none", "all", "all", "readall_twice", "sized", "sized", "readline", "readinto", "readinto", "buffered", "iter"]),
        "raise_at": raise_at,
        "exc_type": rnd.choice([AppError, AppError, ConnectionResetError, BrokenPipeError, TimeoutError, ValueError]),
        "second_start": rnd.choice([None] * 8 + ["plain", "exc_info", "exc_info_after_write"]),
        "no_start_response": rnd.random() < 0.03,
        "plain_list": rnd.random() < 0.3,
        "wrap_limit": rnd.random() < 0.5,
        "mutate_method": rnd.choice([None] * 12 + ["delete", "head"]),
    }
    return {
        "raw": gen_request(rnd),
        "app": app,
        "client_address": rnd.choice([("127.0.0.1", 51234), ("::1", 8, 0, 0), "", "/tmp/unix.sock", None, ("fe80::1%eth0", 99)]),
        "server": {
            "ssl_context": rnd.choice([None, None, None, object()]),
            "multithread": rnd.random() < 0.5,
            "multiprocess": rnd.random() < 0.5,
            "server_address": rnd.choice([("127.0.0.1", 5000), ("::", 80, 0, 0), ("unix://tmp/s", 0)]),
            "passthrough_errors": rnd.random() < 0.1,
        },
        "conn": rnd.choice(["plain", "plain", "none", "cert", "valueerror"]),
        "protocol_version": rnd.choice([None, "HTTP/1.1", "HTTP/1.1", "HTTP/1.0", "HTTP/2"]),
        "selector_ready": rnd.choice([0, 0, 1, 2, 5]),
        "wfile_fail_after": rnd.choice([None] * 15 + [0, 1, 3, 6]),
    }


# ---------------------------------------------------------------------------
# Direct DechunkedInput comparison
# ---------------------------------------------------------------------------
class ShortReadFile(io.BytesIO):
    """BytesIO that can be closed early to provoke ValueError from readline."""


def dechunk_direct(cls, data, ops, close_first):
    rf = io.BytesIO(data)
    if close_first:
        rf.close()
    s = cls(rf)
    rec = []
    for op, n in ops:
        try:
            if op == "readinto":
                buf = bytearray(n)
                r = s.readinto(buf)
                rec.append((r, bytes(buf), len(buf)))
            elif op == "readinto_mv":
                backing = bytearray(n)
                r = s.readinto(memoryview(backing))
                rec.append((r, bytes(backing)))
            elif op == "read":
                rec.append(s.read(n))
            elif op == "readall":
                rec.append(s.read())
            elif op == "readline":
                rec.append(s.readline())
            elif op == "chunk_len":
                rec.append(s.read_chunk_len())
        except Exception as e:
            rec.append(("EXC", type(e).__name__, str(e), type(e.__cause__).__name__ if e.__cause__ else None))
        rec.append((s._done, s._len, None if close_first else rf.tell()))
    return rec


def run_dechunk_direct(n_cases):
    bad = 0
    for seed in range(n_cases):
        rnd = random.Random(10_000_000 + seed)
        data = gen_chunked_body(rnd)
        ops = [
            (rnd.choice(["readinto", "readinto", "readinto_mv", "read", "readall", "readline", "chunk_len"]), rnd.choice([0, 1, 2, 3, 5, 8, 17, 100, 1000]))
            for _ in range(rnd.randrange(1, 12))
        ]
        close_first = rnd.random() < 0.02
        a = dechunk_direct(OrigDechunkedInput, data, ops, close_first)
        b = dechunk_direct(serving.DechunkedInput, data, ops, close_first)
        if a != b:
            bad += 1
            if bad <= 3:
                print("DECHUNK MISMATCH seed", seed, data, ops)
                print(" orig:", a)
                print(" new :", b)
    return bad


def main():
    n_direct = 6000
    n_e2e = 8000
    bad = run_dechunk_direct(n_direct)
    stats = {"exc": 0, "chunked_in": 0, "chunked_out": 0, "oserror_body": 0}
    for seed in range(n_e2e):
        case = gen_case(seed)
        a = run_case(OrigHandler, case)
        b = run_case(NewHandler, case)
        if a != b:
            bad += 1
            if bad <= 3:
                print("E2E MISMATCH seed", seed)
                for k in a:
                    if a[k] != b[k]:
                        print("  key", k)
                        print("   orig:", a[k])
                        print("   new :", b[k])
        if a["exc"]:
            stats["exc"] += 1
        if any(isinstance(e, bytes) and b"Transfer-Encoding: chunked" in e for e in a["wfile"]):
            stats["chunked_out"] += 1
        for r in a["record"]:
            if r[0] == "environ" and dict(r[1]).get("wsgi.input_terminated"):
                stats["chunked_in"] += 1
            if r[0] == "body" and any(isinstance(x, tuple) and x and x[0] == "EXC" for x in r[1]):
                stats["oserror_body"] += 1
    print("direct cases:", n_direct, "end-to-end cases:", n_e2e, "coverage stats:", stats)
    print("PASS" if bad == 0 else f"FAIL ({bad} mismatches)")
    return 0 if bad == 0 else 1


if __name__ == "__main__":
    sys.exit(main())
