"""Differential check for refactoring 3 (WSGIRequestHandler.run_wsgi: write).

End-to-end: a raw HTTP request is sent over a socketpair to a real
WSGIRequestHandler instance (real parse_request / make_environ / run_wsgi)
serving a generated WSGI app. The handler from the worktree is compared with a
subclass whose run_wsgi is a pasted copy of the original. Compared: the exact
response bytes the client receives, the exact sequence of wfile.write/flush
calls, what the app saw (method, path, query, headers, body), app-side events
(write() results, close()), server log entries (type + final traceback line),
connection_dropped calls, close_connection and any exception escaping the
handler (type + message).
"""

from __future__ import annotations

import random
import selectors
import socket
import sys
import typing as t

from werkzeug.exceptions import InternalServerError
from werkzeug.serving import connection_dropped_errors
from werkzeug.serving import WSGIRequestHandler


class Recorder:
    def __init__(self, raw: t.Any, events: list[t.Any]) -> None:
        self._raw = raw
        self._events = events

    def write(self, data: bytes) -> t.Any:
        self._events.append(("write", bytes(data)))
        return self._raw.write(data)

    def flush(self) -> None:
        self._events.append(("flush",))
        self._raw.flush()

    def close(self) -> None:
        self._raw.close()

    @property
    def closed(self) -> bool:
        return self._raw.closed


class NewHandler(WSGIRequestHandler):
    def setup(self) -> None:
        super().setup()
        self.wfile = Recorder(self.wfile, self.server.wire)

    def date_time_string(self, timestamp: t.Any = None) -> str:
        return "Thu, 01 Jan 2026 00:00:00 GMT"

    def log(self, type: str, message: str, *args: t.Any) -> None:
        self.server.logged.append(("handler", type, message % args if args else message))

    def connection_dropped(self, error: t.Any, environ: t.Any = None) -> None:
        self.server.logged.append(
            ("dropped", type(error), str(error), environ is not None)
        )


class OrigHandler(NewHandler):
    def run_wsgi(self) -> None:  # pasted from the unmodified tree
        if self.headers.get("Expect", "").lower().strip() == "100-continue":
            self.wfile.write(b"HTTP/1.1 100 Continue\r\n\r\n")

        self.environ = environ = self.make_environ()
        status_set: str | None = None
        headers_set: list[tuple[str, str]] | None = None
        status_sent: str | None = None
        headers_sent: list[tuple[str, str]] | None = None
        chunk_response: bool = False

        def write(data: bytes) -> None:
            nonlocal status_sent, headers_sent, chunk_response
            assert status_set is not None, "write() before start_response"
            assert headers_set is not None, "write() before start_response"
            if status_sent is None:
                status_sent = status_set
                headers_sent = headers_set
                try:
                    code_str, msg = status_sent.split(None, 1)
                except ValueError:
                    code_str, msg = status_sent, ""
                code = int(code_str)
                self.send_response(code, msg)
                header_keys = set()
                for key, value in headers_sent:
                    self.send_header(key, value)
                    header_keys.add(key.lower())

                # Use chunked transfer encoding if there is no content
                # length. Do not use for 1xx and 204 responses. 304
                # responses and HEAD requests are also excluded, which
                # is the more conservative behavior and matches other
                # parts of the code.
                # https://httpwg.org/specs/rfc7230.html#rfc.section.3.3.1
                if (
                    not (
                        "content-length" in header_keys
                        or environ["REQUEST_METHOD"] == "HEAD"
                        or (100 <= code < 200)
                        or code in {204, 304}
                    )
                    and self.protocol_version >= "HTTP/1.1"
                ):
                    chunk_response = True
                    self.send_header("Transfer-Encoding", "chunked")

                # Always close the connection. This disables HTTP/1.1
                # keep-alive connections. They aren't handled well by
                # Python's http.server because it doesn't know how to
                # drain the stream before the next request line.
                self.send_header("Connection", "close")
                self.end_headers()

            assert isinstance(data, bytes), "applications must write bytes"

            if data:
                if chunk_response:
                    self.wfile.write(hex(len(data))[2:].encode())
                    self.wfile.write(b"\r\n")

                self.wfile.write(data)

                if chunk_response:
                    self.wfile.write(b"\r\n")

            self.wfile.flush()

        def start_response(status, headers, exc_info=None):  # type: ignore
            nonlocal status_set, headers_set
            if exc_info:
                try:
                    if headers_sent:
                        raise exc_info[1].with_traceback(exc_info[2])
                finally:
                    exc_info = None
            elif headers_set:
                raise AssertionError("Headers already set")
            status_set = status
            headers_set = headers
            return write

        def execute(app: t.Any) -> None:
            application_iter = app(environ, start_response)
            try:
                for data in application_iter:
                    write(data)
                if not headers_sent:
                    write(b"")
                if chunk_response:
                    self.wfile.write(b"0\r\n\r\n")
            finally:
                # Check for any remaining data in the read socket, and discard it. This
                # will read past request.max_content_length, but lets the client see a
                # 413 response instead of a connection reset failure. If we supported
                # keep-alive connections, this naive approach would break by reading the
                # next request line. Since we know that write (above) closes every
                # connection we can read everything.
                selector = selectors.DefaultSelector()
                selector.register(self.connection, selectors.EVENT_READ)
                total_size = 0
                total_reads = 0

                # A timeout of 0 tends to fail because a client needs a small amount of
                # time to continue sending its data.
                while selector.select(timeout=0.01):
                    # Only read 10MB into memory at a time.
                    data = self.rfile.read(10_000_000)
                    total_size += len(data)
                    total_reads += 1

                    # Stop reading on no data, >=10GB, or 1000 reads. If a client sends
                    # more than that, they'll get a connection reset failure.
                    if not data or total_size >= 10_000_000_000 or total_reads > 1000:
                        break

                selector.close()

                if hasattr(application_iter, "close"):
                    application_iter.close()

        try:
            execute(self.server.app)
        except connection_dropped_errors as e:
            self.connection_dropped(e, environ)
        except Exception as e:
            if self.server.passthrough_errors:
                raise

            if status_sent is not None and chunk_response:
                self.close_connection = True

            try:
                # if we haven't yet sent the headers but they are set
                # we roll back to be able to set them again.
                if status_sent is None:
                    status_set = None
                    headers_set = None
                execute(InternalServerError())
            except Exception:
                pass

            from werkzeug.debug.tbtools import DebugTraceback

            msg = DebugTraceback(e).render_traceback_text()
            self.server.log("error", f"Error on request:\n{msg}")


assert "run_wsgi" not in NewHandler.__dict__
assert OrigHandler.run_wsgi is not WSGIRequestHandler.run_wsgi


class FakeServer:
    ssl_context = None
    multithread = False
    multiprocess = False
    server_address = ("127.0.0.1", 5000)
    _server_version = "Werkzeug/test"

    def __init__(self, app: t.Any, passthrough: bool) -> None:
        self.app = app
        self.passthrough_errors = passthrough
        self.logged: list[t.Any] = []
        self.wire: list[t.Any] = []

    def log(self, type: str, message: str, *args: t.Any) -> None:
        # tracebacks contain file names / line numbers that legitimately
        # differ between the pasted copy and the module: keep head + last line
        lines = message.rstrip("\n").split("\n")
        self.logged.append(("server", type, lines[0], lines[-1]))


STATUSES = [
    "200 OK",
    "200 OK",
    "200 OK",
    "201 Created",
    "204 No Content",
    "304 Not Modified",
    "100 Continue",
    "101 Switching Protocols",
    "199 Odd",
    "200",
    "404",
    "204",
    "404 Not Found",
    "500 Internal Server Error",
    "302 Found",
    "  200   Spaced  out ",
    "205 Reset Content",
    "99 Low",
    "999 High",
    "abc nope",
    "",
]
CL_NAMES = ["Content-Length", "content-length", "CONTENT-LENGTH", "Content-length"]
OTHER_HEADERS = [
    ("Content-Type", "text/plain"),
    ("X-Foo", "bar"),
    ("Set-Cookie", "a=b"),
    ("Set-Cookie", "c=d"),
    ("Transfer-Encoding", "identity"),
    ("X-Content-Length", "7"),
    ("Content-Length-X", "7"),
    ("Connection", "keep-alive"),
    ("ETag", '"abc"'),
]
BODY_PARTS = [b"", b"a", b"hello", b"x" * 15, b"y" * 16, b"z" * 255, b"w" * 4096, b"\r\n", b"0\r\n\r\n"]


def gen_case(rng: random.Random) -> dict[str, t.Any]:
    parts = [rng.choice(BODY_PARTS) for _ in range(rng.choice([0, 0, 1, 1, 2, 3, 5]))]
    if rng.random() < 0.05 and parts:
        parts[rng.randrange(len(parts))] = "not bytes"  # type: ignore[call-overload]
    headers = rng.sample(OTHER_HEADERS, rng.randint(0, 4))
    r = rng.random()
    if r < 0.4:
        total = sum(len(p) for p in parts if isinstance(p, bytes))
        headers.insert(
            rng.randint(0, len(headers)),
            (rng.choice(CL_NAMES), str(total if rng.random() < 0.9 else total + 3)),
        )
    method = rng.choice(["GET", "GET", "GET", "POST", "HEAD", "HEAD", "PUT", "head", "OPTIONS"])
    req_body_kind = rng.choice(["none", "none", "cl", "chunked", "chunked_bad"])
    return {
        "status": rng.choice(STATUSES),
        "headers": headers,
        "parts": parts,
        "iter_kind": rng.choice(["list", "gen", "closing"]),
        "pre_write": rng.choice([0, 0, 0, 1, 2]),
        "fail": rng.choice(
            [None] * 10
            + [
                "before_start",
                "after_start",
                "mid_iter",
                "mid_iter_conn",
                "double_start",
                "double_start_exc",
                "late_start_exc",
                "no_start",
                "bad_header",
                "close_raises",
            ]
        ),
        "read_body": rng.choice([True, False]),
        "passthrough": rng.random() < 0.15,
        "protocol": rng.choice(["HTTP/1.1", "HTTP/1.1", "HTTP/1.0"]),
        "method": method,
        "target": rng.choice(["/", "/a%20b?x=1", "//d/s", "http://h.example/p?q", "/caf%C3%A9"]),
        "req_version": rng.choice(["HTTP/1.1", "HTTP/1.1", "HTTP/1.0"]),
        "expect": rng.random() < 0.1,
        "keepalive": rng.random() < 0.3,
        "req_body_kind": req_body_kind,
        "req_body": bytes(rng.choice(b"abc\r\n01") for _ in range(rng.choice([0, 1, 5, 40, 300]))),
        "chunk_split": rng.choice([1, 3, 16, 1000]),
    }


def build_request(c: dict[str, t.Any]) -> bytes:
    lines = [f"{c['method']} {c['target']} {c['req_version']}", "Host: localhost", "X-Test: 1"]
    body = b""
    if c["expect"]:
        lines.append("Expect: 100-continue")
    if c["keepalive"]:
        lines.append("Connection: keep-alive")
    if c["req_body_kind"] == "cl":
        body = c["req_body"]
        lines.append(f"Content-Length: {len(body)}")
    elif c["req_body_kind"].startswith("chunked"):
        lines.append("Transfer-Encoding: chunked")
        data = c["req_body"]
        n = c["chunk_split"]
        for i in range(0, len(data), n):
            piece = data[i : i + n]
            body += f"{len(piece):x}\r\n".encode() + piece + b"\r\n"
        body += b"0\r\n\r\n" if c["req_body_kind"] == "chunked" else b"zz\r\n"
    return "\r\n".join(lines).encode() + b"\r\n\r\n" + body


class Closing:
    def __init__(self, it: t.Any, events: list[t.Any], raises: bool) -> None:
        self._it = iter(it)
        self._events = events
        self._raises = raises

    def __iter__(self) -> t.Any:
        return self

    def __next__(self) -> t.Any:
        return next(self._it)

    def close(self) -> None:
        self._events.append(("close",))
        if self._raises:
            raise RuntimeError("close failed")


def make_app(c: dict[str, t.Any], events: list[t.Any]) -> t.Any:
    def app(environ: dict[str, t.Any], start_response: t.Any) -> t.Any:
        seen = {
            k: environ.get(k)
            for k in (
                "REQUEST_METHOD",
                "PATH_INFO",
                "QUERY_STRING",
                "HTTP_HOST",
                "HTTP_X_TEST",
                "CONTENT_LENGTH",
                "HTTP_TRANSFER_ENCODING",
                "SERVER_PROTOCOL",
                "wsgi.input_terminated",
            )
        }
        events.append(("environ", seen))
        if c["read_body"]:
            try:
                if c["req_body_kind"] == "cl":
                    data = environ["wsgi.input"].read(len(c["req_body"]))
                elif c["req_body_kind"].startswith("chunked"):
                    data = environ["wsgi.input"].read()
                else:
                    data = b""
                events.append(("body", data))
            except OSError as e:
                events.append(("body error", str(e)))
        fail = c["fail"]
        if fail == "before_start":
            raise RuntimeError("boom before start")
        if fail == "no_start":
            return [b"data without start_response"]
        headers = list(c["headers"])
        if fail == "bad_header":
            headers.append(("X-Bad", 5))  # type: ignore[arg-type]
            headers.append((7, "x"))  # type: ignore[arg-type]
        write = start_response(c["status"], headers)
        if fail == "double_start":
            start_response("200 OK", [])
        if fail == "double_start_exc":
            try:
                raise KeyError("first failure")
            except KeyError:
                write = start_response("500 Oops", [("X-Second", "1")], sys.exc_info())
        for i in range(c["pre_write"]):
            events.append(("write ret", write(b"pre%d;" % i)))
        if fail == "after_start":
            raise ValueError("boom after start")

        def body() -> t.Any:
            for i, p in enumerate(c["parts"]):
                if i == 1 and fail == "mid_iter":
                    raise ZeroDivisionError("boom mid iteration")
                if i == 1 and fail == "mid_iter_conn":
                    raise ConnectionResetError("client went away")
                if i == 1 and fail == "late_start_exc":
                    try:
                        raise KeyError("late failure")
                    except KeyError:
                        start_response("500 Late", [], sys.exc_info())
                yield p

        if c["iter_kind"] == "list" and fail not in ("mid_iter", "mid_iter_conn", "late_start_exc"):
            return list(c["parts"])
        if c["iter_kind"] == "closing" or fail == "close_raises":
            return Closing(body(), events, fail == "close_raises")
        return body()

    return app


def run(cls: t.Any, c: dict[str, t.Any]) -> t.Any:
    events: list[t.Any] = []
    server = FakeServer(make_app(c, events), c["passthrough"])
    client, conn = socket.socketpair()
    client.settimeout(5)
    conn.settimeout(5)
    escaped: t.Any = None
    close_connection: t.Any = None
    try:
        client.sendall(build_request(c))
        client.shutdown(socket.SHUT_WR)
        handler_cls = type("H", (cls,), {"protocol_version": c["protocol"]})
        try:
            h = handler_cls(conn, ("10.1.2.3", 5555), server)
            close_connection = h.close_connection
        except Exception as e:  # noqa: BLE001
            escaped = (type(e), str(e))
        try:
            conn.shutdown(socket.SHUT_WR)
        except OSError:
            pass
        received = b""
        while True:
            try:
                block = client.recv(65536)
            except OSError as e:
                received += b"<recv error %s>" % type(e).__name__.encode()
                break
            if not block:
                break
            received += block
    finally:
        client.close()
        conn.close()
    return {
        "received": received,
        "wire": server.wire,
        "events": events,
        "logged": server.logged,
        "escaped": escaped,
        "close_connection": close_connection,
    }


def main() -> int:
    rng = random.Random(3019)
    errors = 0
    n = 0
    stats = {"chunked": 0, "not_chunked": 0, "error_logged": 0, "escaped": 0, "dropped": 0}
    for i in range(6000):
        c = gen_case(rng)
        a = run(OrigHandler, c)
        b = run(NewHandler, c)
        n += 1
        head = a["received"].split(b"\r\n\r\n")[0].lower()
        if b"100 continue" in head[:30]:
            head = a["received"].split(b"\r\n\r\n")[1].lower() if a["received"].count(b"\r\n\r\n") > 1 else head
        stats["chunked" if b"transfer-encoding: chunked" in head else "not_chunked"] += 1
        stats["error_logged"] += any(x[0] == "server" for x in a["logged"])
        stats["dropped"] += any(x[0] == "dropped" for x in a["logged"])
        stats["escaped"] += a["escaped"] is not None
        if a != b:
            errors += 1
            if errors < 5:
                print("MISMATCH", i, c)
                for k in a:
                    if a[k] != b[k]:
                        print("  ", k, "\n     orig:", a[k], "\n     new: ", b[k])
    print(f"cases={n} stats={stats} mismatches={errors}")
    print("PASS" if errors == 0 else "FAIL")
    return 0 if errors == 0 else 1


if __name__ == "__main__":
    sys.exit(main())
