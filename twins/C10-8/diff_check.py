"""Differential check for refactoring 2 (LimitedStream.readinto: three duplicated
try/except blocks merged into one, temp buffer chosen up front).

Run: cd /tmp/wt9-C10 && PYTHONPATH=/tmp/wt9-C10/src /venv/bin/python /tmp/twin5-C10/2/diff_check.py
"""
from __future__ import annotations

import io
import random

from werkzeug import wsgi
from werkzeug.test import create_environ
from werkzeug.wsgi import get_input_stream
from werkzeug.wsgi import LimitedStream


class OriginalLimitedStream(LimitedStream):
    # verbatim copy of the ORIGINAL LimitedStream.readinto
    def readinto(self, b):  # type: ignore[override]
        size = len(b)
        remaining = self.limit - self._pos

        if remaining <= 0:
            self.on_exhausted()
            return 0

        if hasattr(self._stream, "readinto"):
            # Use stream.readinto if it's available.
            if size <= remaining:
                # The size fits in the remaining limit, use the buffer directly.
                try:
                    out_size: int | None = self._stream.readinto(b)
                except (OSError, ValueError) as e:
                    self.on_disconnect(error=e)
                    return 0
            else:
                # Use a temp buffer with the remaining limit as the size.
                temp_b = bytearray(remaining)

                try:
                    out_size = self._stream.readinto(temp_b)
                except (OSError, ValueError) as e:
                    self.on_disconnect(error=e)
                    return 0

                if out_size:
                    b[:out_size] = temp_b[:out_size]
        else:
            # WSGI requires that stream.read is available.
            try:
                data = self._stream.read(min(size, remaining))
            except (OSError, ValueError) as e:
                self.on_disconnect(error=e)
                return 0

            out_size = len(data)
            b[:out_size] = data

        if not out_size:
            # Read zero bytes from the stream.
            self.on_disconnect()
            return 0

        self._pos += out_size
        return out_size


def _quiet(base):
    """Variant whose on_disconnect/on_exhausted never raise, to exercise the
    ``return 0`` after the hook."""

    class Quiet(base):
        def on_disconnect(self, error=None):
            self.hook_log.append(("disconnect", type(error)))

        def on_exhausted(self):
            self.hook_log.append(("exhausted",))

    return Quiet


ERRORS = [OSError, ValueError, ConnectionResetError, UnicodeError, RuntimeError, KeyError, EOFError]


class Script:
    """Shared behaviour script for a fake underlying stream."""

    def __init__(self, rng: random.Random, data: bytes) -> None:
        self.data = data
        # per call: None = normal, ("short", k), ("zero",), ("none",), ("raise", exc)
        self.plan = []
        for _ in range(40):
            r = rng.random()
            if r < 0.70:
                self.plan.append(None)
            elif r < 0.82:
                self.plan.append(("short", rng.randint(1, 4)))
            elif r < 0.88:
                self.plan.append(("zero",))
            elif r < 0.91:
                self.plan.append(("none",))
            else:
                self.plan.append(("raise", rng.choice(ERRORS)))


class FakeBase:
    def __init__(self, script: Script) -> None:
        self.script = script
        self.pos = 0
        self.calls = 0
        self.log: list[tuple] = []

    def _take(self, n: int):
        step = self.script.plan[self.calls] if self.calls < len(self.script.plan) else None
        self.calls += 1
        if step is not None:
            if step[0] == "raise":
                self.log.append(("raise", step[1].__name__))
                raise step[1]("boom")
            if step[0] == "zero":
                return b""
            if step[0] == "none":
                return None
            if step[0] == "short":
                n = min(n, step[1])
        out = self.script.data[self.pos : self.pos + n]
        self.pos += len(out)
        return out


class ReadOnlyStream(FakeBase):
    def read(self, n=-1):
        self.log.append(("read", n))
        out = self._take(n if n is not None and n >= 0 else len(self.script.data))
        if out is None:
            out = b""
        return out


class ReadIntoStream(FakeBase):
    def read(self, n=-1):  # pragma: no cover - must not be used
        self.log.append(("read!", n))
        return b""

    def readinto(self, b):
        self.log.append(("readinto", len(b), type(b).__name__))
        out = self._take(len(b))
        if out is None:
            return None
        b[: len(out)] = out
        return len(out)


def gen_ops(rng: random.Random):
    ops = []
    for _ in range(rng.randint(1, 8)):
        r = rng.random()
        if r < 0.35:
            ops.append(("read", rng.choice([0, 1, 2, 3, 5, 8, 13, 64, 1000])))
        elif r < 0.6:
            ops.append(("readinto", rng.choice([0, 1, 2, 3, 5, 8, 13, 64, 1000])))
        elif r < 0.7:
            ops.append(("readall",))
        elif r < 0.8:
            ops.append(("read", -1))
        elif r < 0.88:
            ops.append(("readline",))
        elif r < 0.94:
            ops.append(("exhaust",))
        else:
            ops.append(("tell",))
    return ops


def run(cls, fake_cls, script, limit, is_max, ops, quiet):
    fake = fake_cls(script)
    if quiet:
        cls = _quiet(cls)
    ls = cls(fake, limit, is_max=is_max)
    ls.hook_log = []
    results = []
    for op in ops:
        try:
            if op[0] == "read":
                r = ls.read(op[1])
            elif op[0] == "readinto":
                buf = bytearray(b"\xee" * op[1])
                k = ls.readinto(buf)
                r = (k, bytes(buf))
            elif op[0] == "readall":
                r = ls.readall()
            elif op[0] == "readline":
                r = ls.readline()
            elif op[0] == "exhaust":
                r = ls.exhaust()
            else:
                r = ls.tell()
            results.append(("ok", r))
        except Exception as e:  # noqa: B902
            results.append(("exc", type(e).__name__))
        results.append(("pos", ls.tell(), ls.is_exhausted))
    return results, fake.log, fake.pos, ls.hook_log


def main() -> None:
    assert "has_readinto" in open(wsgi.__file__).read(), "refactoring not applied"
    rng = random.Random(20202)
    mismatches = 0
    n = 0
    stats: dict[str, int] = {"ok": 0}
    for _ in range(8000):
        data = rng.randbytes(rng.choice([0, 1, 3, 10, 30, 100, 500]))
        script = Script(rng, data)
        limit = rng.choice([0, 1, 2, 5, 10, 29, 30, 31, 100, 499, 500, 501, 10**6, len(data)])
        is_max = rng.random() < 0.6
        quiet = rng.random() < 0.25
        ops = gen_ops(rng)
        fake_cls = rng.choice([ReadOnlyStream, ReadIntoStream])
        a = run(OriginalLimitedStream, fake_cls, script, limit, is_max, ops, quiet)
        b = run(LimitedStream, fake_cls, script, limit, is_max, ops, quiet)
        n += 1
        for item in a[0]:
            if item[0] == "ok":
                stats["ok"] += 1
            elif item[0] == "exc":
                stats[item[1]] = stats.get(item[1], 0) + 1
        if a != b:
            mismatches += 1
            if mismatches < 5:
                print("MISMATCH", fake_cls.__name__, limit, is_max, quiet, ops, "\n ", a, "\n ", b)

    # real streams through get_input_stream (BytesIO has readinto, wrapper does not)
    for _ in range(2000):
        data = rng.randbytes(rng.choice([0, 1, 10, 100, 1000, 70000]))
        mcl = rng.choice([None, 0, 1, 9, 10, 11, 100, 999, 1000, 1001, 10**6])
        terminated = rng.random() < 0.5
        declare = rng.random() < 0.6
        sizes = [rng.choice([1, 7, 100, 65536, -1]) for _ in range(rng.randint(1, 5))]
        outs = []
        for patched in (True, False):
            env = create_environ(method="POST")
            env["wsgi.input"] = io.BytesIO(data)
            env.pop("CONTENT_LENGTH", None)
            if declare:
                env["CONTENT_LENGTH"] = str(len(data))
            if terminated:
                env["wsgi.input_terminated"] = True
            res = []
            try:
                s = get_input_stream(env, max_content_length=mcl)
                if isinstance(s, LimitedStream) and not patched:
                    s.__class__ = OriginalLimitedStream
                res.append(isinstance(s, LimitedStream))
                for size in sizes:
                    res.append(s.read(size))
            except Exception as e:  # noqa: B902
                res.append(("exc", type(e).__name__))
            outs.append((res, env["wsgi.input"].tell()))
        n += 1
        if outs[0] != outs[1]:
            mismatches += 1
            print("MISMATCH(get_input_stream)", len(data), mcl, terminated, declare, sizes)

    print("cases:", n, "op results:", stats)
    print("PASS" if mismatches == 0 else "FAIL (%d mismatches)" % mismatches)


if __name__ == "__main__":
    main()
