"""Differential check for refactoring 1 (parse_range_header).

Compares the worktree's werkzeug.http.parse_range_header against a verbatim
copy of the ORIGINAL implementation on generated Range header values, then
also compares the downstream range_for_length / to_content_range_header
results.  Prints PASS only if everything (results and exception types) match.
"""
import itertools
import random

from werkzeug import datastructures as ds
from werkzeug._internal import _plain_int
from werkzeug.http import parse_range_header as new_parse


def orig_parse(value, make_inclusive=True):
    if not value or "=" not in value:
        return None

    ranges = []
    last_end = 0
    units, rng = value.split("=", 1)
    units = units.strip().lower()

    for item in rng.split(","):
        item = item.strip()
        if "-" not in item:
            return None
        if item.startswith("-"):
            if last_end < 0:
                return None
            try:
                begin = _plain_int(item)
            except ValueError:
                return None
            end = None
            last_end = -1
        elif "-" in item:
            begin_str, end_str = item.split("-", 1)
            begin_str = begin_str.strip()
            end_str = end_str.strip()

            try:
                begin = _plain_int(begin_str)
            except ValueError:
                return None

            if begin < last_end or last_end < 0:
                return None
            if end_str:
                if end_str.startswith("-"):
                    # _plain_int accepts a sign, a position does not have one
                    return None

                try:
                    end = _plain_int(end_str) + 1
                except ValueError:
                    return None

                if begin >= end:
                    return None
            else:
                end = None
            last_end = end if end is not None else -1
        ranges.append((begin, end))

    return ds.Range(units, ranges)


def run(fn, value):
    try:
        r = fn(value)
    except BaseException as e:  # noqa: B036
        return ("EXC", type(e).__name__)
    if r is None:
        return ("NONE",)
    out = ["RANGE", r.units, list(r.ranges), r.to_header()]
    for length in (None, 0, 1, 5, 10, 100, 1000):
        try:
            out.append((r.range_for_length(length), r.to_content_range_header(length)))
        except BaseException as e:  # noqa: B036
            out.append(("EXC", type(e).__name__))
    return tuple(map(repr, out))


rnd = random.Random(11)
NUMS = ["", "0", "1", "2", "5", "9", "10", "11", "99", "100", "500", "999", "1000",
        "-1", "-0", "-5", "+3", "1_0", "٣", "a", " 7", "7 ", " ", "0x1", "1.0", "--2", "007"]
SEPS = ["-", "-", "-", " - ", "- ", " -", "--", "", "–"]
UNITS = ["bytes", "Bytes", " bytes ", "BYTES", "items", "", "b=ytes", "bytes "]
JOINS = [",", ",", ", ", " ,", ",,", ";"]


def gen_item():
    k = rnd.random()
    if k < 0.55:
        return rnd.choice(NUMS) + rnd.choice(SEPS) + rnd.choice(NUMS)
    if k < 0.7:
        return "-" + rnd.choice(NUMS)
    if k < 0.85:
        a = rnd.randrange(0, 1200)
        b = a + rnd.randrange(-3, 300)
        return f"{a}-{b}"
    if k < 0.95:
        return f"{rnd.randrange(0, 1200)}-"
    return "".join(rnd.choice("0123456789-- ,=a") for _ in range(rnd.randrange(0, 8)))


def gen_sorted():
    # mostly-ascending multi ranges so the last_end logic gets exercised
    pos = rnd.randrange(0, 50)
    items = []
    for _ in range(rnd.randrange(1, 5)):
        a = pos + rnd.randrange(-2, 40)
        b = a + rnd.randrange(-1, 60)
        pos = b + rnd.randrange(0, 3)
        k = rnd.random()
        if k < 0.7:
            items.append(f"{a}-{b}")
        elif k < 0.85:
            items.append(f"{a}-")
        else:
            items.append(f"-{rnd.randrange(0, 50)}")
    return items


values = [None, "", "bytes", "=", "bytes=", "=0-1", "bytes=-", "bytes=0-", "bytes=-0",
          "bytes=0-0", "bytes=1-0", "bytes=0-1,1-2", "bytes=0-1,2-3", "bytes=-5,0-1",
          "bytes=0-,-5", "bytes=-5,-6", "bytes=0-,5-", "bytes=5-,0-3", "bytes=0-1,,",
          "bytes=0-1=2", "bytes==0-1", "bytes=0 - 5", "bytes= 0-5 ", "bytes=- 5",
          "bytes=-5-", "bytes=--5", "bytes=5--", "bytes=5--7", "bytes=-5-7", "bytes=-1-"]
# exhaustive small grid
for a, sep, b in itertools.product(NUMS, ["-", " - ", ""], NUMS):
    values.append(f"bytes={a}{sep}{b}")
# exhaustive pairs of small items
small = ["0-1", "1-2", "2-", "-2", "-0", "3-3", "4-2", "5", "", "-", "0-", "x-1", "1-x", "10-20", "2-9"]
for a, b in itertools.product(small, small):
    values.append(f"bytes={a},{b}")
for a, b, c in itertools.product(small[:8], repeat=3):
    values.append(f"bytes={a},{b},{c}")
for _ in range(20000):
    n = rnd.choice([1, 1, 1, 2, 2, 3, 4])
    items = gen_sorted() if rnd.random() < 0.4 else [gen_item() for _ in range(n)]
    j = rnd.choice(JOINS)
    values.append(rnd.choice(UNITS) + rnd.choice(["=", "=", "=", " = ", "", "=="]) + j.join(items))

bad = 0
kinds = {}
for v in values:
    o = run(orig_parse, v)
    n = run(new_parse, v)
    kinds[o[0]] = kinds.get(o[0], 0) + 1
    if o != n:
        bad += 1
        if bad < 10:
            print("MISMATCH", repr(v), o, n)

print(f"inputs={len(values)} outcome-kinds={kinds} mismatches={bad}")
print("PASS" if bad == 0 and len(kinds) >= 2 else "FAIL")
