"""Differential check for refactoring 1 (sansio.http.is_resource_modified).

Compares the worktree implementation against a pasted copy of the original.
"""
from __future__ import annotations

import itertools
import random
from datetime import datetime
from datetime import timedelta
from datetime import timezone

from werkzeug._internal import _dt_as_utc
from werkzeug.http import generate_etag
from werkzeug.http import http_date
from werkzeug.http import parse_date
from werkzeug.http import parse_etags
from werkzeug.http import parse_if_range_header
from werkzeug.http import unquote_etag
from werkzeug.sansio.http import is_resource_modified as new_is_resource_modified


def orig_is_resource_modified(
    http_range: str | None = None,
    http_if_range: str | None = None,
    http_if_modified_since: str | None = None,
    http_if_none_match: str | None = None,
    http_if_match: str | None = None,
    etag: str | None = None,
    data: bytes | None = None,
    last_modified: datetime | str | None = None,
    ignore_if_range: bool = True,
) -> bool:
    if etag is None and data is not None:
        etag = generate_etag(data)
    elif data is not None:
        raise TypeError("both data and etag given")

    unmodified = False
    if isinstance(last_modified, str):
        last_modified = parse_date(last_modified)

    # HTTP doesn't use microsecond, remove it to avoid false positive
    # comparisons. Mark naive datetimes as UTC.
    if last_modified is not None:
        last_modified = _dt_as_utc(last_modified.replace(microsecond=0))

    if_range = None
    if not ignore_if_range and http_range is not None:
        # https://tools.ietf.org/html/rfc7233#section-3.2
        # A server MUST ignore an If-Range header field received in a request
        # that does not contain a Range header field.
        if_range = parse_if_range_header(http_if_range)

    if if_range is not None and if_range.date is not None:
        modified_since: datetime | None = if_range.date
    else:
        modified_since = parse_date(http_if_modified_since)

    if modified_since and last_modified and last_modified <= modified_since:
        unmodified = True

    if etag:
        etag, _ = unquote_etag(etag)

        if if_range is not None and if_range.etag is not None:
            unmodified = parse_etags(if_range.etag).contains(etag)
        else:
            if_none_match = parse_etags(http_if_none_match)
            if if_none_match:
                # https://tools.ietf.org/html/rfc7232#section-3.2
                # "A recipient MUST use the weak comparison function when comparing
                # entity-tags for If-None-Match"
                unmodified = if_none_match.contains_weak(etag)

            # https://tools.ietf.org/html/rfc7232#section-3.1
            # "Origin server MUST use the strong comparison function when
            # comparing entity-tags for If-Match"
            if_match = parse_etags(http_if_match)
            if if_match:
                unmodified = not if_match.contains(etag)

    return not unmodified


def run(fn, kwargs):
    try:
        r = fn(**kwargs)
        return ("ok", type(r).__name__, r)
    except BaseException as e:  # noqa: B036
        return ("exc", type(e).__name__, str(e))


BASE = datetime(2024, 3, 5, 12, 30, 15, tzinfo=timezone.utc)
DATES = [
    http_date(BASE),
    http_date(BASE - timedelta(seconds=1)),
    http_date(BASE + timedelta(seconds=1)),
    http_date(BASE + timedelta(days=400)),
    "Tue, 05 Mar 2024 12:30:15 +0100",
]
ETAG_HEADERS = [
    None,
    "",
    "*",
    '"a"',
    'W/"a"',
    'w/"a"',
    '"b"',
    'W/"b"',
    '"b", "a"',
    '"b", W/"a"',
    "a",
    '"a", *',
    "garbage,,",
    '"' + generate_etag(b"x") + '"',
    'W/"' + generate_etag(b"x") + '"',
]
RANGES = [None, "bytes=0-10", "", "junk"]
IF_RANGES = [None, "", '"a"', 'W/"a"', '"b"', "a", "junk", '"' + generate_etag(b"x") + '"'] + DATES
IMS = [None, "", "junk", '"a"'] + DATES
ETAGS = [None, "", '"a"', 'W/"a"', "a", '"b"', "W/a", '"']
DATAS = [None, None, None, b"x", b""]
LAST_MOD = [
    None,
    BASE,
    BASE.replace(microsecond=999999),
    BASE.replace(tzinfo=None),
    BASE.replace(tzinfo=None, microsecond=5),
    BASE - timedelta(seconds=1),
    BASE + timedelta(seconds=1),
    BASE.astimezone(timezone(timedelta(hours=5))),
    http_date(BASE),
    http_date(BASE + timedelta(seconds=1)),
    "junk",
    "",
]


def main():
    rnd = random.Random(1107)
    cases = []
    # exhaustive over the validator headers for a few fixed representations
    for inm, im, ims, etag in itertools.product(
        ETAG_HEADERS, ETAG_HEADERS, IMS, ['"a"', 'W/"a"', None]
    ):
        cases.append(
            dict(
                http_if_none_match=inm,
                http_if_match=im,
                http_if_modified_since=ims,
                etag=etag,
                last_modified=BASE,
            )
        )
    for _ in range(30000):
        cases.append(
            dict(
                http_range=rnd.choice(RANGES),
                http_if_range=rnd.choice(IF_RANGES),
                http_if_modified_since=rnd.choice(IMS),
                http_if_none_match=rnd.choice(ETAG_HEADERS),
                http_if_match=rnd.choice(ETAG_HEADERS),
                etag=rnd.choice(ETAGS),
                data=rnd.choice(DATAS),
                last_modified=rnd.choice(LAST_MOD),
                ignore_if_range=rnd.choice([True, False]),
            )
        )
    bad = 0
    outcomes = {}
    for kw in cases:
        a = run(orig_is_resource_modified, kw)
        b = run(new_is_resource_modified, kw)
        outcomes[a[:2] + (a[2] if a[0] == "ok" else None,)] = (
            outcomes.get(a[:2] + (a[2] if a[0] == "ok" else None,), 0) + 1
        )
        if a != b:
            bad += 1
            if bad <= 10:
                print("MISMATCH", kw, a, b)
    print("cases", len(cases), "outcomes", outcomes)
    print("PASS" if bad == 0 else f"FAIL ({bad})")


if __name__ == "__main__":
    main()
