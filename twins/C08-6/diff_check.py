"""Differential check for refactoring 3.

Touched code (structures.py):
  * MultiDict.__init__ (Mapping branch), MultiDict.__getitem__
  * CombinedMultiDict.get, CombinedMultiDict.items

Run as:
  cd /tmp/wt6-C08 && PYTHONPATH=/tmp/wt6-C08/src /venv/bin/python /tmp/twin4-C08/3/diff_check.py

``OrigMultiDict`` / ``OrigCombinedMultiDict`` are the worktree classes with the
touched methods replaced by copies of the ORIGINAL implementation (the only
adaptation: zero-argument ``super()`` inside the pasted MultiDict methods is
spelled ``dict`` explicitly, because the copies live in a subclass).  The
immutable and file variants are rebuilt on top of OrigMultiDict.  Random
construction inputs and operation sequences are applied in lockstep; every
result, raised exception type and the raw dict-of-lists representation must
be identical.
"""

from __future__ import annotations

import collections
import collections.abc as cabc
import copy
import io
import pickle
import random
import sys
import types

from werkzeug import exceptions
from werkzeug.datastructures import CombinedMultiDict
from werkzeug.datastructures import FileMultiDict
from werkzeug.datastructures import FileStorage
from werkzeug.datastructures import Headers
from werkzeug.datastructures import ImmutableMultiDict
from werkzeug.datastructures import MultiDict
from werkzeug.datastructures import structures
from werkzeug.datastructures.mixins import ImmutableMultiDictMixin

assert "/tmp/wt6-C08/" in structures.__file__


# --------------------------------------------------------------------------
# originals
# --------------------------------------------------------------------------
class OrigMultiDict(MultiDict):
    def __init__(self, mapping=None):
        if mapping is None:
            dict.__init__(self)
        elif isinstance(mapping, MultiDict):
            dict.__init__(self, ((k, vs[:]) for k, vs in mapping.lists()))
        elif isinstance(mapping, cabc.Mapping):
            tmp = {}
            for key, value in mapping.items():
                if isinstance(value, (list, tuple, set)):
                    value = list(value)

                    if not value:
                        continue
                else:
                    value = [value]
                tmp[key] = value
            dict.__init__(self, tmp)
        else:
            tmp = {}
            for key, value in mapping:
                tmp.setdefault(key, []).append(value)
            dict.__init__(self, tmp)

    def __getitem__(self, key):
        if key in self:
            lst = dict.__getitem__(self, key)
            if len(lst) > 0:
                return lst[0]
        raise exceptions.BadRequestKeyError(key)


class OrigImmutableMultiDict(ImmutableMultiDictMixin, OrigMultiDict):
    def copy(self):
        return OrigMultiDict(self)

    def __copy__(self):
        return self


class OrigFileMultiDict(OrigMultiDict):
    add_file = FileMultiDict.add_file


class OrigCombinedMultiDict(CombinedMultiDict):
    def get(self, key, default=None, type=None):
        for d in self.dicts:
            if key in d:
                if type is not None:
                    try:
                        return type(d[key])
                    except (ValueError, TypeError):
                        continue
                return d[key]
        return default

    def items(self, multi=False):
        found = set()
        for d in self.dicts:
            for key, value in d.items(multi):
                if multi:
                    yield key, value
                elif key not in found:
                    found.add(key)
                    yield key, value


PAIR = {
    "md": (MultiDict, OrigMultiDict),
    "imd": (ImmutableMultiDict, OrigImmutableMultiDict),
    "fmd": (FileMultiDict, OrigFileMultiDict),
}


def norm_repr(s):
    return s.replace("Orig", "")


def run(fn, *a):
    try:
        return ("OK", fn(*a))
    except BaseException as e:  # noqa: BLE001
        return ("EXC", type(e))


def listify(res):
    """Fully consume lazily produced results so they can be compared."""
    tag, v = res
    if tag == "OK" and isinstance(v, (types.GeneratorType, cabc.Iterator, cabc.ItemsView, cabc.ValuesView, cabc.KeysView)):
        return run(lambda: ("ITER", list(v)))
    if tag == "OK" and isinstance(v, MultiDict):
        return ("OK", ("MD", type(v).__name__.replace("Orig", ""), raw(v)))
    return res


def raw(md):
    return [(k, type(v).__name__, list(v)) for k, v in dict.items(md)]


# --------------------------------------------------------------------------
# inputs
# --------------------------------------------------------------------------
KEYS = ["a", "b", "c", "A", "", 1, 1.0, True, None, ("t",), "é"]
VALS = ["x", "y", "", "1", "42", "4.5", 0, 7, None, False, b"b", ("tu",), ["li"], "z z"]


class ListSub(list):
    pass


class FalsyFullList(list):
    """list subclass whose truthiness disagrees with its length."""

    def __bool__(self):
        return False


class TupleSub(tuple):
    pass


class FrozenMapping(cabc.Mapping):
    def __init__(self, d):
        self._d = dict(d)

    def __getitem__(self, k):
        return self._d[k]

    def __iter__(self):
        return iter(self._d)

    def __len__(self):
        return len(self._d)


def rvalue_container(r):
    vals = [r.choice(VALS) for _ in range(r.choice([0, 0, 1, 2, 3]))]
    hashable = [v for v in vals if not isinstance(v, list)]
    kind = r.randrange(12)
    if kind == 0:
        return list(vals)
    if kind == 1:
        return tuple(vals)
    if kind == 2:
        return set(hashable)
    if kind == 3:
        return frozenset(hashable)  # NOT in (list, tuple, set): stays a scalar
    if kind == 4:
        return ListSub(vals)
    if kind == 5:
        return FalsyFullList(vals)
    if kind == 6:
        return TupleSub(vals)
    if kind == 7:
        return collections.deque(vals)  # scalar
    if kind == 8:
        return {"inner": 1}  # scalar
    return r.choice(VALS)


def rmapping_factory(r):
    """Return a factory producing a fresh constructor/update argument."""
    kind = r.randrange(13)
    pairs = [(r.choice(KEYS), r.choice(VALS)) for _ in range(r.randint(0, 6))]
    if kind == 0:
        return "None", lambda: None
    if kind in (1, 2, 3):
        d = {r.choice(KEYS): rvalue_container(r) for _ in range(r.randint(0, 5))}
        if kind == 1:
            return f"dict {d!r}", lambda: dict(d)
        if kind == 2:
            return f"FrozenMapping {d!r}", lambda: FrozenMapping(d)
        return f"OrderedDict {d!r}", lambda: collections.OrderedDict(d)
    if kind == 4:
        return f"pairs {pairs!r}", lambda: list(pairs)
    if kind == 5:
        return f"gen {pairs!r}", lambda: (p for p in pairs)
    if kind == 6:
        return f"MultiDict {pairs!r}", lambda: MultiDict(pairs)
    if kind == 7:
        return f"OrigMultiDict {pairs!r}", lambda: OrigMultiDict(pairs)
    if kind == 8:
        return f"ImmutableMultiDict {pairs!r}", lambda: ImmutableMultiDict(pairs)
    if kind == 9:
        cut = r.randint(0, len(pairs))
        return f"Combined {pairs!r}", lambda: CombinedMultiDict([MultiDict(pairs[:cut]), MultiDict(pairs[cut:])])
    if kind == 10:
        hp = [(str(k), str(v)) for k, v in pairs]
        return f"Headers {hp!r}", lambda: Headers(hp)
    if kind == 11:
        bad = r.choice([[("a", "b", "c")], [("a",)], 5, "abc", ["ab", "cd"], [1]])
        return f"bad {bad!r}", lambda: bad
    def emptylist_md():
        m = MultiDict(pairs)
        m.setlist("e", [])
        return m
    return f"MD-with-empty {pairs!r}", emptylist_md


def conv_raises_key(v):
    raise KeyError(v)


def conv_raises_type(v):
    raise TypeError(v)


CONVS = [None, int, float, str, conv_raises_key, conv_raises_type, len]


def md_op(r):
    c = r.randrange(30)
    k = r.choice(KEYS)
    v = r.choice(VALS)
    if c < 3:
        return f"add({k!r},{v!r})", lambda m: m.add(k, v)
    if c < 5:
        return f"[{k!r}]={v!r}", lambda m: m.__setitem__(k, v)
    if c < 8:
        vals = r.choice([[], [], [v], [v, "w"], (v,), "st", None, 5])
        return f"setlist({k!r},{vals!r})", lambda m: m.setlist(k, vals)
    if c < 10:
        vals = r.choice([None, [], [v], (v, "w"), "st", 5])
        return f"setlistdefault({k!r},{vals!r})", lambda m: list(m.setlistdefault(k, vals))
    if c < 12:
        return f"setdefault({k!r},{v!r})", lambda m: m.setdefault(k, v)
    if c < 14:
        if r.random() < 0.5:
            return f"pop({k!r})", lambda m: m.pop(k)
        return f"pop({k!r},{v!r})", lambda m: m.pop(k, v)
    if c < 15:
        return "popitem()", lambda m: m.popitem()
    if c < 16:
        return f"poplist({k!r})", lambda m: m.poplist(k)
    if c < 17:
        return "popitemlist()", lambda m: m.popitemlist()
    if c < 20:
        name, f = rmapping_factory(r)
        return f"update({name})", lambda m: m.update(f())
    if c < 21:
        return f"del[{k!r}]", lambda m: m.__delitem__(k)
    if c < 22:
        name, f = rmapping_factory(r)
        return f"|= {name}", lambda m: m.__ior__(f())
    if c < 23:
        name, f = rmapping_factory(r)
        return f"| {name}", lambda m: m.__or__(f())
    if c < 24:
        return "clear()", lambda m: m.clear()
    if c < 26:
        return f"[{k!r}]", lambda m: m[k]
    if c < 28:
        d, t = r.choice([None, "dflt"]), r.choice(CONVS)
        return f"get({k!r},{d!r},{t})", lambda m: m.get(k, d, t)
    if c < 29:
        fs = FileStorage(io.BytesIO(b"data"), filename="f.txt")
        return "add_file", lambda m: m.add_file(k, fs)
    return f"dict.__setitem__ raw tuple {k!r}", lambda m: dict.__setitem__(m, k, r.choice([(), ("raw",), "str", ""]))


def md_reads(m):
    out = [raw(m), len(m), norm_repr(run(repr, m)[1]) if run(repr, m)[0] == "OK" else run(repr, m)]
    for k in KEYS:
        out.append(run(lambda: m[k]))
        out.append(run(lambda: k in m))
        for t in CONVS:
            out.append(run(lambda: m.get(k, "D", t)))
            out.append(run(lambda: m.getlist(k, t)))
    for name, fn in (
        ("items", lambda: list(m.items())),
        ("items_multi", lambda: list(m.items(multi=True))),
        ("lists", lambda: list(m.lists())),
        ("values", lambda: list(m.values())),
        ("listvalues", lambda: [list(x) for x in m.listvalues()]),
        ("keys", lambda: list(m.keys())),
        ("iter", lambda: list(m)),
        ("to_dict", lambda: m.to_dict()),
        ("to_dict_f", lambda: m.to_dict(flat=False)),
        ("dict()", lambda: dict(m)),
        ("getstate", lambda: m.__getstate__()),
        ("hash", lambda: hash(m)),
    ):
        out.append((name, run(fn)))
    return out


def md_relations(m):
    """copy / deepcopy / pickle relations."""
    out = []
    for name, maker in (
        ("copy()", lambda x: x.copy()),
        ("copy.copy", copy.copy),
        ("deepcopy", copy.deepcopy),
        ("pickle", lambda x: pickle.loads(pickle.dumps(x))),
        ("pickle2", lambda x: pickle.loads(pickle.dumps(x, 2))),
        ("ctor", lambda x: type(x)(x)),
    ):
        c = run(maker, m)
        if c[0] != "OK":
            out.append((name, c))
            continue
        c = c[1]
        out.append((name, type(c).__name__.replace("Orig", ""), raw(c), run(lambda: c == m), c is m, run(lambda: hash(c) == hash(m))))
        # independence: mutate the copy (when it is mutable and distinct) and re-read the original
        if c is not m and not isinstance(c, ImmutableMultiDictMixin):
            before = raw(m)
            run(lambda: c.add("a", "MUT"))
            run(lambda: c.setlistdefault("b").append("MUT"))
            out.append((name, "independent", raw(m) == before))
    return out


def check_multidict():
    n = 0
    for seed in range(5000):
        r = random.Random(seed)
        kind = r.choice(["md", "md", "md", "imd", "fmd"])
        New, Old = PAIR[kind]
        name, f = rmapping_factory(r)
        a, b = run(New, f()), run(Old, f())
        n += 1
        if a[0] != b[0] or (a[0] == "EXC" and a != b):
            print("CTOR MISMATCH", seed, kind, name, a, b)
            return None
        if a[0] == "EXC":
            continue
        new, old = a[1], b[1]
        if raw(new) != raw(old):
            print("CTOR STATE MISMATCH", seed, kind, name, raw(new), raw(old))
            return None
        for _ in range(r.randint(0, 12)):
            opname, fn = md_op(r)
            st = r.getstate()
            ra = listify(run(fn, new))
            r.setstate(st)
            rb = listify(run(fn, old))
            n += 1
            if ra != rb or raw(new) != raw(old):
                print("OP MISMATCH", seed, kind, opname, ra, rb, raw(new), raw(old))
                return None
        if md_reads(new) != md_reads(old):
            print("READ MISMATCH", seed, kind, name)
            x, y = md_reads(new), md_reads(old)
            print([(p, q) for p, q in zip(x, y) if p != q][:3])
            return None
        ra, rb = md_relations(new), md_relations(old)
        if ra != rb:
            print("RELATION MISMATCH", seed, kind, name, [(p, q) for p, q in zip(ra, rb) if p != q][:3])
            return None
        if raw(new) != raw(old):
            print("POST MISMATCH", seed)
            return None
    return n


# --------------------------------------------------------------------------
# CombinedMultiDict
# --------------------------------------------------------------------------
MULTI_FLAGS = [False, True, 0, 1, None, "yes", "", [], [0]]


def rparts_factory(r):
    specs = []
    for _ in range(r.choice([0, 1, 2, 2, 3, 4])):
        pairs = [(r.choice(KEYS), r.choice(VALS)) for _ in range(r.randint(0, 5))]
        kind = r.choice(["md", "md", "md", "imd", "empty", "nested", "omd", "dict", "headers"])
        specs.append((kind, pairs, r.choice(KEYS)))

    def build():
        parts = []
        for kind, pairs, ek in specs:
            if kind == "md":
                parts.append(MultiDict(pairs))
            elif kind == "imd":
                parts.append(ImmutableMultiDict(pairs))
            elif kind == "empty":
                m = MultiDict(pairs)
                m.setlist(ek, [])  # key present with no values
                parts.append(m)
            elif kind == "nested":
                parts.append(CombinedMultiDict([MultiDict(pairs), MultiDict(pairs[:1])]))
            elif kind == "omd":
                parts.append(OrigMultiDict(pairs))
            elif kind == "dict":
                parts.append(dict(pairs))  # not a MultiDict: items(multi) raises
            else:
                parts.append(Headers([(str(k), str(v)) for k, v in pairs]))
        return parts

    return specs, build


def cmd_reads(c, r_flags):
    out = []
    for k in KEYS:
        for d in (None, "D"):
            for t in CONVS:
                out.append(run(lambda: c.get(k, d, t)))
                out.append(run(lambda: c.get(k, default=d, type=t)))
        out.append(run(lambda: c.get(k)))
        out.append(run(lambda: c[k]))
        out.append(run(lambda: k in c))
        out.append(run(lambda: c.getlist(k)))
        out.append(run(lambda: c.getlist(k, int)))
    for flag in r_flags:
        out.append(("items", repr(flag), run(lambda: list(c.items(flag)))))
        out.append(("items_kw", repr(flag), run(lambda: list(c.items(multi=flag)))))
    for name, fn in (
        ("items()", lambda: list(c.items())),
        ("values", lambda: list(c.values())),
        ("lists", lambda: [(k, list(v)) for k, v in c.lists()]),
        ("listvalues", lambda: [list(v) for v in c.listvalues()]),
        ("keys", lambda: sorted(map(repr, c.keys()))),
        ("len", lambda: len(c)),
        ("to_dict", lambda: c.to_dict()),
        ("to_dict_f", lambda: c.to_dict(flat=False)),
        ("copy", lambda: (type(c.copy()).__name__, raw(c.copy()))),
        ("MultiDict(c)", lambda: raw(MultiDict(c))),
        ("OrigMultiDict(c)", lambda: raw(OrigMultiDict(c))),
        ("hash", lambda: hash(c)),
        ("repr", lambda: norm_repr(repr(c))),
        ("pickle", lambda: [raw(d) for d in pickle.loads(pickle.dumps(c)).dicts]),
        ("isgen", lambda: type(c.items()).__name__),
    ):
        out.append((name, run(fn)))
    return out


def lazy_trace(c, parts, multi):
    """Step through items() while the wrapped dicts are mutated in between."""
    trace = []
    it = c.items(multi)
    for step in range(8):
        trace.append(run(next, it))
        if step == 1 and parts and isinstance(parts[0], MultiDict) and not isinstance(parts[0], ImmutableMultiDictMixin):
            trace.append(run(lambda: parts[0].setlist("a", ["changed", "twice"])))
        if step == 3 and parts and isinstance(parts[-1], MultiDict) and not isinstance(parts[-1], ImmutableMultiDictMixin):
            trace.append(run(lambda: parts[-1].add("brand-new", "v")))
    return trace


def check_combined():
    n = 0
    for seed in range(2500):
        r = random.Random(50_000 + seed)
        specs, build = rparts_factory(r)
        pn, po = build(), build()
        new, old = CombinedMultiDict(pn), OrigCombinedMultiDict(po)
        flags = r.sample(MULTI_FLAGS, 4)
        a, b = cmd_reads(new, flags), cmd_reads(old, flags)
        n += len(a)
        if a != b:
            print("COMBINED MISMATCH", seed, specs, [(p, q) for p, q in zip(a, b) if p != q][:3])
            return None
        # mutators rejected with TypeError and nothing changes
        for c in (new, old):
            before = [run(lambda d=d: list(d.items(multi=True))) for d in c.dicts]
            for m in (
                lambda x: x.add("a", 1),
                lambda x: x.__setitem__("a", 1),
                lambda x: x.pop("a"),
                lambda x: x.update({"a": 1}),
                lambda x: x.setlist("a", [1]),
                lambda x: x.clear(),
                lambda x: x.popitem(),
                lambda x: x.setdefault("a", 1),
            ):
                if run(m, c) != ("EXC", TypeError):
                    print("MUTATOR NOT REJECTED", seed)
                    return None
            if before != [run(lambda d=d: list(d.items(multi=True))) for d in c.dicts]:
                print("MUTATOR CHANGED STATE", seed)
                return None
        # live view + lazy generator behaviour
        multi = r.choice([False, True])
        ta, tb = lazy_trace(new, pn, multi), lazy_trace(old, po, multi)
        if ta != tb:
            print("LAZY MISMATCH", seed, ta, tb)
            return None
        a, b = cmd_reads(new, flags[:1]), cmd_reads(old, flags[:1])
        if a != b:
            print("COMBINED POST MISMATCH", seed)
            return None
    return n


def main():
    a = check_multidict()
    if a is None:
        return 1
    b = check_combined()
    if b is None:
        return 1
    print(f"multidict ctor+ops={a} combined reads={b}")
    print("PASS")
    return 0


if __name__ == "__main__":
    sys.exit(main())
