"""Differential check for refactoring 3 (wsgi._RangeWrapper).

Drives the worktree's _RangeWrapper and a verbatim copy of the ORIGINAL class
step by step over the same generated (body, chunking, seekability, start,
byte_range) inputs, comparing every yielded chunk, every raised exception type
and the internal counters after each step.  Also runs full range requests
through Response.make_conditional and checks them against the original class
substituted into the same pipeline.  Prints PASS only if everything matches.
"""
import io
import random

import werkzeug.wrappers.response as response_mod
from werkzeug.test import EnvironBuilder
from werkzeug.wrappers import Response
from werkzeug.wsgi import _RangeWrapper as NewRW
from werkzeug.wsgi import FileWrapper


class OrigRW:
    def __init__(self, iterable, start_byte=0, byte_range=None):
        self.iterable = iter(iterable)
        self.byte_range = byte_range
        self.start_byte = start_byte
        self.end_byte = None

        if byte_range is not None:
            self.end_byte = start_byte + byte_range

        self.read_length = 0
        self.seekable = hasattr(iterable, "seekable") and iterable.seekable()
        self.end_reached = False

    def __iter__(self):
        return self

    def _next_chunk(self):
        try:
            chunk = next(self.iterable)
            self.read_length += len(chunk)
            return chunk
        except StopIteration:
            self.end_reached = True
            raise

    def _first_iteration(self):
        chunk = None
        if self.seekable:
            self.iterable.seek(self.start_byte)
            self.read_length = self.iterable.tell()
            contextual_read_length = self.read_length
        else:
            while self.read_length <= self.start_byte:
                chunk = self._next_chunk()
            if chunk is not None:
                chunk = chunk[self.start_byte - self.read_length :]
            contextual_read_length = self.start_byte
        return chunk, contextual_read_length

    def _next(self):
        if self.end_reached:
            raise StopIteration()
        chunk = None
        contextual_read_length = self.read_length
        if self.read_length == 0:
            chunk, contextual_read_length = self._first_iteration()
        if chunk is None:
            chunk = self._next_chunk()
        if self.end_byte is not None and self.read_length >= self.end_byte:
            self.end_reached = True
            return chunk[: self.end_byte - contextual_read_length]
        return chunk

    def __next__(self):
        chunk = self._next()
        if chunk:
            return chunk
        self.end_reached = True
        raise StopIteration()

    def close(self):
        if hasattr(self.iterable, "close"):
            self.iterable.close()


class ClampSeek:
    """Seekable iterator whose tell() clamps to the data length and which
    yields fixed-size blocks (a stricter cousin of FileWrapper)."""

    def __init__(self, data, block):
        self.data, self.block, self.pos, self.closed = data, block, 0, 0

    def seekable(self):
        return True

    def seek(self, pos):
        self.pos = max(0, min(pos, len(self.data)))

    def tell(self):
        return self.pos

    def __iter__(self):
        return self

    def __next__(self):
        if self.pos >= len(self.data):
            raise StopIteration
        c = self.data[self.pos : self.pos + self.block]
        self.pos += len(c)
        return c

    def close(self):
        self.closed += 1


class Boom(Exception):
    pass


rnd = random.Random(303)


def chunkings(data):
    n = len(data)
    k = rnd.random()
    if k < 0.15:
        return [data]
    cuts = sorted(rnd.randrange(0, n + 1) for _ in range(rnd.randrange(0, 8)))
    parts, prev = [], 0
    for c in cuts + [n]:
        parts.append(data[prev:c])  # may be empty
        prev = c
    if rnd.random() < 0.5:
        parts = [p for p in parts if p]
    return parts


def make_source(kind, data, parts, block):
    if kind == "list":
        return list(parts)
    if kind == "gen":
        return (p for p in parts)
    if kind == "gen_boom":
        def g():
            for i, p in enumerate(parts):
                if i == len(parts) // 2 + 1:
                    raise Boom()
                yield p
        return g()
    if kind == "bytesio":
        return io.BytesIO(data)  # seekable, iterates by lines
    if kind == "filewrapper":
        return FileWrapper(io.BytesIO(data), block)
    if kind == "clamp":
        return ClampSeek(data, block)
    raise AssertionError(kind)


def state(w):
    return (w.read_length, w.end_reached, w.start_byte, w.end_byte, w.byte_range, bool(w.seekable))


def drive(cls, src, start, brange):
    log = []
    try:
        w = cls(src, start, brange)
    except BaseException as e:  # noqa: B036
        return [("INIT-EXC", type(e).__name__)]
    log.append(("INIT", state(w), iter(w) is w))
    stops = 0
    for _ in range(60):
        try:
            c = next(w)
            log.append(("CHUNK", bytes(c), state(w)))
        except StopIteration:
            log.append(("STOP", state(w)))
            stops += 1
            if stops == 3:  # keep poking after exhaustion
                break
        except BaseException as e:  # noqa: B036
            log.append(("EXC", type(e).__name__, state(w)))
            break
    try:
        w.close()
        log.append(("CLOSED", getattr(src, "closed", None)))
    except BaseException as e:  # noqa: B036
        log.append(("CLOSE-EXC", type(e).__name__))
    return log


KINDS = ["list", "gen", "gen_boom", "bytesio", "filewrapper", "clamp"]
N = 30000
bad = 0
outcomes = {}
exact = 0
for i in range(N):
    n = rnd.choice([0, 1, 2, 3, 7, 16, 50, 200])
    data = bytes(rnd.choice(b"abcdefghij\n") for _ in range(n))
    parts = chunkings(data)
    block = rnd.choice([1, 2, 3, 8, 64, 1024])
    kind = rnd.choice(KINDS)
    start = rnd.choice([0, 0, 1, 2, n // 2, max(n - 1, 0), n, n + 1, n + 5, rnd.randrange(0, n + 2), -1])
    brange = rnd.choice([None, 0, 1, 2, n // 2, n, n + 3, rnd.randrange(0, n + 2), max(n - start, 0), -1])
    if rnd.random() < 0.01:
        brange = "x"  # TypeError in __init__ for both
    lo = drive(OrigRW, make_source(kind, data, parts, block), start, brange)
    ln = drive(NewRW, make_source(kind, data, parts, block), start, brange)
    for entry in lo:
        outcomes[entry[0]] = outcomes.get(entry[0], 0) + 1
    if lo != ln:
        bad += 1
        if bad < 6:
            print("MISMATCH", kind, data, parts, block, start, brange)
            print("  orig:", lo)
            print("  new :", ln)
    elif isinstance(brange, int) and brange >= 0 and 0 <= start and kind not in ("gen_boom",):
        body = b"".join(e[1] for e in lo if e[0] == "CHUNK")
        exact += body == data[start : start + brange]

# End-to-end: the same Range requests through Response.make_conditional with
# the new class vs. the original class substituted into the pipeline.
def e2e(cls, data, parts, kind, block, header, method):
    saved = response_mod._RangeWrapper
    response_mod._RangeWrapper = cls
    try:
        if kind in ("list", "gen"):
            resp = Response(make_source(kind, data, parts, block))
        else:
            resp = Response(make_source(kind, data, parts, block), direct_passthrough=True)
        env = EnvironBuilder(method=method, headers={"Range": header} if header else {}).get_environ()
        try:
            resp.make_conditional(env, accept_ranges=True, complete_length=len(data))
        except BaseException as e:  # noqa: B036
            return ("EXC", type(e).__name__, getattr(e, "code", None))
        try:
            body = [bytes(c) for c in resp.response]
        except BaseException as e:  # noqa: B036
            body = ("EXC", type(e).__name__)
        return (resp.status_code, sorted(resp.headers.items()), body)
    finally:
        response_mod._RangeWrapper = saved


M = 6000
for i in range(M):
    n = rnd.choice([0, 1, 5, 20, 100])
    data = bytes(rnd.choice(b"abcdefghij") for _ in range(n))
    parts = chunkings(data)
    kind = rnd.choice(["list", "gen", "filewrapper", "clamp"])
    block = rnd.choice([1, 3, 16, 1024])
    a, b = rnd.randrange(0, n + 3), rnd.randrange(0, n + 3)
    header = rnd.choice([None, f"bytes={a}-{b}", f"bytes={a}-", f"bytes=-{b}", "bytes=0-0",
                         f"bytes={a}-{b},{b + 2}-{b + 4}", "bytes=x-y", "items=0-1", f"bytes={min(a, b)}-{max(a, b)}"])
    method = rnd.choice(["GET", "GET", "GET", "HEAD", "POST"])
    o = e2e(OrigRW, data, parts, kind, block, header, method)
    nw = e2e(NewRW, data, parts, kind, block, header, method)
    outcomes[f"e2e-{o[0]}"] = outcomes.get(f"e2e-{o[0]}", 0) + 1
    if o != nw:
        bad += 1
        if bad < 6:
            print("E2E MISMATCH", data, parts, kind, block, header, method, o, nw)

print(f"unit-inputs={N} e2e-inputs={M} outcomes={outcomes} slices-exact={exact} mismatches={bad}")
ok = bad == 0 and outcomes.get("CHUNK", 0) > 5000 and outcomes.get("e2e-206", 0) > 500
print("PASS" if ok else "FAIL")
