"""Differential check for refactoring 3 (wsgi.get_input_stream).

Run: cd /tmp/wt13-C10 && PYTHONPATH=/tmp/wt13-C10/src /venv/bin/python /tmp/twin8-C10/3/diff_check.py
"""

from __future__ import annotations

import io
import random
import typing as t

from werkzeug import formparser
from werkzeug import wsgi
from werkzeug.exceptions import RequestEntityTooLarge
from werkzeug.formparser import FormDataParser
from werkzeug.wrappers import Request
from werkzeug.wsgi import get_content_length
from werkzeug.wsgi import get_input_stream
from werkzeug.wsgi import LimitedStream


def orig_get_input_stream(
    environ: dict[str, t.Any],
    safe_fallback: bool = True,
    max_content_length: int | None = None,
) -> t.IO[bytes]:
    # ORIGINAL implementation, pasted from the unmodified tree (docstring dropped).
    stream = t.cast(t.IO[bytes], environ["wsgi.input"])
    content_length = get_content_length(environ)

    if content_length is not None and max_content_length is not None:
        if content_length > max_content_length:
            raise RequestEntityTooLarge()

    # A WSGI server can set this to indicate that it terminates the input stream. In
    # that case the stream is safe without wrapping, or can enforce a max length.
    if "wsgi.input_terminated" in environ:
        if max_content_length is not None:
            # If this is moved above, it can cause the stream to hang if a read attempt
            # is made when the client sends no data. For example, the development server
            # does not handle buffering except for chunked encoding.
            return t.cast(
                t.IO[bytes], LimitedStream(stream, max_content_length, is_max=True)
            )

        return stream

    # No limit given, return an empty stream unless the user explicitly allows the
    # potentially infinite stream. An infinite stream is dangerous if it's not expected,
    # as it can tie up a worker indefinitely.
    if content_length is None:
        return io.BytesIO() if safe_fallback else stream

    return t.cast(t.IO[bytes], LimitedStream(stream, content_length))


assert orig_get_input_stream.__code__ is not get_input_stream.__code__

MISSING = object()


class NoReadinto:
    """WSGI input with only read()."""

    def __init__(self, data: bytes) -> None:
        self._io = io.BytesIO(data)

    def read(self, size: int = -1) -> bytes:
        return self._io.read(size)


def describe(stream: t.Any, src: t.Any, reads: list[int]) -> tuple[t.Any, ...]:
    info: list[t.Any] = [type(stream).__name__, stream is src]
    if isinstance(stream, LimitedStream):
        info += [stream.limit, stream._limit_is_max, stream._stream is src, stream._pos]
    if isinstance(stream, io.BytesIO) and stream is not src:
        info.append(stream.getvalue())
    out: list[t.Any] = []
    for size in reads:
        try:
            out.append(stream.read(size))
        except Exception as e:
            out.append(("exc", type(e), str(e)))
            break
    info.append(out)
    if isinstance(stream, LimitedStream):
        info += [stream._pos, stream.is_exhausted]
    return tuple(info)


def call(
    fn: t.Callable[..., t.Any],
    environ_items: dict[str, t.Any],
    data: bytes | None,
    readinto: bool,
    args_mode: int,
    safe_fallback: t.Any,
    max_len: t.Any,
    reads: list[int],
) -> t.Any:
    environ = dict(environ_items)
    src: t.Any = None
    if data is not None:
        src = io.BytesIO(data) if readinto else NoReadinto(data)
        environ["wsgi.input"] = src
    before = dict(environ)
    try:
        if args_mode == 0:
            stream = fn(environ, safe_fallback, max_len)
        elif args_mode == 1:
            stream = fn(environ, safe_fallback=safe_fallback, max_content_length=max_len)
        elif args_mode == 2:
            stream = fn(environ, max_content_length=max_len)
        else:
            stream = fn(environ)
    except Exception as e:
        return ("exc", type(e), str(e), environ == before)
    return ("ok", describe(stream, src, reads), environ == before)


def e2e(
    fn: t.Callable[..., t.Any],
    body: bytes,
    environ_extra: dict[str, t.Any],
    ctype: str,
    mem: int | None,
    max_len: int | None,
    parts: int | None,
) -> t.Any:
    saved_fp, saved_w = formparser.get_input_stream, wsgi.get_input_stream
    formparser.get_input_stream = fn  # type: ignore[assignment]
    wsgi.get_input_stream = fn  # type: ignore[assignment]
    try:
        out = []
        environ = {
            "wsgi.input": io.BytesIO(body),
            "CONTENT_TYPE": ctype,
            "REQUEST_METHOD": "POST",
            **environ_extra,
        }
        p = FormDataParser(
            max_form_memory_size=mem, max_content_length=max_len, max_form_parts=parts
        )
        try:
            stream, form, files = p.parse_from_environ(environ)
            out.append(
                (
                    "ok",
                    type(stream).__name__,
                    list(form.items(multi=True)),
                    [(k, v.filename, v.read()) for k, v in files.items(multi=True)],
                )
            )
        except Exception as e:
            out.append(("exc", type(e), str(e)))

        # Through the Request wrapper (uses werkzeug.wrappers.request's own import)
        import werkzeug.wrappers.request as wr

        saved_r = wr.get_input_stream
        wr.get_input_stream = fn  # type: ignore[assignment]
        try:
            environ["wsgi.input"] = io.BytesIO(body)

            class R(Request):
                max_content_length = max_len
                max_form_memory_size = mem
                max_form_parts = parts

            req = R(environ)
            try:
                out.append(
                    (
                        "ok",
                        list(req.form.items(multi=True)),
                        [(k, v.filename, v.read()) for k, v in req.files.items(multi=True)],
                    )
                )
            except Exception as e:
                out.append(("exc", type(e), str(e)))
            environ["wsgi.input"] = io.BytesIO(body)
            req = R(environ)
            try:
                out.append(("data", req.get_data()))
            except Exception as e:
                out.append(("exc", type(e), str(e)))
        finally:
            wr.get_input_stream = saved_r  # type: ignore[assignment]
        return out
    finally:
        formparser.get_input_stream = saved_fp  # type: ignore[assignment]
        wsgi.get_input_stream = saved_w  # type: ignore[assignment]


CL_VALUES = [MISSING, MISSING, "", "0", "1", "5", "17", "100", "5000", "abc", "-1", "+3", " 7", "7 ", "1_0", "٣", "99999999999"]
TE_VALUES = [MISSING, MISSING, MISSING, "chunked", "Chunked", "gzip", "gzip, chunked", ""]
TERM_VALUES = [MISSING, MISSING, True, False, None, 0, "1"]
MAX_VALUES = [None, None, 0, 1, 4, 5, 6, 16, 17, 18, 100, 4999, 5000, 10**9]
FALLBACK_VALUES = [True, True, False, False, 0, 1, None, "", "x", [], [0]]


def main() -> None:
    rng = random.Random(31337)
    counts = {"ok": 0, "RequestEntityTooLarge": 0, "other-exc": 0}
    shapes: dict[str, int] = {}
    n = 0
    for i in range(8000):
        env: dict[str, t.Any] = {}
        cl = rng.choice(CL_VALUES)
        if cl is not MISSING:
            env["CONTENT_LENGTH"] = cl
        te = rng.choice(TE_VALUES)
        if te is not MISSING:
            env["HTTP_TRANSFER_ENCODING"] = te
        term = rng.choice(TERM_VALUES)
        if term is not MISSING:
            env["wsgi.input_terminated"] = term
        size = rng.choice([0, 1, 4, 5, 6, 17, 100, 5000, 70000])
        data: bytes | None = bytes(rng.randrange(256) for _ in range(min(size, 300)))
        if size > 300:
            data = (data * (size // 300 + 1))[:size]
        if rng.random() < 0.02:
            data = None  # no wsgi.input -> KeyError
        readinto = rng.random() < 0.6
        args_mode = rng.choice([0, 0, 1, 1, 2, 3])
        safe_fallback = rng.choice(FALLBACK_VALUES)
        max_len = rng.choice(MAX_VALUES)
        reads = [rng.choice([-1, 0, 1, 3, 10, 64, 4096, 100000]) for _ in range(rng.randrange(1, 6))]
        reads.append(-1)

        a = call(orig_get_input_stream, env, data, readinto, args_mode, safe_fallback, max_len, reads)
        b = call(get_input_stream, env, data, readinto, args_mode, safe_fallback, max_len, reads)
        if a != b:
            print("FAIL case", i, env, size, readinto, args_mode, safe_fallback, max_len, reads)
            print(" orig:", a)
            print(" new :", b)
            raise SystemExit(1)
        n += 1
        if a[0] == "ok":
            counts["ok"] += 1
            key = f"{a[1][0]}:{a[1][1]}:{a[1][3] if a[1][0] == 'LimitedStream' else ''}"
            shapes[key] = shapes.get(key, 0) + 1
        elif a[1] is RequestEntityTooLarge:
            counts["RequestEntityTooLarge"] += 1
        else:
            counts["other-exc"] += 1

        if i % 4 == 0:
            # end-to-end through FormDataParser / Request
            nfields = rng.choice([0, 1, 3, 20])
            if rng.random() < 0.5:
                body = "&".join(f"k{j}=v{j}" * rng.choice([1, 5]) for j in range(nfields)).encode()
                ctype = "application/x-www-form-urlencoded"
            else:
                body = b"".join(
                    b'--bd\r\nContent-Disposition: form-data; name="k%d"%s\r\n\r\n%s\r\n'
                    % (j, b'; filename="f"' if j % 3 == 2 else b"", b"v" * rng.choice([1, 40]))
                    for j in range(nfields)
                ) + b"--bd--\r\n"
                ctype = "multipart/form-data; boundary=bd"
            extra: dict[str, t.Any] = {}
            r = rng.random()
            if r < 0.6:
                extra["CONTENT_LENGTH"] = str(len(body))
            elif r < 0.75:
                extra["CONTENT_LENGTH"] = str(max(0, len(body) - 3))
            elif r < 0.85:
                extra["HTTP_TRANSFER_ENCODING"] = "chunked"
            if rng.random() < 0.4:
                extra["wsgi.input_terminated"] = True
            mem = rng.choice([None, 10, 100, 10**6])
            parts = rng.choice([None, 2, 1000])
            ml = rng.choice([None, 0, 10, len(body) - 1, len(body), len(body) + 1, 10**6])
            if ml is not None and ml < 0:
                ml = 0
            a2 = e2e(orig_get_input_stream, body, extra, ctype, mem, ml, parts)
            b2 = e2e(get_input_stream, body, extra, ctype, mem, ml, parts)
            if a2 != b2:
                print("FAIL e2e case", i, body, extra, ctype, mem, ml, parts)
                print(" orig:", a2)
                print(" new :", b2)
                raise SystemExit(1)
            n += 1

    print("cases:", n, counts)
    print("result shapes:", shapes)
    assert counts["ok"] > 1000 and counts["RequestEntityTooLarge"] > 300
    assert len(shapes) >= 5, shapes
    print("PASS")


if __name__ == "__main__":
    main()
