"""Differential check for refactoring 1 (DispatcherMiddleware.__call__).

Run: cd /tmp/wt6-C15 && PYTHONPATH=/tmp/wt6-C15/src /venv/bin/python /tmp/twin4-C15/1/diff_check.py
"""
import random

from werkzeug.middleware.dispatcher import DispatcherMiddleware as New


class Orig:
    # verbatim copy of the original implementation
    def __init__(self, app, mounts=None):
        self.app = app
        self.mounts = mounts or {}

    def __call__(self, environ, start_response):
        script = environ.get("PATH_INFO", "")
        path_info = ""

        while "/" in script:
            if script in self.mounts:
                app = self.mounts[script]
                break

            script, last_item = script.rsplit("/", 1)
            path_info = f"/{last_item}{path_info}"
        else:
            app = self.mounts.get(script, self.app)

        original_script_name = environ.get("SCRIPT_NAME", "")
        environ["SCRIPT_NAME"] = original_script_name + script
        environ["PATH_INFO"] = path_info
        return app(environ, start_response)


def make_app(name):
    def app(environ, start_response):
        return (name, environ.get("SCRIPT_NAME"), environ.get("PATH_INFO"))

    app.__name__ = name
    return app


SEGS = ["", "a", "b", "api", "v1", "☃", "caf\xe9", "a b", "%2F", ".", "..", "x" * 5]
rng = random.Random(1515)


def rand_path():
    k = rng.randrange(0, 6)
    parts = [rng.choice(SEGS) for _ in range(k)]
    style = rng.randrange(4)
    p = "/".join(parts)
    if style == 0:
        p = "/" + p
    elif style == 1:
        p = "/" + p + "/"
    elif style == 2:
        pass  # no leading slash
    else:
        p = "//" + p
    return p


def run(cls, mounts, env):
    env = dict(env)
    mw = cls(make_app("default"), mounts)
    try:
        out = mw(env, None)
        return ("ok", out, sorted(env.items(), key=repr))
    except BaseException as e:  # noqa: BLE001
        return ("exc", type(e), sorted(env.items(), key=repr))


def main():
    n = 0
    for _ in range(20000):
        nm = rng.randrange(0, 6)
        mounts = {}
        for i in range(nm):
            key = rand_path()
            if rng.random() < 0.5:
                key = key.rstrip("/")
            # occasionally a non-callable / None mount to exercise error path
            r = rng.random()
            if r < 0.03:
                mounts[key] = None
            else:
                mounts[key] = make_app(f"m{i}")
        if rng.random() < 0.1:
            mounts = None
        env = {}
        r = rng.random()
        if r < 0.9:
            if mounts and rng.random() < 0.5:
                base = rng.choice(list(mounts))
                env["PATH_INFO"] = base + rng.choice(["", "/", "/x", "/x/y", "x", "/☃/"])
            else:
                env["PATH_INFO"] = rand_path()
        elif r < 0.93:
            env["PATH_INFO"] = b"/bytes/path"  # TypeError in both
        elif r < 0.95:
            env["PATH_INFO"] = None  # TypeError in both
        if rng.random() < 0.7:
            env["SCRIPT_NAME"] = rng.choice(["", "/root", "/r/s", "/☃"])
        elif rng.random() < 0.1:
            env["SCRIPT_NAME"] = 5  # TypeError on concat in both
        a = run(Orig, mounts, env)
        b = run(New, mounts, env)
        # compare app identity by name (apps created separately per run)
        if a != b:
            print("MISMATCH", mounts and list(mounts), env, a, b)
            raise SystemExit(1)
        # invariant: script+path preserved
        n += 1
    print(f"PASS ({n} cases)")


if __name__ == "__main__":
    main()
