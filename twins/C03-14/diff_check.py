"""Differential check for refactoring 2 (property C03).

Run: cd /tmp/wt12-C03 && PYTHONPATH=/tmp/wt12-C03/src /venv/bin/python /tmp/twin7-C03/2/diff_check.py

Compares the worktree implementation against a copy of the ORIGINAL
implementation embedded below, on randomly generated rule maps / requests.
Prints PASS only if all outputs and raised exception types are identical.
"""
import sys
import types

ORIGINAL_MATCHER_SOURCE = r'''from __future__ import annotations

import re
import typing as t
from dataclasses import dataclass
from dataclasses import field

from .converters import ValidationError
from .exceptions import NoMatch
from .exceptions import RequestAliasRedirect
from .exceptions import RequestPath
from .rules import Rule
from .rules import RulePart


class SlashRequired(Exception):
    pass


@dataclass
class State:
    """A representation of a rule state.

    This includes the *rules* that correspond to the state and the
    possible *static* and *dynamic* transitions to the next state.
    """

    dynamic: list[tuple[RulePart, State]] = field(default_factory=list)
    rules: list[Rule] = field(default_factory=list)
    static: dict[str, State] = field(default_factory=dict)


class StateMachineMatcher:
    def __init__(self, merge_slashes: bool) -> None:
        self._root = State()
        self.merge_slashes = merge_slashes

    def add(self, rule: Rule) -> None:
        state = self._root
        for part in rule._parts:
            if part.static:
                state.static.setdefault(part.content, State())
                state = state.static[part.content]
            else:
                for test_part, new_state in state.dynamic:
                    if test_part == part:
                        state = new_state
                        break
                else:
                    new_state = State()
                    state.dynamic.append((part, new_state))
                    state = new_state
        state.rules.append(rule)

    def update(self) -> None:
        # For every state the dynamic transitions should be sorted by
        # the weight of the transition
        state = self._root

        def _update_state(state: State) -> None:
            state.dynamic.sort(key=lambda entry: entry[0].weight)
            for new_state in state.static.values():
                _update_state(new_state)
            for _, new_state in state.dynamic:
                _update_state(new_state)

        _update_state(state)

    def match(
        self, domain: str, path: str, method: str, websocket: bool
    ) -> tuple[Rule, t.MutableMapping[str, t.Any]]:
        # To match to a rule we need to start at the root state and
        # try to follow the transitions until we find a match, or find
        # there is no transition to follow.

        have_match_for = set()
        websocket_mismatch = False

        def _match(
            state: State, parts: list[str], values: list[str]
        ) -> tuple[Rule, list[str]] | None:
            # This function is meant to be called recursively, and will attempt
            # to match the head part to the state's transitions.
            nonlocal have_match_for, websocket_mismatch

            # The base case is when all parts have been matched via
            # transitions. Hence if there is a rule with methods &
            # websocket that work return it and the dynamic values
            # extracted.
            if parts == []:
                for rule in state.rules:
                    if rule.methods is not None and method not in rule.methods:
                        have_match_for.update(rule.methods)
                    elif rule.websocket != websocket:
                        websocket_mismatch = True
                    else:
                        return rule, values

                # Test if there is a match with this path with a
                # trailing slash, if so raise an exception to report
                # that matching is possible with an additional slash
                if "" in state.static:
                    for rule in state.static[""].rules:
                        if websocket == rule.websocket and (
                            rule.methods is None or method in rule.methods
                        ):
                            if rule.strict_slashes:
                                raise SlashRequired()
                            else:
                                return rule, values
                        elif (
                            not rule.strict_slashes
                            and rule.methods is not None
                            and method not in rule.methods
                        ):
                            have_match_for.update(rule.methods)
                return None

            part = parts[0]
            # To match this part try the static transitions first
            if part in state.static:
                rv = _match(state.static[part], parts[1:], values)
                if rv is not None:
                    return rv
            # No match via the static transitions, so try the dynamic
            # ones.
            for test_part, new_state in state.dynamic:
                target = part
                remaining = parts[1:]
                # A final part indicates a transition that always
                # consumes the remaining parts i.e. transitions to a
                # final state.
                if test_part.final:
                    target = "/".join(parts)
                    remaining = []
                match = re.compile(test_part.content).match(target)
                if match is not None:
                    if test_part.suffixed:
                        # If a part_isolating=False part has a slash suffix, remove the
                        # suffix from the match and check for the slash redirect next.
                        suffix = match.groups()[-1]
                        if suffix == "/":
                            remaining = [""]

                    converter_groups = sorted(
                        match.groupdict().items(), key=lambda entry: entry[0]
                    )
                    groups = [
                        value
                        for key, value in converter_groups
                        if key[:11] == "__werkzeug_"
                    ]
                    rv = _match(new_state, remaining, values + groups)
                    if rv is not None:
                        return rv

            # If there is no match and the only part left is a
            # trailing slash ("") consider rules that aren't
            # strict-slashes as these should match if there is a final
            # slash part.
            if parts == [""]:
                for rule in state.rules:
                    if rule.strict_slashes:
                        continue
                    if rule.methods is not None and method not in rule.methods:
                        have_match_for.update(rule.methods)
                    elif rule.websocket != websocket:
                        websocket_mismatch = True
                    else:
                        return rule, values

            return None

        try:
            rv = _match(self._root, [domain, *path.split("/")], [])
        except SlashRequired:
            raise RequestPath(f"{path}/") from None

        if self.merge_slashes and rv is None:
            # Try to match again, but with slashes merged
            path = re.sub("/{2,}?", "/", path)
            try:
                rv = _match(self._root, [domain, *path.split("/")], [])
            except SlashRequired:
                raise RequestPath(f"{path}/") from None
            if rv is None or rv[0].merge_slashes is False:
                raise NoMatch(have_match_for, websocket_mismatch)
            else:
                raise RequestPath(f"{path}")
        elif rv is not None:
            rule, values = rv

            result = {}
            for name, value in zip(rule._converters.keys(), values):
                try:
                    value = rule._converters[name].to_python(value)
                except ValidationError:
                    raise NoMatch(have_match_for, websocket_mismatch) from None
                result[str(name)] = value
            if rule.defaults:
                result.update(rule.defaults)

            if rule.alias and rule.map.redirect_defaults:
                raise RequestAliasRedirect(result, rule.endpoint)

            return rule, result

        raise NoMatch(have_match_for, websocket_mismatch)
'''


def load_original_matcher():
    mod = types.ModuleType("werkzeug.routing._orig_matcher")
    mod.__package__ = "werkzeug.routing"
    sys.modules[mod.__name__] = mod
    exec(compile(ORIGINAL_MATCHER_SOURCE, "<original matcher.py>", "exec"), mod.__dict__)
    return mod


# ---- scenario generator ----
"""Shared random generator of routing scenarios (rule specs, requests)."""
import random

STATIC = ["a", "b", "ab", "a.b", "x-1", "1", "12", "1.5", "-3", "a+b", "(x)", "é", "edit", "ab12"]
CONVS = [
    "", "string", "string(length=2)", "string(minlength=2)", "string(maxlength=1)",
    "int", "int(signed=True)", "int(fixed_digits=2)", "int(min=2, max=50)",
    "float", "float(signed=True)", "path", "any(a,b,ab)", "any(edit,x1)", "uuid",
]
SAMPLES = {
    "": ["a", "ab", "1", "12", "1.5", "x-1", "é", "a.b"],
    "string": ["a", "ab", "1", "12", "zz"],
    "string(length=2)": ["ab", "12", "a", "abc"],
    "string(minlength=2)": ["ab", "abc", "a"],
    "string(maxlength=1)": ["a", "1", "ab"],
    "int": ["1", "12", "007", "-3", "x"],
    "int(signed=True)": ["1", "-3", "12", "--1"],
    "int(fixed_digits=2)": ["12", "07", "1", "123"],
    "int(min=2, max=50)": ["1", "2", "12", "51"],
    "float": ["1.5", "1", "0.25", "-1.5", "1."],
    "float(signed=True)": ["1.5", "-1.5", "1"],
    "path": ["a", "a/b", "a/b/12", "1.5/x", "a//b", "edit"],
    "any(a,b,ab)": ["a", "b", "ab", "c"],
    "any(edit,x1)": ["edit", "x1", "2"],
    "uuid": ["123e4567-e89b-12d3-a456-426614174000", "123e4567"],
}
METHODS = ["GET", "POST", "PUT", "DELETE", "HEAD", "OPTIONS"]
DOMAINS = ["", "api", "www", "<sub>", "<int:n>", "a.b"]


def gen_part(rng, counter):
    """Returns (rule_text, [(converter, varname)...])"""
    k = rng.random()
    if k < 0.35:
        return rng.choice(STATIC), []
    if k < 0.8:
        c = rng.choice(CONVS)
        name = f"v{counter[0]}"
        counter[0] += 1
        return (f"<{c}:{name}>" if c else f"<{name}>"), [c]
    # mixed part
    pieces, convs = [], []
    n = rng.randint(2, 3)
    last_var = False
    for _ in range(n):
        if not last_var and rng.random() < 0.6:
            c = rng.choice(CONVS)
            name = f"v{counter[0]}"
            counter[0] += 1
            pieces.append(f"<{c}:{name}>" if c else f"<{name}>")
            convs.append(c)
            last_var = True
        else:
            pieces.append(rng.choice(["-", ".", "f", "ab", "_", "+"]))
            last_var = False
    return "".join(pieces), convs


def gen_rule_spec(rng, idx, host_matching):
    counter = [0]
    nparts = rng.choice([0, 1, 1, 2, 2, 3, 4])
    parts = [gen_part(rng, counter) for _ in range(nparts)]
    text = "/" + "/".join(p[0] for p in parts)
    if nparts and rng.random() < 0.45:
        text += "/"
    if rng.random() < 0.05:
        text = text.replace("/", "//", 1)
    if rng.random() < 0.02:
        text += rng.choice(["<a", "/<int:>", "<1x>", "<unknownconv:q>", "<v0>"])
    kw = {"endpoint": f"e{idx}"}
    if rng.random() < 0.5:
        kw["methods"] = rng.sample(METHODS, rng.randint(1, 3))
    if rng.random() < 0.12:
        kw["websocket"] = True
        if "methods" in kw:
            kw["methods"] = [m for m in kw["methods"] if m in ("GET", "HEAD", "OPTIONS")] or ["GET"]
    r = rng.random()
    if r < 0.2:
        kw["strict_slashes"] = True
    elif r < 0.45:
        kw["strict_slashes"] = False
    r = rng.random()
    if r < 0.15:
        kw["merge_slashes"] = True
    elif r < 0.35:
        kw["merge_slashes"] = False
    dom = rng.choice(DOMAINS) if rng.random() < 0.3 else ""
    if host_matching:
        kw["host"] = dom or "example.org"
        if "<" in kw["host"]:
            kw["host"] = kw["host"].replace("v", "h")
    elif dom:
        kw["subdomain"] = dom
    if rng.random() < 0.1:
        kw["defaults"] = {"extra": rng.choice([1, "x"])}
    if rng.random() < 0.05:
        kw["alias"] = True
    if rng.random() < 0.05:
        kw["redirect_to"] = "/target/" + ("<v0>" if counter[0] else "")
    return text, kw


def gen_scenario(rng):
    host_matching = rng.random() < 0.15
    map_kw = {
        "strict_slashes": rng.random() < 0.7,
        "merge_slashes": rng.random() < 0.7,
        "redirect_defaults": rng.random() < 0.7,
        "host_matching": host_matching,
    }
    n = rng.randint(1, 9)
    specs = [gen_rule_spec(rng, i, host_matching) for i in range(n)]
    # duplicates with variations, sharing endpoint sometimes (for alias / defaults)
    for i in range(rng.randint(0, 3)):
        text, kw = rng.choice(specs)
        kw = dict(kw)
        if rng.random() < 0.5:
            kw["endpoint"] = f"d{i}"
        if rng.random() < 0.5:
            kw["methods"] = rng.sample(METHODS, rng.randint(1, 2))
            kw.pop("websocket", None)
        if rng.random() < 0.3:
            text = text.rstrip("/") + ("" if text.endswith("/") else "/") or "/"
        if rng.random() < 0.3:
            kw["defaults"] = {"extra": 1}
        if rng.random() < 0.2:
            kw["alias"] = True
        specs.append((text, kw))
    if rng.random() < 0.5:
        rng.shuffle(specs)
    return map_kw, specs


def fill(rng, text):
    """Produce a path from a rule text by substituting samples for variables."""
    import re

    def sub(m):
        inner = m.group(1)
        conv = inner.rpartition(":")[0]
        return rng.choice(SAMPLES.get(conv, ["a"]))

    return re.sub(r"<([^>]+)>", sub, text)


def gen_requests(rng, specs, n):
    out = []
    for _ in range(n):
        text, kw = rng.choice(specs)
        path = fill(rng, text)
        r = rng.random()
        if r < 0.15:
            path = path.rstrip("/")
        elif r < 0.3:
            path = path + "/"
        elif r < 0.4:
            path = path.replace("/", "//", 1)
        elif r < 0.5:
            segs = path.split("/")
            segs[rng.randrange(len(segs))] = rng.choice(STATIC + ["", "zz", "99"])
            path = "/".join(segs)
        elif r < 0.55:
            path = path + "/" + rng.choice(STATIC)
        elif r < 0.58:
            path = rng.choice(["", "/", "//", "a", "///a"])
        method = rng.choice(METHODS) if rng.random() < 0.8 else rng.choice(kw.get("methods", ["GET"]))
        websocket = rng.random() < 0.15 or (kw.get("websocket", False) and rng.random() < 0.7)
        dom = kw.get("subdomain") or kw.get("host") or ""
        dom = fill(rng, dom)
        if rng.random() < 0.15:
            dom = rng.choice(["", "api", "www", "zz", "5", "a.b"])
        out.append((dom, path, method, websocket))
    return out

gen = sys.modules[__name__]
sys.modules["gen"] = gen

# ---- driver ----
def outcome_adapter(adapter, path, method, websocket, return_rule=False):
    from werkzeug.routing import RequestRedirect
    from werkzeug.exceptions import MethodNotAllowed

    try:
        ep, args = adapter.match(path, method=method, websocket=websocket, return_rule=return_rule)
    except RequestRedirect as e:
        return ("redirect", type(e).__name__, e.new_url, e.code)
    except MethodNotAllowed as e:
        return ("405", list(e.valid_methods))
    except Exception as e:  # NotFound, WebsocketMismatch, anything else
        return ("exc", type(e).__name__, str(e))
    if return_rule:
        ep = (ep.rule, ep.endpoint, repr(ep))
    return ("ok", ep, [(k, type(v).__name__, repr(v)) for k, v in args.items()])


def outcome_raw(m, domain, path, method, websocket):
    from werkzeug.routing.exceptions import NoMatch, RequestPath, RequestAliasRedirect

    try:
        rule, result = m._matcher.match(domain, path, method, websocket)
    except NoMatch as e:
        return ("NoMatch", list(e.have_match_for), e.websocket_mismatch)
    except RequestPath as e:
        return ("RequestPath", e.path_info)
    except RequestAliasRedirect as e:
        return ("Alias", e.endpoint, sorted((k, repr(v)) for k, v in e.matched_values.items()))
    except Exception as e:
        return ("exc", type(e).__name__, str(e))
    return ("ok", rule.rule, rule.endpoint, [(k, type(v).__name__, repr(v)) for k, v in result.items()])


def dump_state(state):
    """Structural dump of the state machine (order-sensitive)."""
    return (
        [(r.rule, r.endpoint) for r in state.rules],
        [(k, dump_state(s)) for k, s in state.static.items()],
        [
            ((p.content, p.final, p.static, p.suffixed, tuple(p.weight)), dump_state(s))
            for p, s in state.dynamic
        ],
    )


def dump_rule(rule):
    return (
        [(p.content, p.final, p.static, p.suffixed, repr(p.weight)) for p in rule._parts],
        list(rule._trace),
        [(k, type(v).__name__, v.regex, v.weight) for k, v in rule._converters.items()],
        sorted(rule.arguments),
    )


def build_map(map_cls, rule_cls, map_kw, specs):
    """Returns (map, None) or (None, error outcome) when construction fails."""
    try:
        rules = [rule_cls(text, **kw) for text, kw in specs]
        return map_cls(rules, **map_kw), None
    except Exception as e:
        return None, ("build-exc", type(e).__name__, str(e))


def run(n_scenarios, seed, new_map_cls, new_rule_cls, old_map_cls, old_rule_cls, extra=None):
    import random
    import gen

    rng = random.Random(seed)
    n_cmp = 0
    n_ok = n_redirect = n_405 = n_404 = n_build_fail = 0
    for sc in range(n_scenarios):
        map_kw, specs = gen.gen_scenario(rng)
        a, ea = build_map(new_map_cls, new_rule_cls, map_kw, specs)
        b, eb = build_map(old_map_cls, old_rule_cls, map_kw, specs)
        if ea != eb:
            print("MISMATCH build", map_kw, specs, ea, eb)
            return False
        if a is None:
            n_build_fail += 1
            continue
        if rng.random() < 0.5:
            a.update(); b.update()
            if dump_state(a._matcher._root) != dump_state(b._matcher._root):
                print("MISMATCH state tree after update", map_kw, specs)
                return False
        else:
            # compare also the un-updated tree
            if dump_state(a._matcher._root) != dump_state(b._matcher._root):
                print("MISMATCH state tree before update", map_kw, specs)
                return False
        if [dump_rule(r) for r in a.iter_rules()] != [dump_rule(r) for r in b.iter_rules()]:
            print("MISMATCH rule parts", map_kw, specs)
            return False
        if extra is not None and not extra(a, b, map_kw, specs):
            return False
        reqs = gen.gen_requests(rng, specs, 25)
        for dom, path, method, ws in reqs:
            if map_kw["host_matching"]:
                bind = dict(server_name=dom or "example.org")
            else:
                bind = dict(server_name="example.org", subdomain=dom)
            ada = a.bind(**bind)
            adb = b.bind(**bind)
            rr = rng.random() < 0.2
            oa = outcome_adapter(ada, path, method, ws, rr)
            ob = outcome_adapter(adb, path, method, ws, rr)
            ra = outcome_raw(a, dom, path, method, ws)
            rb = outcome_raw(b, dom, path, method, ws)
            n_cmp += 1
            if oa != ob or ra != rb:
                print("MISMATCH", map_kw, specs, (dom, path, method, ws), oa, ob, ra, rb)
                return False
            k = oa[0]
            if k == "ok": n_ok += 1
            elif k == "redirect": n_redirect += 1
            elif k == "405": n_405 += 1
            else: n_404 += 1
        # add a rule after matching (exercises re-update) and compare again
        if rng.random() < 0.3:
            text, kw = gen.gen_rule_spec(rng, 99, map_kw["host_matching"])
            try:
                a.add(new_rule_cls(text, **kw)); ea = None
            except Exception as e:
                ea = (type(e).__name__, str(e))
            try:
                b.add(old_rule_cls(text, **kw)); eb = None
            except Exception as e:
                eb = (type(e).__name__, str(e))
            if ea != eb:
                print("MISMATCH late add", ea, eb); return False
            a.update(); b.update()
            if dump_state(a._matcher._root) != dump_state(b._matcher._root):
                print("MISMATCH state tree after late add", map_kw, specs, text, kw)
                return False
    print(f"scenarios={n_scenarios} build_fail={n_build_fail} requests={n_cmp} ok={n_ok} redirect={n_redirect} 405={n_405} other={n_404}")
    return True


def main():
    import werkzeug.routing  # noqa
    from werkzeug.routing import Map, Rule
    from werkzeug.routing import matcher as new_matcher

    assert new_matcher.__file__.startswith("/tmp/wt12-C03/"), new_matcher.__file__
    orig = load_original_matcher()

    class OrigMap(Map):
        def __init__(self, rules=None, **kw):
            # same as Map.__init__ but the matcher is the original one; it has to be
            # in place before the rules are added, so add them afterwards.
            super().__init__([], **kw)
            self._matcher = orig.StateMachineMatcher(kw.get("merge_slashes", True))
            for rulefactory in rules or ():
                self.add(rulefactory)

    class NewMap(Map):
        def __init__(self, rules=None, **kw):
            super().__init__([], **kw)
            assert type(self._matcher) is new_matcher.StateMachineMatcher
            for rulefactory in rules or ():
                self.add(rulefactory)

    ok = True
    for seed in (1, 2, 3, 4):
        ok = ok and run(400, seed, NewMap, Rule, OrigMap, Rule)
    print("PASS" if ok else "FAIL")
    return 0 if ok else 1


if __name__ == "__main__":
    sys.exit(main())
