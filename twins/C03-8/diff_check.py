"""Differential check for refactoring 2 (StateMachineMatcher.match / nested _match).

Run as: cd /tmp/wt9-C03 && PYTHONPATH=/tmp/wt9-C03/src /venv/bin/python /tmp/twin5-C03/2/diff_check.py

The ORIGINAL StateMachineMatcher.match is pasted below on a subclass. The same
random maps are built with the original and the worktree matcher, then raw
matcher outcomes (rule, converted values, NoMatch.have_match_for /
websocket_mismatch, RequestPath.path_info, RequestAliasRedirect) and
MapAdapter.match outcomes (endpoint, args, NotFound / MethodNotAllowed +
valid_methods / RequestRedirect + new_url / WebsocketMismatch) are compared.
"""
import re
import typing as t

from werkzeug.routing import Rule
from werkzeug.routing.converters import ValidationError
from werkzeug.routing.exceptions import NoMatch
from werkzeug.routing.exceptions import RequestAliasRedirect
from werkzeug.routing.exceptions import RequestPath
from werkzeug.routing.matcher import SlashRequired
from werkzeug.routing.matcher import State
from werkzeug.routing.matcher import StateMachineMatcher


class OrigMatcher(StateMachineMatcher):
    def match(
        self, domain: str, path: str, method: str, websocket: bool
    ) -> tuple[Rule, t.MutableMapping[str, t.Any]]:
        # To match to a rule we need to start at the root state and
        # try to follow the transitions until we find a match, or find
        # there is no transition to follow.

        have_match_for = set()
        websocket_mismatch = False

        def _match(
            state: State, parts: list[str], values: list[str]
        ) -> tuple[Rule, list[str]] | None:
            # This function is meant to be called recursively, and will attempt
            # to match the head part to the state's transitions.
            nonlocal have_match_for, websocket_mismatch

            # The base case is when all parts have been matched via
            # transitions. Hence if there is a rule with methods &
            # websocket that work return it and the dynamic values
            # extracted.
            if parts == []:
                for rule in state.rules:
                    if rule.methods is not None and method not in rule.methods:
                        have_match_for.update(rule.methods)
                    elif rule.websocket != websocket:
                        websocket_mismatch = True
                    else:
                        return rule, values

                # Test if there is a match with this path with a
                # trailing slash, if so raise an exception to report
                # that matching is possible with an additional slash
                if "" in state.static:
                    for rule in state.static[""].rules:
                        if websocket == rule.websocket and (
                            rule.methods is None or method in rule.methods
                        ):
                            if rule.strict_slashes:
                                raise SlashRequired()
                            else:
                                return rule, values
                        elif (
                            not rule.strict_slashes
                            and rule.methods is not None
                            and method not in rule.methods
                        ):
                            have_match_for.update(rule.methods)
                return None

            part = parts[0]
            # To match this part try the static transitions first
            if part in state.static:
                rv = _match(state.static[part], parts[1:], values)
                if rv is not None:
                    return rv
            # No match via the static transitions, so try the dynamic
            # ones.
            for test_part, new_state in state.dynamic:
                target = part
                remaining = parts[1:]
                # A final part indicates a transition that always
                # consumes the remaining parts i.e. transitions to a
                # final state.
                if test_part.final:
                    target = "/".join(parts)
                    remaining = []
                match = re.compile(test_part.content).match(target)
                if match is not None:
                    if test_part.suffixed:
                        # If a part_isolating=False part has a slash suffix, remove the
                        # suffix from the match and check for the slash redirect next.
                        suffix = match.groups()[-1]
                        if suffix == "/":
                            remaining = [""]

                    converter_groups = sorted(
                        match.groupdict().items(), key=lambda entry: entry[0]
                    )
                    groups = [
                        value
                        for key, value in converter_groups
                        if key[:11] == "__werkzeug_"
                    ]
                    rv = _match(new_state, remaining, values + groups)
                    if rv is not None:
                        return rv

            # If there is no match and the only part left is a
            # trailing slash ("") consider rules that aren't
            # strict-slashes as these should match if there is a final
            # slash part.
            if parts == [""]:
                for rule in state.rules:
                    if rule.strict_slashes:
                        continue
                    if rule.methods is not None and method not in rule.methods:
                        have_match_for.update(rule.methods)
                    elif rule.websocket != websocket:
                        websocket_mismatch = True
                    else:
                        return rule, values

            return None

        try:
            rv = _match(self._root, [domain, *path.split("/")], [])
        except SlashRequired:
            raise RequestPath(f"{path}/") from None

        if self.merge_slashes and rv is None:
            # Try to match again, but with slashes merged
            path = re.sub("/{2,}?", "/", path)
            try:
                rv = _match(self._root, [domain, *path.split("/")], [])
            except SlashRequired:
                raise RequestPath(f"{path}/") from None
            if rv is None or rv[0].merge_slashes is False:
                raise NoMatch(have_match_for, websocket_mismatch)
            else:
                raise RequestPath(f"{path}")
        elif rv is not None:
            rule, values = rv

            result = {}
            for name, value in zip(rule._converters.keys(), values):
                try:
                    value = rule._converters[name].to_python(value)
                except ValidationError:
                    raise NoMatch(have_match_for, websocket_mismatch) from None
                result[str(name)] = value
            if rule.defaults:
                result.update(rule.defaults)

            if rule.alias and rule.map.redirect_defaults:
                raise RequestAliasRedirect(result, rule.endpoint)

            return rule, result

        raise NoMatch(have_match_for, websocket_mismatch)

# ---------------------------------------------------------------------------
# Generic differential harness: builds the same random URL maps twice, once
# with the worktree classes ("new") and once with subclasses that carry the
# pasted ORIGINAL implementations ("old"), then compares compiled parts,
# matcher state trees, raw matcher results and MapAdapter.match outcomes.
# ---------------------------------------------------------------------------
import random
import sys

from werkzeug.exceptions import HTTPException
from werkzeug.routing import Map
from werkzeug.routing.exceptions import NoMatch as _NoMatch
from werkzeug.routing.exceptions import RequestAliasRedirect as _RAR
from werkzeug.routing.exceptions import RequestPath as _RP

LITERALS = ["a", "b", "foo", "bar", "x.y", "a-b", "1", "12", "1.5", "index", "A"]
CONVERTERS = [
    "<{n}>",
    "<string:{n}>",
    "<string(length=2):{n}>",
    "<string(minlength=2, maxlength=3):{n}>",
    "<int:{n}>",
    "<int(fixed_digits=2):{n}>",
    "<int(signed=True):{n}>",
    "<int(min=2, max=20):{n}>",
    "<float:{n}>",
    "<float(signed=True):{n}>",
    "<path:{n}>",
    "<any(a, b, foo):{n}>",
    "<any('x.y', \"12\"):{n}>",
    "<uuid:{n}>",
]
MALFORMED = ["/foo/<bar", "/a/<int:>", "/<nope:x>", "/a/<int(:x>/b", "/x/<1a>", "/<a>/<"]
VALUES = [
    "a", "b", "foo", "bar", "x.y", "a-b", "1", "12", "1.5", "-3", "-2.5", "007",
    "ab", "abc", "abcd", "", "A", "20", "21", "index", "a/b", "foo/1",
    "6ba7b810-9dad-11d1-80b4-00c04fd430c8", "x y", "%41", "é",
]
METHODS = [None, ["GET"], ["POST"], ["GET", "POST"], ["PUT"], ["DELETE", "GET"]]
REQ_METHODS = ["GET", "POST", "HEAD", "PUT", "DELETE", "OPTIONS"]


def gen_segment(rng, names):
    k = rng.random()
    if k < 0.35:
        return rng.choice(LITERALS)
    if k < 0.8:
        n = names.pop()
        return rng.choice(CONVERTERS).format(n=n)
    # mixed static/dynamic segment
    out = ""
    for _ in range(rng.randint(2, 3)):
        if rng.random() < 0.5 and names:
            out += rng.choice(CONVERTERS).format(n=names.pop())
        else:
            out += rng.choice(["pre", "-", ".", "v", "_x"])
    return out


def gen_rule_string(rng):
    if rng.random() < 0.02:
        return rng.choice(MALFORMED)
    names = ["p", "q", "r", "s", "u", "v", "w", "z"]
    rng.shuffle(names)
    nseg = rng.choice([0, 1, 1, 2, 2, 2, 3, 3, 4])
    segs = [gen_segment(rng, names) for _ in range(nseg)]
    s = "/" + "/".join(segs)
    if segs and rng.random() < 0.45:
        s += "/"
    if rng.random() < 0.08:
        s = s.replace("/", "//", 1)
    return s


def gen_rule_spec(rng, host_matching, idx):
    kw = {}
    kw["endpoint"] = f"ep{idx}"
    ws = rng.random() < 0.12
    m = rng.choice(METHODS)
    if ws:
        m = rng.choice([None, ["GET"], ["GET", "OPTIONS"]])
        kw["websocket"] = True
    if m is not None:
        kw["methods"] = m
    kw["strict_slashes"] = rng.choice([None, None, True, False])
    kw["merge_slashes"] = rng.choice([None, None, True, False])
    if rng.random() < 0.15:
        kw["defaults"] = {"dflt": rng.choice([1, "x"])}
    if rng.random() < 0.1:
        kw["alias"] = True
    if host_matching:
        r = rng.random()
        if r < 0.4:
            kw["host"] = rng.choice(
                ["example.org", "<h>.example.org", "api.example.org", "<path:h>"]
            )
    else:
        r = rng.random()
        if r < 0.3:
            kw["subdomain"] = rng.choice(["", "api", "<sub>", "<int:sub>", "a.<sub>"])
    return gen_rule_string(rng), kw


def gen_map_spec(rng):
    host_matching = rng.random() < 0.2
    mkw = {
        "strict_slashes": rng.random() < 0.7,
        "merge_slashes": rng.random() < 0.7,
        "redirect_defaults": rng.random() < 0.7,
        "host_matching": host_matching,
    }
    if not host_matching and rng.random() < 0.2:
        mkw["default_subdomain"] = rng.choice(["", "www"])
    rules = [gen_rule_spec(rng, host_matching, i) for i in range(rng.randint(1, 9))]
    return mkw, rules


def fill(rng, rule_string):
    import re as _re

    def sub(_m):
        spec = _m.group(0)
        if rng.random() < 0.1:
            return rng.choice(VALUES)
        if spec.startswith("<int(fixed"):
            return rng.choice(["12", "07", "12", "1"])
        if spec.startswith("<int(signed"):
            return rng.choice(["-3", "12", "1"])
        if spec.startswith("<int"):
            return rng.choice(["2", "12", "20", "21", "007"])
        if spec.startswith("<float(signed"):
            return rng.choice(["-2.5", "1.5"])
        if spec.startswith("<float"):
            return rng.choice(["1.5", "12.0", "1"])
        if spec.startswith("<path"):
            return rng.choice(["a/b", "foo/1", "a", "a/b/"])
        if spec.startswith("<any('x"):
            return rng.choice(["x.y", "12"])
        if spec.startswith("<any"):
            return rng.choice(["a", "b", "foo"])
        if spec.startswith("<uuid"):
            return "6ba7b810-9dad-11d1-80b4-00c04fd430c8"
        if spec.startswith("<string(length"):
            return rng.choice(["ab", "12"])
        if spec.startswith("<string(min"):
            return rng.choice(["ab", "abc", "abcd"])
        return rng.choice(["a", "foo", "12", "1.5", "x y", "index"])

    return _re.sub(r"<[^>]*>", sub, rule_string)


def gen_paths(rng, rules):
    paths = []
    for s, _ in rules:
        for _ in range(3):
            p = fill(rng, s)
            paths.append(p)
            k = rng.random()
            if k < 0.3:
                paths.append(p[:-1] if p.endswith("/") and len(p) > 1 else p + "/")
            elif k < 0.45:
                paths.append(p.replace("/", "//", 1))
            elif k < 0.55:
                paths.append(p + "//")
            elif k < 0.65:
                paths.append(p + "/" + rng.choice(VALUES))
    for _ in range(4):
        n = rng.randint(0, 4)
        p = "/" + "/".join(rng.choice(VALUES) for _ in range(n))
        if rng.random() < 0.4:
            p += "/"
        paths.append(p)
    return paths


def dump_state(state, rule_index):
    return (
        [rule_index[id(r)] for r in state.rules],
        [(k, dump_state(v, rule_index)) for k, v in state.static.items()],
        [
            (p.content, p.final, p.static, p.suffixed, tuple(p.weight),
             dump_state(s, rule_index))
            for p, s in state.dynamic
        ],
    )


def build(map_cls, rule_cls, matcher_cls, mkw, rules):
    """Returns ("ok", map) or ("err", exception type name, progress)."""
    m = map_cls(**mkw)
    if matcher_cls is not None:
        m._matcher = matcher_cls(m._matcher.merge_slashes)
    added = 0
    try:
        for s, kw in rules:
            m.add(rule_cls(s, **kw))
            added += 1
        m.update()
    except Exception as e:  # noqa: BLE001 - any construction error is compared
        return ("err", type(e).__name__, str(e), added), None
    return ("ok",), m


def describe_map(m):
    rule_index = {id(r): i for i, r in enumerate(m._rules)}
    per_rule = []
    for r in m._rules:
        per_rule.append(
            (
                r.endpoint,
                [(p.content, p.final, p.static, p.suffixed, tuple(p.weight)) for p in r._parts],
                list(r._trace),
                [(k, type(v).__name__, v.regex, v.weight) for k, v in r._converters.items()],
                sorted(r.arguments),
                r.strict_slashes,
                r.merge_slashes,
            )
        )
    return per_rule, dump_state(m._matcher._root, rule_index)


def raw_match(m, domain, path, method, websocket):
    rule_index = {id(r): i for i, r in enumerate(m._rules)}
    try:
        rule, values = m._matcher.match(domain, path, method, websocket)
    except _NoMatch as e:
        return ("NoMatch", sorted(e.have_match_for), e.websocket_mismatch)
    except _RP as e:
        return ("RequestPath", e.path_info)
    except _RAR as e:
        return ("Alias", sorted(e.matched_values.items(), key=repr), e.endpoint)
    except Exception as e:  # noqa: BLE001
        return ("EXC", type(e).__name__, str(e))
    return ("ok", rule_index[id(rule)], list(values.items()),
            [type(v).__name__ for v in values.values()])


def adapter_match(m, host_matching, server_name, subdomain, path, method, websocket):
    try:
        if host_matching:
            a = m.bind(server_name)
        else:
            a = m.bind("example.org", subdomain=subdomain)
        rv = a.match(path, method=method, websocket=websocket)
    except HTTPException as e:
        return (
            type(e).__name__,
            getattr(e, "new_url", None),
            sorted(getattr(e, "valid_methods", None) or []),
        )
    except Exception as e:  # noqa: BLE001
        return ("EXC", type(e).__name__, str(e))
    return ("ok", rv[0], list(rv[1].items()), [type(v).__name__ for v in rv[1].values()])


def run(old_classes, new_classes, n_maps=700, seed=20260311):
    """old_classes/new_classes: (Map, Rule, MatcherOrNone)."""
    rng = random.Random(seed)
    checked = 0
    outcomes = {}
    for i in range(n_maps):
        mkw, rules = gen_map_spec(rng)
        so, mo = build(*old_classes, mkw, rules)
        sn, mn = build(*new_classes, mkw, rules)
        if so != sn:
            print("FAIL build outcome differs", mkw, rules, so, sn)
            return False
        outcomes[so[0]] = outcomes.get(so[0], 0) + 1
        if mo is None:
            continue
        do, dn = describe_map(mo), describe_map(mn)
        if do != dn:
            print("FAIL compiled structures differ", mkw, rules)
            print(do)
            print(dn)
            return False
        host_matching = mkw["host_matching"]
        for path in gen_paths(rng, rules):
            method = rng.choice(REQ_METHODS[:3] if rng.random() < 0.7 else REQ_METHODS)
            websocket = rng.random() < 0.12
            if host_matching:
                domain = rng.choice(
                    ["example.org", "example.org", "api.example.org", "x.example.org", "a/b"]
                )
                sub = None
            else:
                pool = [mkw.get("default_subdomain", "")] * 10
                pool += [fill(rng, kw["subdomain"]) for _, kw in rules if "subdomain" in kw]
                pool += ["api", "7"]
                sub = rng.choice(pool)
                domain = sub
            ro = raw_match(mo, domain, path, method, websocket)
            rn = raw_match(mn, domain, path, method, websocket)
            if ro != rn:
                print("FAIL raw match differs", mkw, rules, domain, path, method, websocket)
                print(ro)
                print(rn)
                return False
            ao = adapter_match(mo, host_matching, domain, sub, path, method, websocket)
            an = adapter_match(mn, host_matching, domain, sub, path, method, websocket)
            if ao != an:
                print("FAIL adapter match differs", mkw, rules, domain, path, method, websocket)
                print(ao)
                print(an)
                return False
            key = ro[0] + "/" + ao[0]
            outcomes[key] = outcomes.get(key, 0) + 1
            checked += 1
    print("maps:", n_maps, "match comparisons:", checked)
    print("outcome distribution:", dict(sorted(outcomes.items())))
    return checked >= 3000


if __name__ == "__main__":
    assert "_select_rule" in [
        c.co_name for c in StateMachineMatcher.match.__code__.co_consts if hasattr(c, "co_name")
    ], "refactoring 2 is not applied in the imported worktree"
    ok = run((Map, Rule, OrigMatcher), (Map, Rule, None), n_maps=900)
    print("PASS" if ok else "FAIL")
    sys.exit(0 if ok else 1)
