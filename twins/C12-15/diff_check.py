"""Differential check for refactoring 3 (MapAdapter.match domain/path part,
MapAdapter.get_default_redirect, Rule.provides_defaults_for).

Run: cd /tmp/wt12-C12 && PYTHONPATH=/tmp/wt12-C12/src /venv/bin/python /tmp/twin7-C12/3/diff_check.py
"""
# --- shared input generator (pasted into every diff_check.py) -------------
import random
import re

from werkzeug.exceptions import HTTPException
from werkzeug.exceptions import MethodNotAllowed
from werkzeug.routing import Map
from werkzeug.routing import RequestRedirect
from werkzeug.routing import Rule
from werkzeug.routing import Submount
from werkzeug.routing import Subdomain

STATIC = ["a", "b", "foo", "bar.html", "x-y", "café", "a b", "%2f", ""]
DYNAMIC = [
    "<x>",
    "<int:n>",
    "<path:p>",
    "<string(length=2):s>",
    "<any(a,b,foo):c>",
    "<float:f>",
    "<int(signed=True):n>",
    "pre<x>",
    "<x>.html",
]
METHODS = [None, None, ["GET"], ["POST"], ["GET", "POST"], ["PUT", "DELETE"]]
TRI = [None, None, True, False]


def rand_template(rng):
    n = rng.randint(0, 4)
    segs = []
    used = set()
    for _ in range(n):
        if rng.random() < 0.55:
            segs.append(rng.choice(STATIC[:-1]))
        else:
            d = rng.choice(DYNAMIC)
            name = re.search(r"(\w+)>", d).group(1)
            if name in used:
                segs.append(rng.choice(STATIC[:-1]))
            else:
                used.add(name)
                segs.append(d)
    tpl = "/" + "/".join(segs)
    if segs and rng.random() < 0.45:
        tpl += "/"
    if rng.random() < 0.05:
        tpl = tpl.replace("/", "//", 1)
    return tpl


def rand_rule_spec(rng, endpoints):
    tpl = rand_template(rng)
    kw = {
        "endpoint": rng.choice(endpoints),
        "methods": rng.choice(METHODS),
        "strict_slashes": rng.choice(TRI),
        "merge_slashes": rng.choice(TRI),
    }
    r = rng.random()
    if r < 0.12:
        kw["alias"] = True
    elif r < 0.18:
        kw["build_only"] = True
    elif r < 0.24:
        kw["websocket"] = True
        if kw["methods"] is not None:
            kw["methods"] = ["GET"]
    elif r < 0.30:
        kw["redirect_to"] = rng.choice(["/target/<x>", "target", "//other.example/t"])
    if rng.random() < 0.3:
        kw["defaults"] = rng.choice(
            [{"n": 1}, {"x": "a"}, {"p": "a/b"}, {"n": 1, "x": "b"}, {"extra": 5}]
        )
    if rng.random() < 0.2:
        kw["subdomain"] = rng.choice(["", "www", "<sub>", "api"])
    return ("rule", tpl, kw)


CURATED = [
    # defaults canonicalisation
    [
        ("rule", "/page/", {"endpoint": "page", "defaults": {"n": 1}}),
        ("rule", "/page/<int:n>", {"endpoint": "page"}),
    ],
    [
        ("rule", "/page", {"endpoint": "page", "defaults": {"n": 1}}),
        ("rule", "/page/<int:n>/", {"endpoint": "page"}),
    ],
    [
        ("rule", "/p/<x>/", {"endpoint": "p", "defaults": {"n": 1}}),
        ("rule", "/p/<x>/<int:n>/", {"endpoint": "p"}),
        ("rule", "/p/<x>/<int:n>/edit", {"endpoint": "p", "methods": ["POST"]}),
    ],
    # several default-providing rules for one endpoint, some unsuitable
    [
        ("rule", "/list/", {"endpoint": "list", "defaults": {"n": 1}}),
        ("rule", "/list/two", {"endpoint": "list", "defaults": {"n": 2}}),
        ("rule", "/list/<int:n>", {"endpoint": "list"}),
    ],
    [
        ("rule", "/list/", {"endpoint": "list", "defaults": {"n": 1},
                            "methods": ["POST"]}),
        ("rule", "/list/first", {"endpoint": "list", "defaults": {"n": 1}}),
        ("rule", "/list/<int:n>/", {"endpoint": "list"}),
    ],
    # alias canonicalisation
    [
        ("rule", "/old/<x>", {"endpoint": "e", "alias": True}),
        ("rule", "/new/<x>", {"endpoint": "e"}),
    ],
    [
        ("rule", "/old/<x>/", {"endpoint": "e", "alias": True}),
        ("rule", "/new/<path:x>/", {"endpoint": "e"}),
    ],
    [
        ("rule", "/users/", {"endpoint": "users", "defaults": {"n": 1}}),
        ("rule", "/users/page/<int:n>", {"endpoint": "users"}),
        ("rule", "/users/index.html", {"endpoint": "users", "defaults": {"n": 1},
                                       "alias": True}),
    ],
    # lone alias -> assertion/build error
    [("rule", "/lonely/<x>", {"endpoint": "lonely", "alias": True})],
    # slashes
    [
        ("rule", "/", {"endpoint": "index"}),
        ("rule", "/a/", {"endpoint": "a"}),
        ("rule", "/a/b", {"endpoint": "ab"}),
        ("rule", "/<path:p>/", {"endpoint": "catch"}),
    ],
    [
        ("rule", "/a/", {"endpoint": "a", "methods": ["POST"]}),
        ("rule", "/a", {"endpoint": "a2", "methods": ["GET"], "strict_slashes": False}),
    ],
    [
        ("rule", "/m/<x>/", {"endpoint": "m", "merge_slashes": False}),
        ("rule", "/m2/<x>/", {"endpoint": "m2", "merge_slashes": True}),
        ("rule", "/ws/", {"endpoint": "ws", "websocket": True}),
    ],
    [
        ("rule", "/<x>/", {"endpoint": "sub", "subdomain": "<sub>"}),
        ("rule", "/a/", {"endpoint": "www", "subdomain": "www",
                         "defaults": {"x": "a"}}),
        ("rule", "/b/<x>/", {"endpoint": "www", "subdomain": "www"}),
    ],
]

SERVER_NAMES = ["example.com", "localhost:5000", "exämple.org", "[::1]:80"]
SCRIPT_NAMES = [None, "/", "/app", "/app/", "app", "//evil.example", "/a/b/", ""]
SUBDOMAINS = [None, None, "", "www", "api", "a.b"]
SCHEMES = ["http", "https", "ws", "wss", "", "HTTP"]
QUERY = [
    None,
    None,
    "",
    "a=1&b=2",
    "next=//evil.example/",
    "q=a%20b",
    {},
    {"q": "x y"},
    {"a": ["1", "2"], "b": "é"},
    {"n": 3, "none": None},
]
REQ_METHODS = [None, "GET", "get", "POST", "PUT", "HEAD", "OPTIONS", "--"]
PATH_SEGS = [
    "a", "b", "foo", "bar.html", "x-y", "café", "a b", "%2f", "1", "2", "-1",
    "01", "1.5", "ab", "page", "p", "old", "new", "users", "index.html", "m", "m2",
    "ws", "evil.example", "lonely", "list", "two", "first", "edit", "prea", "c.html", "\\evil.example",
    "@evil.example", ":80", "..", ".", "?", "#", "a;b", "", "",
]


def rand_path(rng):
    r = rng.random()
    if r < 0.03:
        return None
    if r < 0.06:
        return ""
    n = rng.randint(0, 5)
    segs = [rng.choice(PATH_SEGS) for _ in range(n)]
    lead = rng.choice(["/", "/", "/", "", "//", "///", "/\\"])
    trail = rng.choice(["", "", "/", "//"])
    return lead + "/".join(segs) + trail


FILL = {
    "x": ["a", "b", "foo", "a b", "café", "evil.example"],
    "n": ["1", "2", "01", "-1", "x"],
    "p": ["a/b", "a", "a//b", "evil.example/a"],
    "s": ["ab", "abc"],
    "c": ["a", "foo", "zzz"],
    "f": ["1.5", "1"],
    "sub": ["www"],
    "host": ["example.com"],
}


def path_from_spec(rng, spec):
    """A request path derived from one of the rules, with slash mutations."""
    if not spec:
        return rand_path(rng)
    tpl = rng.choice(spec)[1]
    path = re.sub(
        r"<[^>]*?(\w+)>", lambda m: rng.choice(FILL.get(m.group(1), ["a"])), tpl
    )
    for _ in range(rng.randint(0, 2)):
        r = rng.random()
        if r < 0.3:
            path = path.rstrip("/")
        elif r < 0.5:
            path = path + "/"
        elif r < 0.7 and "/" in path:
            idx = rng.choice([i for i, ch in enumerate(path) if ch == "/"])
            path = path[:idx] + "/" * rng.randint(2, 3) + path[idx + 1 :]
        elif r < 0.8:
            path = path.lstrip("/")
        elif r < 0.9:
            path = "//" + path.lstrip("/")
    return path


def build_map(spec, map_kw):
    rules = []
    for item in spec:
        kind, tpl, kw = item
        rules.append(Rule(tpl, **{k: (dict(v) if isinstance(v, dict) else v)
                                  for k, v in kw.items()}))
    return Map(rules, **map_kw)


def rand_case(rng):
    spec = []
    if rng.random() < 0.7:
        for group in rng.sample(CURATED, rng.randint(1, 3)):
            for kind, tpl, kw in group:
                kw = dict(kw)
                if rng.random() < 0.15:
                    kw["strict_slashes"] = rng.choice(TRI)
                if rng.random() < 0.15:
                    kw["merge_slashes"] = rng.choice(TRI)
                spec.append((kind, tpl, kw))
    endpoints = ["e1", "e2", "e3", "page", "e"]
    for _ in range(rng.randint(0, 6)):
        spec.append(rand_rule_spec(rng, endpoints))
    rng.shuffle(spec)
    map_kw = {
        "strict_slashes": rng.random() < 0.8,
        "merge_slashes": rng.random() < 0.8,
        "redirect_defaults": rng.random() < 0.85,
    }
    if rng.random() < 0.15:
        map_kw["host_matching"] = True
        spec = [
            (k, t_, {**{a: b for a, b in kw.items() if a != "subdomain"},
                     "host": rng.choice(["example.com", "<host>", "www.example.com",
                                         "localhost:5000"])})
            for k, t_, kw in spec
        ]
    elif rng.random() < 0.2:
        map_kw["default_subdomain"] = rng.choice(["www", "api"])
    bind_kw = {
        "server_name": rng.choice(SERVER_NAMES),
        "script_name": rng.choice(SCRIPT_NAMES),
        "subdomain": None if map_kw.get("host_matching") else rng.choice(SUBDOMAINS),
        "url_scheme": rng.choice(SCHEMES),
        "default_method": rng.choice(["GET", "GET", "POST"]),
        "path_info": rng.choice([None, None, "/a", "a/", "//page"]),
        "query_args": rng.choice(QUERY),
    }
    calls = []
    for _ in range(rng.randint(4, 10)):
        calls.append(
            {
                "path_info": (
                    path_from_spec(rng, spec) if rng.random() < 0.7 else rand_path(rng)
                ),
                "method": rng.choice(REQ_METHODS),
                "return_rule": rng.random() < 0.3,
                "query_args": rng.choice(QUERY),
                "websocket": rng.choice([None, None, None, True, False]),
            }
        )
    return spec, map_kw, bind_kw, calls


def freeze(v):
    if isinstance(v, dict):
        return ("dict", tuple((k, freeze(x)) for k, x in v.items()))
    if isinstance(v, (list, tuple)):
        return (type(v).__name__, tuple(freeze(x) for x in v))
    if isinstance(v, (set, frozenset)):
        return ("set", tuple(sorted(map(repr, v))))
    if isinstance(v, Rule):
        # not repr(): it contains the class name (Rule vs OrigRule)
        return ("Rule", v.rule, repr(v.endpoint), freeze(v.methods), freeze(v.defaults))
    return (type(v).__name__, repr(v))


def outcome(fn, *args, **kwargs):
    """Run fn and describe result or raised exception in a comparable form."""
    try:
        rv = fn(*args, **kwargs)
    except RequestRedirect as e:
        return ("RequestRedirect", e.new_url, e.code)
    except MethodNotAllowed as e:
        return ("MethodNotAllowed", tuple(e.valid_methods))
    except HTTPException as e:
        return (type(e).__name__, e.code)
    except BaseException as e:  # noqa: B036
        attrs = {
            name: getattr(e, name)
            for name in (
                "path_info",
                "have_match_for",
                "websocket_mismatch",
                "matched_values",
                "endpoint",
            )
            if hasattr(e, name)
        }
        return (type(e).__name__, repr(getattr(e, "args", None)), freeze(attrs))
    return ("ok", freeze(rv))
# --- end shared input generator --------------------------------------------


# --- ORIGINAL implementation (copied verbatim from the unmodified tree) -----
import typing as t
from urllib.parse import quote
from urllib.parse import urljoin

from werkzeug.exceptions import NotFound
from werkzeug.routing import map as map_mod
from werkzeug.routing import rules as rules_mod
from werkzeug.routing.exceptions import NoMatch
from werkzeug.routing.exceptions import RequestAliasRedirect
from werkzeug.routing.exceptions import RequestPath
from werkzeug.routing.exceptions import WebsocketMismatch
from werkzeug.routing.map import MapAdapter
from werkzeug.routing.rules import _simple_rule_re


class OrigRule(Rule):
    def provides_defaults_for(self, rule: Rule) -> bool:
        """Check if this rule has defaults for a given rule.

        :internal:
        """
        return bool(
            not self.build_only
            and self.defaults
            and self.endpoint == rule.endpoint
            and self != rule
            and self.arguments == rule.arguments
        )


class OrigAdapter(MapAdapter):
    def match(
        self,
        path_info: str | None = None,
        method: str | None = None,
        return_rule: bool = False,
        query_args: t.Mapping[str, t.Any] | str | None = None,
        websocket: bool | None = None,
    ) -> tuple[t.Any | Rule, t.Mapping[str, t.Any]]:
        """The usage is simple: you just pass the match method the current
        path info as well as the method (which defaults to `GET`).  The
        following things can then happen:

        - you receive a `NotFound` exception that indicates that no URL is
          matching.  A `NotFound` exception is also a WSGI application you
          can call to get a default page not found page (happens to be the
          same object as `werkzeug.exceptions.NotFound`)

        - you receive a `MethodNotAllowed` exception that indicates that there
          is a match for this URL but not for the current request method.
          This is useful for RESTful applications.

        - you receive a `RequestRedirect` exception with a `new_url`
          attribute.  This exception is used to notify you about a request
          Werkzeug requests from your WSGI application.  This is for example the
          case if you request ``/foo`` although the correct URL is ``/foo/``
          You can use the `RequestRedirect` instance as response-like object
          similar to all other subclasses of `HTTPException`.

        - you receive a ``WebsocketMismatch`` exception if the only
          match is a WebSocket rule but the bind is an HTTP request, or
          if the match is an HTTP rule but the bind is a WebSocket
          request.

        - you get a tuple in the form ``(endpoint, arguments)`` if there is
          a match (unless `return_rule` is True, in which case you get a tuple
          in the form ``(rule, arguments)``)

        If the path info is not passed to the match method the default path
        info of the map is used (defaults to the root URL if not defined
        explicitly).

        All of the exceptions raised are subclasses of `HTTPException` so they
        can be used as WSGI responses. They will all render generic error or
        redirect pages.

        Here is a small example for matching:

        >>> m = Map([
        ...     Rule('/', endpoint='index'),
        ...     Rule('/downloads/', endpoint='downloads/index'),
        ...     Rule('/downloads/<int:id>', endpoint='downloads/show')
        ... ])
        >>> urls = m.bind("example.com", "/")
        >>> urls.match("/", "GET")
        ('index', {})
        >>> urls.match("/downloads/42")
        ('downloads/show', {'id': 42})

        And here is what happens on redirect and missing URLs:

        >>> urls.match("/downloads")
        Traceback (most recent call last):
          ...
        RequestRedirect: http://example.com/downloads/
        >>> urls.match("/missing")
        Traceback (most recent call last):
          ...
        NotFound: 404 Not Found

        :param path_info: the path info to use for matching.  Overrides the
                          path info specified on binding.
        :param method: the HTTP method used for matching.  Overrides the
                       method specified on binding.
        :param return_rule: return the rule that matched instead of just the
                            endpoint (defaults to `False`).
        :param query_args: optional query arguments that are used for
                           automatic redirects as string or dictionary.  It's
                           currently not possible to use the query arguments
                           for URL matching.
        :param websocket: Match WebSocket instead of HTTP requests. A
            websocket request has a ``ws`` or ``wss``
            :attr:`url_scheme`. This overrides that detection.

        .. versionadded:: 1.0
            Added ``websocket``.

        .. versionchanged:: 0.8
            ``query_args`` can be a string.

        .. versionadded:: 0.7
            Added ``query_args``.

        .. versionadded:: 0.6
            Added ``return_rule``.
        """
        self.map.update()
        if path_info is None:
            path_info = self.path_info
        if query_args is None:
            query_args = self.query_args or {}
        method = (method or self.default_method).upper()

        if websocket is None:
            websocket = self.websocket

        domain_part = self.server_name

        if not self.map.host_matching and self.subdomain is not None:
            domain_part = self.subdomain

        path_part = f"/{path_info.lstrip('/')}" if path_info else ""

        try:
            result = self.map._matcher.match(domain_part, path_part, method, websocket)
        except RequestPath as e:
            # safe = https://url.spec.whatwg.org/#url-path-segment-string
            new_path = quote(e.path_info, safe="!$&'()*+,/:;=@")
            raise RequestRedirect(
                self.make_redirect_url(new_path, query_args)
            ) from None
        except RequestAliasRedirect as e:
            raise RequestRedirect(
                self.make_alias_redirect_url(
                    f"{domain_part}|{path_part}",
                    e.endpoint,
                    e.matched_values,
                    method,
                    query_args,
                )
            ) from None
        except NoMatch as e:
            if e.have_match_for:
                raise MethodNotAllowed(valid_methods=list(e.have_match_for)) from None

            if e.websocket_mismatch:
                raise WebsocketMismatch() from None

            raise NotFound() from None
        else:
            rule, rv = result

            if self.map.redirect_defaults:
                redirect_url = self.get_default_redirect(rule, method, rv, query_args)
                if redirect_url is not None:
                    raise RequestRedirect(redirect_url)

            if rule.redirect_to is not None:
                if isinstance(rule.redirect_to, str):

                    def _handle_match(match: t.Match[str]) -> str:
                        value = rv[match.group(1)]
                        return rule._converters[match.group(1)].to_url(value)

                    redirect_url = _simple_rule_re.sub(_handle_match, rule.redirect_to)
                else:
                    redirect_url = rule.redirect_to(self, **rv)

                if self.subdomain:
                    netloc = f"{self.subdomain}.{self.server_name}"
                else:
                    netloc = self.server_name

                raise RequestRedirect(
                    urljoin(
                        f"{self.url_scheme or 'http'}://{netloc}{self.script_name}",
                        redirect_url,
                    )
                )

            if return_rule:
                return rule, rv
            else:
                return rule.endpoint, rv

    def get_default_redirect(
        self,
        rule: Rule,
        method: str,
        values: t.MutableMapping[str, t.Any],
        query_args: t.Mapping[str, t.Any] | str,
    ) -> str | None:
        """A helper that returns the URL to redirect to if it finds one.
        This is used for default redirecting only.

        :internal:
        """
        assert self.map.redirect_defaults
        for r in self.map._rules_by_endpoint[rule.endpoint]:
            # every rule that comes after this one, including ourself
            # has a lower priority for the defaults.  We order the ones
            # with the highest priority up for building.
            if r is rule:
                break
            if r.provides_defaults_for(rule) and r.suitable_for(values, method):
                values.update(r.defaults)  # type: ignore
                domain_part, path = r.build(values)  # type: ignore
                return self.make_redirect_url(path, query_args, domain_part=domain_part)
        return None


# --- end ORIGINAL -----------------------------------------------------------

assert map_mod.__file__.startswith("/tmp/wt12-C12/"), map_mod.__file__
assert rules_mod.__file__.startswith("/tmp/wt12-C12/"), rules_mod.__file__


def main():
    rng = random.Random(12032)
    n_maps = n_match = n_pdf = n_gdr = 0
    kinds = {}
    pdf_true = 0
    for _ in range(1500):
        spec, map_kw, bind_kw, calls = rand_case(rng)
        if rng.random() < 0.3:
            # empty defaults dicts are falsy but not None
            spec = [
                (k, tpl, {**kw, "defaults": {}} if rng.random() < 0.2 else kw)
                for k, tpl, kw in spec
            ]
        try:
            new_map = build_map(spec, map_kw)
            old_map = build_map(spec, map_kw)
        except Exception:
            continue
        for rule in old_map._rules:
            assert type(rule) is Rule
            rule.__class__ = OrigRule
        a = outcome(new_map.bind, **bind_kw)
        b = outcome(old_map.bind, **bind_kw)
        if a[0] != "ok":
            assert a == b
            continue
        n_maps += 1
        new_ad = new_map.bind(**bind_kw)
        old_ad = old_map.bind(**bind_kw)
        assert type(old_ad) is MapAdapter
        old_ad.__class__ = OrigAdapter
        if rng.random() < 0.1:
            new_ad.subdomain = old_ad.subdomain = rng.choice([None, "", "www"])
        new_map.update()
        old_map.update()
        assert len(new_map._rules) == len(old_map._rules)
        assert [r.rule for r in new_map._rules] == [r.rule for r in old_map._rules]

        # Rule.provides_defaults_for on every ordered pair of rules
        for i, (nr1, or1) in enumerate(zip(new_map._rules, old_map._rules)):
            for j, (nr2, or2) in enumerate(zip(new_map._rules, old_map._rules)):
                a = outcome(nr1.provides_defaults_for, nr2)
                b = outcome(or1.provides_defaults_for, or2)
                assert a == b, ("provides_defaults_for", spec, i, j, a, b)
                assert a[0] == "ok" and a[1][0] == "bool", a
                pdf_true += a[1][1] == "True"
                n_pdf += 1

        # MapAdapter.get_default_redirect called directly
        if new_map.redirect_defaults:
            for _ in range(4):
                idx = rng.randrange(len(new_map._rules)) if new_map._rules else None
                if idx is None:
                    break
                values = rng.choice(
                    [{}, {"n": 1}, {"n": 2}, {"x": "a"}, {"x": "a", "n": 1},
                     {"p": "a/b"}, {"n": 1, "x": "b"}, {"extra": 5}, {"n": "1"}]
                )
                method = rng.choice(["GET", "POST", "PUT", "--"])
                q = rng.choice([x for x in QUERY if x is not None])
                v1, v2 = dict(values), dict(values)
                a = outcome(new_ad.get_default_redirect, new_map._rules[idx], method, v1, q)
                b = outcome(old_ad.get_default_redirect, old_map._rules[idx], method, v2, q)
                assert a == b, ("get_default_redirect", spec, idx, values, method, q, a, b)
                assert freeze(v1) == freeze(v2), ("values mutated differently", v1, v2)
                n_gdr += 1

        # full matching (leading-slash normalisation, slash / merged slash /
        # defaults / alias redirects, redirect_to, 404/405)
        for call in calls:
            a = outcome(new_ad.match, **call)
            b = outcome(old_ad.match, **call)
            assert a == b, ("match", spec, map_kw, bind_kw, call, a, b)
            kinds[a[0]] = kinds.get(a[0], 0) + 1
            n_match += 1
        for path in ("//evil.example", "//evil.example/", "///a//", "\\\\evil.example",
                     "a", "", None, "/"):
            a = outcome(new_ad.match, path, query_args="next=//evil.example")
            b = outcome(old_ad.match, path, query_args="next=//evil.example")
            assert a == b, ("match/fixed", spec, map_kw, bind_kw, path, a, b)
            kinds[a[0]] = kinds.get(a[0], 0) + 1
            n_match += 1
    print(
        f"maps={n_maps} provides_defaults_for_calls={n_pdf} (true: {pdf_true}) "
        f"get_default_redirect_calls={n_gdr} match_calls={n_match}"
    )
    print("match outcome kinds:", dict(sorted(kinds.items())))
    assert n_pdf + n_gdr + n_match > 5000
    assert pdf_true > 100 and kinds.get("RequestRedirect", 0) > 300
    print("PASS")


if __name__ == "__main__":
    main()
