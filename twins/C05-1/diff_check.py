"""Differential check for refactoring 1 (Response.get_wsgi_headers).

Run with the refactored worktree on the path:
    cd /tmp/wt3-C05 && PYTHONPATH=/tmp/wt3-C05/src /venv/bin/python /tmp/twin-C05/1/diff_check.py

ORIGINAL get_wsgi_headers is pasted below (orig_get_wsgi_headers) and compared
against werkzeug.wrappers.response.Response.get_wsgi_headers from the worktree
on randomly generated responses / environs.  Prints PASS only if every output
(wsgi header list, or raised exception type + message) is identical.
"""

from __future__ import annotations

import random
import sys
from http import HTTPStatus
from urllib.parse import urljoin

from werkzeug.datastructures import Headers
from werkzeug.http import remove_entity_headers
from werkzeug.urls import iri_to_uri
from werkzeug.wrappers import Response
from werkzeug.wsgi import get_current_url


# --------------------------------------------------------------------------
# ORIGINAL implementation (verbatim copy from the unmodified tree)
# --------------------------------------------------------------------------
def orig_get_wsgi_headers(self, environ):
    headers = Headers(self.headers)
    location = None
    content_location = None
    content_length = None
    status = self.status_code

    # iterate over the headers to find all values in one go.  Because
    # get_wsgi_headers is used each response that gives us a tiny
    # speedup.
    for key, value in headers:
        ikey = key.lower()
        if ikey == "location":
            location = value
        elif ikey == "content-location":
            content_location = value
        elif ikey == "content-length":
            content_length = value

    if location is not None:
        location = iri_to_uri(location)

        if self.autocorrect_location_header:
            # Make the location header an absolute URL.
            current_url = get_current_url(environ, strip_querystring=True)
            current_url = iri_to_uri(current_url)
            location = urljoin(current_url, location)

        headers["Location"] = location

    # make sure the content location is a URL
    if content_location is not None:
        headers["Content-Location"] = iri_to_uri(content_location)

    if 100 <= status < 200 or status == 204:
        headers.remove("Content-Length")
    elif status == 304:
        remove_entity_headers(headers)

    if (
        self.automatically_set_content_length
        and self.is_sequence
        and content_length is None
        and status not in (204, 304)
        and not (100 <= status < 200)
    ):
        content_length = sum(len(x) for x in self.iter_encoded())
        headers["Content-Length"] = str(content_length)

    return headers


# --------------------------------------------------------------------------
# input generation
# --------------------------------------------------------------------------
STATUSES = (
    [100, 101, 102, 103, 150, 199, 200, 201, 202, 203, 204, 205, 206, 299]
    + [300, 301, 302, 303, 304, 305, 307, 308, 400, 404, 416, 418, 500, 503, 599]
    + [0, 1, 99, 600, 999, -1, -204]
    + ["200 OK", "204 NO CONTENT", "304", "101 Switching", "wat", "204", "199 x"]
    + [HTTPStatus.NO_CONTENT, HTTPStatus.NOT_MODIFIED, HTTPStatus.CONTINUE, True]
)

LOCATIONS = [
    "/foo",
    "foo/bar?x=1",
    "http://example.com/a b",
    "http://ümlaut.example/☃?q=ä",
    "//other.example/x",
    "",
    "?only=query",
    "#frag",
    "../up",
    "https://example.org:8443/p%20q",
    "/café",
    "mailto:a@b",
]

HEADER_POOL = [
    ("Content-Type", "text/plain; charset=utf-8"),
    ("content-type", "application/json"),
    ("Content-Length", "7"),
    ("content-length", "0"),
    ("CONTENT-LENGTH", "9999"),
    ("Content-Encoding", "gzip"),
    ("Content-Language", "en"),
    ("Content-MD5", "abc"),
    ("Content-Range", "bytes 0-1/2"),
    ("Last-Modified", "Wed, 21 Oct 2015 07:28:00 GMT"),
    ("Expires", "Wed, 21 Oct 2015 07:28:00 GMT"),
    ("Allow", "GET, HEAD"),
    ("ETag", '"abc"'),
    ("X-Custom", "1"),
    ("Set-Cookie", "a=b"),
    ("Set-Cookie", "c=d"),
    ("Cache-Control", "no-cache"),
    ("Vary", "Accept"),
]


def gen_case(rng: random.Random):
    """Return a description from which identical Responses/environs are built."""
    body_kind = rng.choice(
        ["none", "str", "bytes", "list_b", "list_s", "tuple", "empty_list", "gen", "iter", "mixed"]
    )
    chunks = [
        rng.choice([b"", b"a", b"hello", b"\xff\x00", b"x" * rng.randint(0, 50)])
        for _ in range(rng.randint(0, 4))
    ]
    schunks = [
        rng.choice(["", "a", "héllo", "☃", "y" * rng.randint(0, 50)])
        for _ in range(rng.randint(0, 4))
    ]
    hdrs = rng.sample(HEADER_POOL, rng.randint(0, 6))
    if rng.random() < 0.6:
        hdrs.append(
            (rng.choice(["Location", "location", "LOCATION"]), rng.choice(LOCATIONS))
        )
    if rng.random() < 0.3:
        hdrs.append(
            (rng.choice(["Content-Location", "content-location"]), rng.choice(LOCATIONS))
        )
    if rng.random() < 0.1:
        # duplicate location / content-length: last one wins in the scan
        hdrs.append(("Location", rng.choice(LOCATIONS)))
        hdrs.append(("Content-Length", str(rng.randint(0, 100))))
    rng.shuffle(hdrs)

    environ = {
        "REQUEST_METHOD": rng.choice(["GET", "HEAD", "POST"]),
        "wsgi.url_scheme": rng.choice(["http", "https"]),
        "SERVER_NAME": rng.choice(["localhost", "example.com", "ü.example"]),
        "SERVER_PORT": rng.choice(["80", "443", "8080"]),
        "SCRIPT_NAME": rng.choice(["", "/app", "/a b"]),
        "PATH_INFO": rng.choice(["", "/", "/x/y", "/caf\xc3\xa9"]),
        "QUERY_STRING": rng.choice(["", "a=b"]),
    }
    if rng.random() < 0.5:
        environ["HTTP_HOST"] = rng.choice(
            ["example.org", "example.org:8000", "bad host", "[::1]:5000"]
        )
    if rng.random() < 0.03:
        # missing keys -> get_current_url raises KeyError when autocorrecting
        del environ["wsgi.url_scheme"]

    return {
        "body_kind": body_kind,
        "chunks": chunks,
        "schunks": schunks,
        "headers": hdrs,
        "status": rng.choice(STATUSES),
        "autocorrect": rng.random() < 0.5,
        "auto_cl": rng.random() < 0.8,
        "environ": environ,
        "force_code": rng.choice([None, None, None, 204, 304, 100, 199, 200]),
    }


def build(case):
    kind = case["body_kind"]
    chunks, schunks = case["chunks"], case["schunks"]
    if kind == "none":
        body = None
    elif kind == "str":
        body = "".join(schunks)
    elif kind == "bytes":
        body = b"".join(chunks)
    elif kind == "list_b":
        body = list(chunks)
    elif kind == "list_s":
        body = list(schunks)
    elif kind == "tuple":
        body = tuple(chunks)
    elif kind == "empty_list":
        body = []
    elif kind == "gen":
        body = (c for c in chunks)
    elif kind == "iter":
        body = iter(chunks)
    else:
        body = [x for pair in zip(chunks, schunks) for x in pair]
    resp = Response(body, status=case["status"], headers=list(case["headers"]))
    resp.autocorrect_location_header = case["autocorrect"]
    resp.automatically_set_content_length = case["auto_cl"]
    if case["force_code"] is not None:
        # bypass _clean_status so odd code/str combos are covered too
        resp._status_code = case["force_code"]
    return resp


def run(fn, case):
    resp = build(case)
    environ = dict(case["environ"])
    try:
        out = fn(resp, environ)
    except Exception as e:  # noqa: BLE001
        return ("EXC", type(e).__name__, str(e))
    return (
        "OK",
        type(out).__name__,
        out.to_wsgi_list(),
        # the response's own headers / body must be left alone identically
        resp.headers.to_wsgi_list(),
        repr(resp.response) if resp.is_sequence else type(resp.response).__name__,
        environ == case["environ"],
    )


def main() -> int:
    import werkzeug

    assert werkzeug.__file__.startswith("/tmp/wt3-C05/src/"), werkzeug.__file__
    rng = random.Random(0xC05_1)
    n = 12000
    bad = 0
    outcomes = {"OK": 0, "EXC": 0}
    with_cl = 0
    for i in range(n):
        case = gen_case(rng)
        a = run(orig_get_wsgi_headers, case)
        b = run(Response.get_wsgi_headers, case)
        outcomes[a[0]] += 1
        if a[0] == "OK" and any(k.lower() == "content-length" for k, _ in a[2]):
            with_cl += 1
        if a != b:
            bad += 1
            if bad <= 5:
                print("MISMATCH", i, case, a, b, sep="\n  ")
    print(f"cases={n} outcomes={outcomes} with_content_length={with_cl} mismatches={bad}")
    if bad == 0 and outcomes["OK"] > 1000 and outcomes["EXC"] > 0 and with_cl > 500:
        print("PASS")
        return 0
    print("FAIL")
    return 1


if __name__ == "__main__":
    sys.exit(main())
