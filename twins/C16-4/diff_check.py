"""Differential check for twin4-C16/1 (HeaderSet refactoring).

Compares the refactored werkzeug.datastructures.structures.HeaderSet from the
worktree against a pasted copy of the ORIGINAL class, both standalone (random
mutation sequences with a recording on_update callback) and through the
Response.vary / allow / content_language live views.
"""
from __future__ import annotations

import collections.abc as cabc
import random
import typing as t

import werkzeug.datastructures as ds
import werkzeug.datastructures.structures as structures
from werkzeug import http
from werkzeug.sansio.response import Response

ORIG_SRC = r'''class HeaderSet(cabc.MutableSet[str]):
    """Similar to the :class:`ETags` class this implements a set-like structure.
    Unlike :class:`ETags` this is case insensitive and used for vary, allow, and
    content-language headers.

    If not constructed using the :func:`parse_set_header` function the
    instantiation works like this:

    >>> hs = HeaderSet(['foo', 'bar', 'baz'])
    >>> hs
    HeaderSet(['foo', 'bar', 'baz'])
    """

    def __init__(
        self,
        headers: cabc.Iterable[str] | None = None,
        on_update: cabc.Callable[[te.Self], None] | None = None,
    ) -> None:
        self._headers = list(headers or ())
        self._set = {x.lower() for x in self._headers}
        self.on_update = on_update

    def add(self, header: str) -> None:
        """Add a new header to the set."""
        self.update((header,))

    def remove(self: te.Self, header: str) -> None:
        """Remove a header from the set.  This raises an :exc:`KeyError` if the
        header is not in the set.

        .. versionchanged:: 0.5
            In older versions a :exc:`IndexError` was raised instead of a
            :exc:`KeyError` if the object was missing.

        :param header: the header to be removed.
        """
        key = header.lower()
        if key not in self._set:
            raise KeyError(header)
        self._set.remove(key)
        for idx, item in enumerate(self._headers):
            if item.lower() == key:
                del self._headers[idx]
                break
        if self.on_update is not None:
            self.on_update(self)

    def update(self: te.Self, iterable: cabc.Iterable[str]) -> None:
        """Add all the headers from the iterable to the set.

        :param iterable: updates the set with the items from the iterable.
        """
        inserted_any = False
        for header in iterable:
            key = header.lower()
            if key not in self._set:
                self._headers.append(header)
                self._set.add(key)
                inserted_any = True
        if inserted_any and self.on_update is not None:
            self.on_update(self)

    def discard(self, header: str) -> None:
        """Like :meth:`remove` but ignores errors.

        :param header: the header to be discarded.
        """
        try:
            self.remove(header)
        except KeyError:
            pass

    def find(self, header: str) -> int:
        """Return the index of the header in the set or return -1 if not found.

        :param header: the header to be looked up.
        """
        header = header.lower()
        for idx, item in enumerate(self._headers):
            if item.lower() == header:
                return idx
        return -1

    def index(self, header: str) -> int:
        """Return the index of the header in the set or raise an
        :exc:`IndexError`.

        :param header: the header to be looked up.
        """
        rv = self.find(header)
        if rv < 0:
            raise IndexError(header)
        return rv

    def clear(self: te.Self) -> None:
        """Clear the set."""
        self._set.clear()
        self._headers.clear()

        if self.on_update is not None:
            self.on_update(self)

    def as_set(self, preserve_casing: bool = False) -> set[str]:
        """Return the set as real python set type.  When calling this, all
        the items are converted to lowercase and the ordering is lost.

        :param preserve_casing: if set to `True` the items in the set returned
                                will have the original case like in the
                                :class:`HeaderSet`, otherwise they will
                                be lowercase.
        """
        if preserve_casing:
            return set(self._headers)
        return set(self._set)

    def to_header(self) -> str:
        """Convert the header set into an HTTP header string."""
        return ", ".join(map(http.quote_header_value, self._headers))

    def __getitem__(self, idx: t.SupportsIndex) -> str:
        return self._headers[idx]

    def __delitem__(self: te.Self, idx: t.SupportsIndex) -> None:
        rv = self._headers.pop(idx)
        self._set.remove(rv.lower())
        if self.on_update is not None:
            self.on_update(self)

    def __setitem__(self: te.Self, idx: t.SupportsIndex, value: str) -> None:
        old = self._headers[idx]
        self._set.remove(old.lower())
        self._headers[idx] = value
        self._set.add(value.lower())
        if self.on_update is not None:
            self.on_update(self)

    def __contains__(self, header: str) -> bool:  # type: ignore[override]
        return header.lower() in self._set

    def __len__(self) -> int:
        return len(self._set)

    def __iter__(self) -> cabc.Iterator[str]:
        return iter(self._headers)

    def __bool__(self) -> bool:
        return bool(self._set)

    def __str__(self) -> str:
        return self.to_header()

    def __repr__(self) -> str:
        return f"{type(self).__name__}({self._headers!r})"
'''

_ns: dict[str, t.Any] = {"cabc": cabc, "t": t, "http": http, "__name__": "orig"}
exec("from __future__ import annotations\n" + ORIG_SRC, _ns)
OrigHeaderSet = _ns["HeaderSet"]
NewHeaderSet = structures.HeaderSet
assert OrigHeaderSet is not NewHeaderSet
assert "_notify" in vars(NewHeaderSet), "refactoring not applied?"

TOKENS = [
    "a", "A", "b", "B", "foo", "Foo", "FOO", "bar", "accept-encoding",
    "Accept-Encoding", "cookie", "x y", 'q"uote', "", " ", "GET", "get", "POST",
    "en", "EN-us", "ß", "SS", "ss", "İ", "i̇", "ǅ", "*", "a,b",
]
BAD = [None, 1, b"x", ("a",)]


class Boom(Exception):
    pass


def rand_token(rng):
    if rng.random() < 0.04:
        return rng.choice(BAD)
    return rng.choice(TOKENS)


def gen_ops(rng, n):
    ops = []
    for _ in range(n):
        k = rng.choice(
            ["add", "remove", "discard", "update", "update_gen", "clear", "del",
             "set", "find", "index", "contains", "len", "iter", "bool", "str",
             "as_set", "getitem", "ior", "isub", "pop", "set_cb", "repr", "eq"]
        )
        if k in ("add", "remove", "discard", "find", "index", "contains"):
            ops.append((k, rand_token(rng)))
        elif k in ("update", "update_gen", "ior", "isub"):
            ops.append((k, [rand_token(rng) for _ in range(rng.randrange(0, 5))]))
        elif k in ("del", "getitem"):
            ops.append((k, rng.choice([0, 1, 2, -1, -2, 5, -7, "x", slice(0, 1)])))
        elif k == "set":
            ops.append((k, rng.choice([0, 1, 2, -1, 5, -7]), rand_token(rng)))
        elif k == "as_set":
            ops.append((k, rng.random() < 0.5))
        elif k == "set_cb":
            ops.append((k, rng.choice(["none", "rec", "raise", "reentrant"])))
        else:
            ops.append((k,))
    return ops


def snapshot(hs):
    return (list(hs._headers), sorted(hs._set, key=repr))


def run_standalone(cls, initial, cb_mode, ops):
    log = []

    def rec(s):
        log.append(("cb", snapshot(s)))

    def raising(s):
        log.append(("cb-raise", snapshot(s)))
        raise Boom()

    def reentrant(s):
        log.append(("cb-re", snapshot(s)))
        if len(s._headers) < 4:
            s.on_update = rec
            try:
                s.add("re-%d" % len(s._headers))
            finally:
                s.on_update = reentrant

    cbs = {"none": None, "rec": rec, "raise": raising, "reentrant": reentrant}
    try:
        hs = cls(initial, cbs[cb_mode])
    except Exception as e:  # noqa: BLE001
        return [("ctor-exc", type(e).__name__)]
    trace = []
    for op in ops:
        k = op[0]
        try:
            if k == "add":
                r = hs.add(op[1])
            elif k == "remove":
                r = hs.remove(op[1])
            elif k == "discard":
                r = hs.discard(op[1])
            elif k == "update":
                r = hs.update(op[1])
            elif k == "update_gen":
                r = hs.update(x for x in op[1])
            elif k == "clear":
                r = hs.clear()
            elif k == "del":
                del hs[op[1]]
                r = None
            elif k == "set":
                hs[op[1]] = op[2]
                r = None
            elif k == "find":
                r = hs.find(op[1])
            elif k == "index":
                r = hs.index(op[1])
            elif k == "contains":
                r = op[1] in hs
            elif k == "len":
                r = len(hs)
            elif k == "iter":
                r = list(hs)
            elif k == "bool":
                r = bool(hs)
            elif k == "str":
                r = (str(hs), hs.to_header())
            elif k == "repr":
                r = repr(hs)
            elif k == "as_set":
                r = sorted(hs.as_set(op[1]))
            elif k == "getitem":
                r = hs[op[1]]
            elif k == "ior":
                hs |= set(x for x in op[1] if isinstance(x, str))
                r = None
            elif k == "isub":
                hs -= set(x for x in op[1] if isinstance(x, str))
                r = None
            elif k == "pop":
                r = hs.pop()
            elif k == "set_cb":
                hs.on_update = cbs[op[1]]
                r = None
            elif k == "eq":
                r = hs == set(hs._headers)
            else:
                raise AssertionError(k)
            trace.append((k, "ok", repr(r), snapshot(hs), len(log)))
        except Exception as e:  # noqa: BLE001
            trace.append((k, "exc", type(e).__name__, repr(e.args), snapshot(hs), len(log)))
    return trace, log


HEADER_VALUES = [
    None, "", "a", "a, b", "A, a, B", "foo, Foo, bar", '"x y", z', "GET, POST, get",
    "en, de, EN", ",", " , a", 'a, "b, c"', "*",
]
PROPS = [("vary", "Vary"), ("allow", "Allow"), ("content_language", "Content-Language")]


def run_response(cls, prop, hname, initial, ops, rng_seed):
    """Drive the live view through a Response, with ds.HeaderSet patched to cls."""
    saved = ds.HeaderSet
    ds.HeaderSet = cls
    try:
        resp = Response()
        if initial is not None:
            resp.headers[hname] = initial
        trace = []
        view = getattr(resp, prop)
        assert type(view) is cls, (type(view), cls)
        rng = random.Random(rng_seed)
        for op in ops:
            k = op[0]
            try:
                if k == "add":
                    view.add(op[1])
                elif k == "remove":
                    view.remove(op[1])
                elif k == "discard":
                    view.discard(op[1])
                elif k in ("update", "update_gen"):
                    view.update(op[1])
                elif k == "clear":
                    view.clear()
                elif k == "del":
                    del view[op[1]]
                elif k == "set":
                    view[op[1]] = op[2]
                elif k == "ior":
                    view |= set(x for x in op[1] if isinstance(x, str))
                elif k == "isub":
                    view -= set(x for x in op[1] if isinstance(x, str))
                elif k == "pop":
                    view.pop()
                elif k == "set_cb":
                    # re-read the property / reassign through the setter instead
                    c = rng.randrange(4)
                    if c == 0:
                        view = getattr(resp, prop)
                    elif c == 1:
                        setattr(resp, prop, rng.choice(HEADER_VALUES))
                        view = getattr(resp, prop)
                    elif c == 2:
                        setattr(resp, prop, [t_ for t_ in TOKENS[: rng.randrange(4)]])
                    else:
                        resp.headers.pop(hname, None)
                else:
                    continue
                status = ("ok",)
            except Exception as e:  # noqa: BLE001
                status = ("exc", type(e).__name__, repr(e.args))
            reread = getattr(resp, prop)
            trace.append(
                (k, status, resp.headers.get(hname), resp.headers.getlist(hname),
                 snapshot(view), snapshot(reread), view.to_header())
            )
        return trace
    finally:
        ds.HeaderSet = saved


def main():
    rng = random.Random(0xC16_1)
    n = 0
    mism = 0
    for i in range(6000):
        initial = rng.choice(
            [None, [], ["a"], ["a", "A"], ["foo", "bar", "Foo"], ("x", "Y", "z"),
             [rand_token(rng) for _ in range(rng.randrange(0, 5))]]
        )
        if isinstance(initial, list):
            initial_a, initial_b = list(initial), list(initial)
        else:
            initial_a = initial_b = initial
        cb_mode = rng.choice(["none", "rec", "rec", "raise", "reentrant"])
        ops = gen_ops(rng, rng.randrange(1, 25))
        a = run_standalone(OrigHeaderSet, initial_a, cb_mode, ops)
        b = run_standalone(NewHeaderSet, initial_b, cb_mode, ops)
        n += 1
        if a != b:
            mism += 1
            if mism < 5:
                print("MISMATCH standalone", initial, cb_mode, ops, a, b, sep="\n  ")
    for i in range(4000):
        prop, hname = rng.choice(PROPS)
        initial = rng.choice(HEADER_VALUES)
        ops = gen_ops(rng, rng.randrange(1, 20))
        seed = rng.randrange(1 << 30)
        a = run_response(OrigHeaderSet, prop, hname, initial, ops, seed)
        b = run_response(NewHeaderSet, prop, hname, initial, ops, seed)
        n += 1
        if a != b:
            mism += 1
            if mism < 5:
                print("MISMATCH response", prop, initial, ops, a, b, sep="\n  ")
    print(f"cases={n} mismatches={mism}")
    print("PASS" if mism == 0 else "FAIL")


if __name__ == "__main__":
    main()
