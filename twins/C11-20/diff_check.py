"""Differential check for refactoring 2 (quote_etag / unquote_etag).

Run: cd /tmp/wt14-C11 && PYTHONPATH=/tmp/wt14-C11/src /venv/bin/python /tmp/twin9-C11/2/diff_check.py
"""
import itertools
import random

from werkzeug import http
from werkzeug.datastructures import ETags
from werkzeug.wrappers import Response


def orig_quote_etag(etag, weak=False):
    if '"' in etag:
        raise ValueError("invalid etag")
    etag = f'"{etag}"'
    if weak:
        etag = f"W/{etag}"
    return etag


def orig_unquote_etag(etag):
    if not etag:
        return None, None
    etag = etag.strip()
    weak = False
    if etag.startswith(("W/", "w/")):
        weak = True
        etag = etag[2:]
    if etag[:1] == etag[-1:] == '"':
        etag = etag[1:-1]
    return etag, weak


def call(fn, *args, **kwargs):
    try:
        rv = fn(*args, **kwargs)
    except Exception as e:  # noqa: BLE001
        return ("EXC", type(e).__name__, str(e))
    # keep exact types visible (True vs 1, str vs None)
    return repr(rv), tuple(type(x).__name__ for x in rv) if isinstance(rv, tuple) else type(rv).__name__


ALPHA = 'Ww/"ab*, \t\n-é0'
SPECIAL = [
    None, "", '"', '""', '"""', 'W/', 'w/', 'W/"', 'w/"', 'W/""', 'W/"a"', 'w/"a"', '"a"', "a",
    ' "a" ', ' W/"a" ', 'W/ "a"', 'W /"a"', '"a', 'a"', 'W/"a', 'W/a"', "W", "/", 'W/W/"a"',
    '\t"a"\n', '"a" "b"', '"a","b"', "*", 'W/*', '"*"', "\x00", ' ', '  ', '\n', 'wW/"a"',
    'W/w/"a"', '"W/a"', b"", b'"a"', b'W/"a"', 0, 1, [], ["a"], ("W/",), 3.5, True, False,
]
WEAK_VALUES = [False, True, 0, 1, None, "", "x", [], [0]]


def gen(rng):
    k = rng.random()
    if k < 0.5:
        return "".join(rng.choice(ALPHA) for _ in range(rng.randint(0, 8)))
    pre = rng.choice(["", " ", "\t", "  "])
    w = rng.choice(["", "W/", "w/", "W/ ", "W"])
    q1 = rng.choice(['"', "", '""'])
    q2 = rng.choice(['"', "", '""'])
    body = "".join(rng.choice('ab*,W/ -') for _ in range(rng.randint(0, 5)))
    post = rng.choice(["", " ", "\n", "\r\n "])
    return pre + w + q1 + body + q2 + post


def main():
    rng = random.Random(1102)
    new_quote, new_unquote = http.quote_etag, http.unquote_etag
    bad = 0
    n = 0

    values = list(SPECIAL) + [gen(rng) for _ in range(20000)]
    # exhaustive short strings over a small alphabet
    for ln in range(0, 5):
        for tup in itertools.product('Ww/"a ', repeat=ln):
            values.append("".join(tup))

    for v in values:
        n += 1
        a, b = call(orig_unquote_etag, v), call(new_unquote, v)
        if a != b:
            bad += 1
            if bad < 10:
                print("MISMATCH unquote", repr(v), a, b)
        for weak in WEAK_VALUES if n % 7 == 0 or n < 200 else (False, True):
            a, b = call(orig_quote_etag, v, weak), call(new_quote, v, weak)
            if a != b:
                bad += 1
                if bad < 10:
                    print("MISMATCH quote", repr(v), weak, a, b)
        a, b = call(orig_quote_etag, v), call(new_quote, v)
        if a != b:
            bad += 1
            print("MISMATCH quote default", repr(v), a, b)

    # users of the two functions, with the originals swapped in
    import werkzeug.datastructures.etag  # noqa: F401
    import werkzeug.sansio.response as sresp

    def users(v, weak):
        out = []
        r = Response()
        out.append(call(lambda: (r.set_etag(v, weak), r.headers.get("ETag"), r.get_etag())[1:]))
        r2 = Response()
        r2.headers["ETag"] = v if isinstance(v, str) and "\n" not in v and "\r" not in v else "x"
        out.append(call(r2.get_etag))
        out.append(call(ETags(["a", "*", ""], ["b", "W/"]).contains_raw, v))
        out.append(call(lambda: repr(http.parse_if_range_header(v))))
        return out

    m = 0
    for v in values[: 6000]:
        if not isinstance(v, str):
            continue
        weak = rng.choice([False, True])
        res_new = users(v, weak)
        saved = (http.quote_etag, http.unquote_etag, sresp.quote_etag, sresp.unquote_etag)
        http.quote_etag = sresp.quote_etag = orig_quote_etag
        http.unquote_etag = sresp.unquote_etag = orig_unquote_etag
        try:
            res_old = users(v, weak)
        finally:
            http.quote_etag, http.unquote_etag, sresp.quote_etag, sresp.unquote_etag = saved
        m += 1
        if res_new != res_old:
            bad += 1
            if bad < 10:
                print("MISMATCH users", repr(v), res_old, res_new)

    print(f"checked {n} values directly, {m} through callers")
    print("PASS" if bad == 0 else f"FAIL ({bad})")


if __name__ == "__main__":
    main()
