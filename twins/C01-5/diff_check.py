"""Differential check for refactoring 2 (C01): MultipartDecoder.next_event.

Run: cd /tmp/wt6-C01 && PYTHONPATH=/tmp/wt6-C01/src /venv/bin/python /tmp/twin4-C01/2/diff_check.py
"""
from __future__ import annotations

import random
import typing as t

from werkzeug.exceptions import RequestEntityTooLarge
from werkzeug.http import parse_options_header
from werkzeug.sansio import multipart as M
from werkzeug.sansio.multipart import BLANK_LINE_RE
from werkzeug.sansio.multipart import Data
from werkzeug.sansio.multipart import Epilogue
from werkzeug.sansio.multipart import Event
from werkzeug.sansio.multipart import Field
from werkzeug.sansio.multipart import File
from werkzeug.sansio.multipart import MultipartDecoder
from werkzeug.sansio.multipart import NEED_DATA
from werkzeug.sansio.multipart import NeedData
from werkzeug.sansio.multipart import Preamble
from werkzeug.sansio.multipart import SEARCH_EXTRA_LENGTH
from werkzeug.sansio.multipart import State


class OrigDecoder(MultipartDecoder):
    """MultipartDecoder with the ORIGINAL next_event pasted in verbatim."""

    def next_event(self) -> Event:
        event: Event = NEED_DATA

        if self.state == State.PREAMBLE:
            match = self.preamble_re.search(self.buffer, self._search_position)
            if match is not None:
                if match.group(1).startswith(b"--"):
                    self.state = State.EPILOGUE
                else:
                    self.state = State.PART
                data = bytes(self.buffer[: match.start()])
                del self.buffer[: match.end()]
                event = Preamble(data=data)
                self._search_position = 0
            else:
                # Update the search start position to be equal to the
                # current buffer length (already searched) minus a
                # safe buffer for part of the search target.
                self._search_position = max(
                    0, len(self.buffer) - len(self.boundary) - SEARCH_EXTRA_LENGTH
                )

        elif self.state == State.PART:
            match = BLANK_LINE_RE.search(self.buffer, self._search_position)
            if match is not None:
                headers = self._parse_headers(self.buffer[: match.start()])
                # The final header ends with a single CRLF, however a
                # blank line indicates the start of the
                # body. Therefore the end is after the first CRLF.
                headers_end = (match.start() + match.end()) // 2
                del self.buffer[:headers_end]

                if "content-disposition" not in headers:
                    raise ValueError("Missing Content-Disposition header")

                disposition, extra = parse_options_header(
                    headers["content-disposition"]
                )
                name = t.cast(str, extra.get("name"))
                filename = extra.get("filename")
                if filename is not None:
                    event = File(
                        filename=filename,
                        headers=headers,
                        name=name,
                    )
                else:
                    event = Field(
                        headers=headers,
                        name=name,
                    )
                self.state = State.DATA_START
                self._search_position = 0
                self._parts_decoded += 1

                if self.max_parts is not None and self._parts_decoded > self.max_parts:
                    raise RequestEntityTooLarge()
            else:
                # Update the search start position to be equal to the
                # current buffer length (already searched) minus a
                # safe buffer for part of the search target.
                self._search_position = max(0, len(self.buffer) - SEARCH_EXTRA_LENGTH)

        elif self.state == State.DATA_START:
            data, del_index, more_data = self._parse_data(self.buffer, start=True)
            del self.buffer[:del_index]
            event = Data(data=data, more_data=more_data)
            if more_data:
                self.state = State.DATA

        elif self.state == State.DATA:
            data, del_index, more_data = self._parse_data(self.buffer, start=False)
            del self.buffer[:del_index]
            if data or not more_data:
                event = Data(data=data, more_data=more_data)

        elif self.state == State.EPILOGUE and self.complete:
            event = Epilogue(data=bytes(self.buffer))
            del self.buffer[:]
            self.state = State.COMPLETE

        if self.complete and isinstance(event, NeedData):
            raise ValueError(f"Invalid form-data cannot parse beyond {self.state}")

        return event


assert "next_event" in MultipartDecoder.__dict__ and "next_event" in OrigDecoder.__dict__

BOUNDARIES = [b"b", b"bound", b"----WebKitFormBoundaryABC", b"a-b", b"--x--", b"\r\nq", b"x.y(z)"]
NLS = [b"\r\n", b"\n", b"\r"]


def rand_fragment(rng: random.Random, boundary: bytes) -> bytes:
    kind = rng.randrange(12)
    if kind == 0:
        return rng.choice(NLS)
    if kind == 1:
        return b"--"
    if kind == 2:
        return boundary
    if kind == 3:
        return b"--" + boundary
    if kind == 4:
        cut = rng.randrange(len(boundary) + 3)
        return (b"--" + boundary)[:cut]
    if kind == 5:
        return rng.choice(NLS) + b"--" + boundary + rng.choice([b"", b"--", b" ", b"\t ", b"-- "])
    if kind == 6:
        return rng.choice([b" ", b"\t", b"-", b"\r", b"\n"])
    if kind == 7:
        return bytes(rng.randrange(256) for _ in range(rng.randrange(1, 8)))
    if kind == 8:
        return b"x" * rng.randrange(1, 40)
    if kind == 9:
        return rng.choice([b"\r\r", b"\n\n", b"\r\n\r\n", b"\n\r"])
    if kind == 10:
        return b'Content-Disposition: form-data; name="n%d"' % rng.randrange(5)
    return b'Content-Disposition: form-data; name="f"; filename="a.txt"' + rng.choice(NLS) + b"Content-Type: text/plain"


def rand_payload(rng: random.Random, boundary: bytes) -> bytes:
    return b"".join(rand_fragment(rng, boundary) for _ in range(rng.randrange(0, 8)))


def rand_body(rng: random.Random, boundary: bytes) -> bytes:
    """Mostly well-formed multipart body with adversarial payloads."""
    nl = rng.choice(NLS) if rng.random() < 0.8 else None
    out = bytearray()
    if rng.random() < 0.3:
        out += rand_payload(rng, b"zz")
    for i in range(rng.randrange(0, 4)):
        n = nl or rng.choice(NLS)
        out += (n if (i or rng.random() < 0.5) else b"") + b"--" + boundary
        out += rng.choice([b"", b"", b" ", b"\t"]) + n
        if rng.random() < 0.5:
            out += b'Content-Disposition: form-data; name="f%d"' % i
        else:
            out += b'Content-Disposition: form-data; name="u%d"; filename="x%d.bin"' % (i, i)
            if rng.random() < 0.5:
                out += n + b"Content-Type: text/plain;\r\n charset=utf-8"
        if rng.random() < 0.05:
            out = out.replace(b"Content-Disposition", b"X-Other")
        out += n + n
        out += rand_payload(rng, boundary)
    n = nl or rng.choice(NLS)
    if rng.random() < 0.9:
        out += n + b"--" + boundary + b"--" + rng.choice([b"", n, b" " + n])
    if rng.random() < 0.3:
        out += rand_payload(rng, boundary)
    return bytes(out)


def rand_chunks(rng: random.Random, body: bytes) -> list[bytes]:
    mode = rng.randrange(4)
    if mode == 0:
        return [body]
    if mode == 1:
        return [body[i : i + 1] for i in range(len(body))]
    size = rng.choice([1, 2, 3, 5, 7, 16, 64])
    chunks = []
    i = 0
    while i < len(body):
        step = size if mode == 2 else rng.randrange(0, size + 1)
        chunks.append(body[i : i + step])
        i += step
    return chunks


def run_decoder(cls, boundary, chunks, limits):
    trace: list[t.Any] = []
    try:
        dec = cls(boundary, **limits)
    except Exception as e:  # pragma: no cover
        return [("init-exc", type(e))]
    for chunk in [*chunks, None]:
        try:
            dec.receive_data(chunk)
            n = 0
            while True:
                ev = dec.next_event()
                if isinstance(ev, M.NeedData):
                    trace.append(("need", dec.state, bytes(dec.buffer), dec._search_position))
                    break
                trace.append((type(ev).__name__, repr(ev), dec.state, bytes(dec.buffer), dec._search_position))
                if isinstance(ev, M.Epilogue):
                    break
                n += 1
                if n > 10000:
                    trace.append("runaway")
                    break
        except Exception as e:
            trace.append(("exc", type(e), str(e), dec.state, bytes(dec.buffer)))
            break
    return trace


def direct_next_event(cls, boundary, buf, state, complete, pos, limits):
    dec = cls(boundary, **limits)
    dec.buffer = bytearray(buf)
    dec.state = state
    dec.complete = complete
    dec._search_position = pos
    out = []
    for _ in range(3):
        try:
            ev = dec.next_event()
            out.append(("ok", type(ev).__name__, repr(ev), dec.state, bytes(dec.buffer), dec._search_position, dec._parts_decoded))
        except Exception as e:
            out.append(("exc", type(e), str(e), dec.state, bytes(dec.buffer), dec._search_position, dec._parts_decoded))
            break
    return out


def main() -> None:
    rng = random.Random(20260101)
    total = 0
    mismatches = 0

    # 1. single next_event() calls from forced states on random buffers
    for _ in range(15000):
        boundary = rng.choice(BOUNDARIES)
        buf = rand_payload(rng, boundary) if rng.random() < 0.6 else rand_body(rng, boundary)
        state = rng.choice(list(State))
        if state == State.DATA_START and rng.random() < 0.8:
            buf = rng.choice(NLS) + buf
        complete = rng.random() < 0.3
        pos = rng.randrange(0, len(buf) + 3) if rng.random() < 0.5 else 0
        limits = {"max_parts": rng.randrange(0, 2)} if rng.random() < 0.1 else {}
        total += 1
        a = direct_next_event(MultipartDecoder, boundary, buf, state, complete, pos, limits)
        b = direct_next_event(OrigDecoder, boundary, buf, state, complete, pos, limits)
        if a != b:
            mismatches += 1
            print("next_event mismatch", boundary, buf, state, complete, pos, a, b)

    # 2. full decoder traces under identical chunkings
    for _ in range(12000):
        boundary = rng.choice(BOUNDARIES)
        body = rand_body(rng, boundary) if rng.random() < 0.8 else rand_payload(rng, boundary)
        chunks = rand_chunks(rng, body)
        limits = {}
        if rng.random() < 0.15:
            limits["max_form_memory_size"] = rng.randrange(1, 200)
        if rng.random() < 0.15:
            limits["max_parts"] = rng.randrange(0, 3)
        total += 1
        a = run_decoder(MultipartDecoder, boundary, chunks, limits)
        b = run_decoder(OrigDecoder, boundary, chunks, limits)
        if a != b:
            mismatches += 1
            print("trace mismatch", boundary, body, chunks)

    print(f"cases={total} mismatches={mismatches}")
    print("PASS" if mismatches == 0 else "FAIL")


if __name__ == "__main__":
    main()
