"""Differential check for refactoring 1 (get_input_stream / sansio get_content_length).

Run: cd /tmp/wt12-C09 && PYTHONPATH=/tmp/wt12-C09/src /venv/bin/python /tmp/twin7-C09/1/diff_check.py
"""
from __future__ import annotations

import io
import random
import typing as t

from werkzeug import wsgi as new_wsgi
from werkzeug._internal import _plain_int
from werkzeug.exceptions import RequestEntityTooLarge
from werkzeug.sansio import utils as new_sansio
from werkzeug.wsgi import LimitedStream

assert new_wsgi.__file__.startswith("/tmp/wt12-C09/src/"), new_wsgi.__file__


# ---------------------------------------------------------------- ORIGINAL copies
def orig_sansio_get_content_length(
    http_content_length=None,
    http_transfer_encoding=None,
):
    if http_transfer_encoding == "chunked" or http_content_length is None:
        return None

    try:
        return max(0, _plain_int(http_content_length))
    except ValueError:
        return 0


def orig_get_content_length(environ):
    return orig_sansio_get_content_length(
        http_content_length=environ.get("CONTENT_LENGTH"),
        http_transfer_encoding=environ.get("HTTP_TRANSFER_ENCODING"),
    )


def orig_get_input_stream(environ, safe_fallback=True, max_content_length=None):
    stream = t.cast(t.IO[bytes], environ["wsgi.input"])
    content_length = orig_get_content_length(environ)

    if content_length is not None and max_content_length is not None:
        if content_length > max_content_length:
            raise RequestEntityTooLarge()

    if "wsgi.input_terminated" in environ:
        if max_content_length is not None:
            return t.cast(
                t.IO[bytes], LimitedStream(stream, max_content_length, is_max=True)
            )

        return stream

    if content_length is None:
        return io.BytesIO() if safe_fallback else stream

    return t.cast(t.IO[bytes], LimitedStream(stream, content_length))


# ---------------------------------------------------------------- helpers
class Fragmenting(io.RawIOBase):
    """Underlying stream returning at most ``frag`` bytes per read, counting consumption."""

    def __init__(self, data: bytes, frag: int, with_readinto: bool) -> None:
        self.data = data
        self.pos = 0
        self.frag = frag
        self.with_readinto = with_readinto

    def readable(self):
        return True

    def read(self, size=-1):
        if size is None or size < 0:
            size = len(self.data) - self.pos
        size = min(size, self.frag)
        out = self.data[self.pos : self.pos + size]
        self.pos += len(out)
        return out

    def __getattribute__(self, name):
        if name == "readinto" and not object.__getattribute__(self, "with_readinto"):
            raise AttributeError(name)
        return object.__getattribute__(self, name)

    def readinto(self, b):
        out = self.read(len(b))
        b[: len(out)] = out
        return len(out)


CL_VALUES = [
    None, "", "0", "1", "5", "10", "17", "100", " 12 ", "\t7", "-1", "-0", "+5", "1_0",
    "abc", "1.5", "0x10", "١٢", "12abc", "  ", "9" * 25, "007", "-", "--1", "1e3",
    "65536", "65537",
]
TE_VALUES = [None, "chunked", "Chunked", "gzip", "chunked, gzip", "", "identity"]
MAX_VALUES = [None, 0, 1, 5, 10, 12, 17, 100, 65536, 10**30]
SAFE_VALUES = [True, False, 0, 1, None, "", "x"]
TERM_VALUES = ["absent", True, False, None, 0]


def describe(result, base):
    if result is base:
        return ("raw",)
    if isinstance(result, LimitedStream):
        return (
            "limited",
            result.limit,
            result._limit_is_max,
            result._stream is base,
            result._pos,
        )
    if type(result) is io.BytesIO:
        return ("bytesio", result.getvalue(), result.tell())
    return ("other", repr(type(result)))


def consume(result, rng_seed, base):
    rng = random.Random(rng_seed)
    log = []
    try:
        for _ in range(6):
            op = rng.choice(["read", "readn", "readline", "readlines", "iter"])
            if op == "read":
                # never read(-1) on a raw endless stream: Fragmenting is finite so ok
                log.append(result.read())
            elif op == "readn":
                log.append(result.read(rng.choice([0, 1, 3, 7, 50])))
            elif op == "readline":
                log.append(result.readline())
            elif op == "readlines":
                log.append(result.readlines())
            else:
                log.append(next(iter(result), None))
    except Exception as e:  # noqa: BLE001
        log.append(("exc", type(e).__name__))
    return log, base.pos


def run(fn, kwargs_factory, seed):
    environ, kwargs, base = kwargs_factory()
    try:
        result = fn(environ, **kwargs)
    except Exception as e:  # noqa: BLE001
        return ("exc", type(e).__name__, base.pos)
    return (describe(result, base), consume(result, seed, base))


def main() -> None:
    rng = random.Random(20240909)
    n = 0
    mismatches = 0

    # sansio.get_content_length: exhaustive over the value grids
    for cl in CL_VALUES:
        for te in TE_VALUES:
            for call in ("kw", "pos"):
                def call_it(f):
                    try:
                        if call == "kw":
                            return f(http_content_length=cl, http_transfer_encoding=te)
                        return f(cl, te)
                    except Exception as e:  # noqa: BLE001
                        return ("exc", type(e).__name__)

                a = call_it(orig_sansio_get_content_length)
                b = call_it(new_sansio.get_content_length)
                n += 1
                if a != b or type(a) is not type(b):
                    mismatches += 1
                    print("MISMATCH sansio", cl, te, a, b)

    # random strings for content length
    alphabet = "0123456789-+ _\tx.٣"
    for _ in range(3000):
        cl = "".join(rng.choice(alphabet) for _ in range(rng.randint(0, 6)))
        te = rng.choice(TE_VALUES)
        try:
            a = orig_sansio_get_content_length(cl, te)
        except Exception as e:  # noqa: BLE001
            a = ("exc", type(e).__name__)
        try:
            b = new_sansio.get_content_length(cl, te)
        except Exception as e:  # noqa: BLE001
            b = ("exc", type(e).__name__)
        n += 1
        if a != b or type(a) is not type(b):
            mismatches += 1
            print("MISMATCH sansio-rand", repr(cl), te, a, b)

    # wsgi.get_content_length + get_input_stream
    for i in range(12000):
        cl = rng.choice(CL_VALUES)
        te = rng.choice(TE_VALUES)
        term = rng.choice(TERM_VALUES)
        mx = rng.choice(MAX_VALUES)
        safe = rng.choice(SAFE_VALUES)
        body_len = rng.choice([0, 1, 4, 5, 9, 10, 11, 17, 30, 120])
        body = bytes(rng.choice(b"ab\ncd\n") for _ in range(body_len))
        frag = rng.choice([1, 2, 3, 7, 1000])
        with_readinto = rng.random() < 0.5
        pass_mode = rng.choice(["kw", "pos", "default"])
        drop_input = rng.random() < 0.02

        def factory():
            base = Fragmenting(body, frag, with_readinto)
            environ = {"wsgi.input": base}
            if drop_input:
                del environ["wsgi.input"]
            if cl is not None:
                environ["CONTENT_LENGTH"] = cl
            if te is not None:
                environ["HTTP_TRANSFER_ENCODING"] = te
            if term != "absent":
                environ["wsgi.input_terminated"] = term
            if pass_mode == "kw":
                kwargs = {"safe_fallback": safe, "max_content_length": mx}
            elif pass_mode == "pos":
                kwargs = {"safe_fallback": safe, "max_content_length": mx}
            else:
                kwargs = {}
            return environ, kwargs, base

        a = run(orig_get_input_stream, factory, i)
        b = run(new_wsgi.get_input_stream, factory, i)
        n += 1
        if a != b:
            mismatches += 1
            print("MISMATCH get_input_stream", cl, te, term, mx, safe, a, b)

        env = factory()[0]
        ca = orig_get_content_length(env)
        cb = new_wsgi.get_content_length(env)
        if ca != cb or type(ca) is not type(cb):
            mismatches += 1
            print("MISMATCH wsgi.get_content_length", cl, te, ca, cb)

    print(f"{n} cases, {mismatches} mismatches")
    print("PASS" if mismatches == 0 else "FAIL")


if __name__ == "__main__":
    main()
