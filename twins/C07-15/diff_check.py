"""Differential check for refactoring 3 (sansio.http.parse_cookie, http.parse_cookie).

Run: cd /tmp/wt12-C07 && PYTHONPATH=/tmp/wt12-C07/src /venv/bin/python /tmp/twin7-C07/3/diff_check.py
"""
import random

from werkzeug import datastructures as ds
from werkzeug.http import parse_cookie as new_http_parse_cookie
from werkzeug.sansio.http import _cookie_re
from werkzeug.sansio.http import _cookie_unslash_re
from werkzeug.sansio.http import _cookie_unslash_replace
from werkzeug.sansio.http import parse_cookie as new_sansio_parse_cookie


def orig_sansio_parse_cookie(cookie=None, cls=None):
    # verbatim copy of the implementation on the unmodified tree
    if cls is None:
        cls = ds.MultiDict

    if not cookie:
        return cls()

    cookie = f"{cookie};"
    out = []

    for ck, cv in _cookie_re.findall(cookie):
        ck = ck.strip()
        cv = cv.strip()

        if not ck:
            continue

        if len(cv) >= 2 and cv[0] == cv[-1] == '"':
            # Work with bytes here, since a UTF-8 character could be multiple bytes.
            cv = _cookie_unslash_re.sub(
                _cookie_unslash_replace, cv[1:-1].encode()
            ).decode(errors="replace")

        out.append((ck, cv))

    return cls(out)


def orig_http_parse_cookie(header, cls=None):
    # verbatim copy of the implementation on the unmodified tree
    if isinstance(header, dict):
        cookie = header.get("HTTP_COOKIE")
    else:
        cookie = header

    if cookie:
        cookie = cookie.encode("latin1").decode(errors="replace")

    return orig_sansio_parse_cookie(cookie=cookie, cls=cls)


class _SubMultiDict(ds.MultiDict):
    pass


def run(func, *args, **kwargs):
    try:
        rv = func(*args, **kwargs)
    except BaseException as e:  # noqa: B036
        return ("raise", type(e).__name__, str(e))
    return ("ok", type(rv).__name__, list(rv.items(multi=True)))


NAMES = [
    "a", "b", "session", "", " ", "  a  ", "a b", "\xa0a\xa0", " x", '"q"', "é",
    "a\\", "\x00", "a\tb", "\t", "A",
]
VALUES = [
    "", "1", "abc", " v ", '"', '""', '"x"', '" x "', '"a\\"b"', '"a\\\\b"', '"\\342\\202\\254"',
    '"\\303"', '"\\377"', '"\\400"', '"\\08"', '"\\12"', '"\\"', '"\\', '"a;b"', '"a"b"',
    '"unterminated', 'x"', '"é"', '"€"', '"\xe2\x82\xac"', "\xe2\x82\xac", "\xff\xfe",
    "a=b", "=", "==", '"="', '";"', "\\073", '"\\073"', '"\\.x"', " v ",
    ' "v" ', '"\ud800"', "\ud800", '"a\nb"', "a\nb", '"\\\n"', "\x00",
]


def gen_inputs():
    rnd = random.Random(7073)
    out = [None, "", ";", ";;", "=", "=;", "a", "a=", "=b", " ", '"', '""', "a;"]
    for n in NAMES:
        for v in VALUES:
            out.append(f"{n}={v}")
            out.append(f"{n} = {v} ; z=1")
    for _ in range(9000):
        parts = []
        for _ in range(rnd.randint(1, 5)):
            if rnd.random() < 0.12:
                parts.append(rnd.choice(NAMES))
            else:
                eq = rnd.choice(["=", "=", " = ", "= ", " ="])
                parts.append(f"{rnd.choice(NAMES)}{eq}{rnd.choice(VALUES)}")
        out.append(rnd.choice(["; ", ";", " ; ", ";;"]).join(parts))
    alphabet = 'ab=;"\\ 0137\t\n\xe9\xff€\x00,'
    for _ in range(9000):
        out.append("".join(rnd.choice(alphabet) for _ in range(rnd.randint(0, 16))))
    return out


def main():
    inputs = gen_inputs()
    bad = 0
    kinds = {}

    def check(label, a, b, value):
        nonlocal bad
        kinds[a[0]] = kinds.get(a[0], 0) + 1
        if a != b:
            bad += 1
            if bad <= 10:
                print("MISMATCH", label, repr(value), a, b)

    for value in inputs:
        for cls in (None, ds.MultiDict, _SubMultiDict):
            check(
                "sansio",
                run(orig_sansio_parse_cookie, value, cls),
                run(new_sansio_parse_cookie, value, cls),
                value,
            )
        check(
            "sansio-kw",
            run(orig_sansio_parse_cookie, cookie=value),
            run(new_sansio_parse_cookie, cookie=value),
            value,
        )
        check("http-str", run(orig_http_parse_cookie, value), run(new_http_parse_cookie, value), value)
        environ = {"HTTP_COOKIE": value} if value is not None else {}
        check(
            "http-environ",
            run(orig_http_parse_cookie, environ),
            run(new_http_parse_cookie, environ),
            value,
        )
    print(f"{len(inputs)} inputs, outcome kinds {kinds}, mismatches {bad}")
    print("PASS" if bad == 0 else "FAIL")


if __name__ == "__main__":
    main()
