"""Differential check for refactoring 1 (C16).

Compares the refactored on_update callbacks of
sansio.response.Response.{vary,allow,content_language (=_set_property),
cache_control, content_range, content_security_policy} with a pasted copy
of the ORIGINAL implementation, on random mutation sequences.

Run: cd /tmp/wt3-C16 && PYTHONPATH=/tmp/wt3-C16/src /venv/bin/python /tmp/twin-C16/1/diff_check.py
"""
from __future__ import annotations

import random
import typing as t

from werkzeug.datastructures import ContentRange
from werkzeug.datastructures import ContentSecurityPolicy
from werkzeug.datastructures import HeaderSet
from werkzeug.datastructures import ResponseCacheControl
from werkzeug.http import dump_header
from werkzeug.http import parse_cache_control_header
from werkzeug.http import parse_content_range_header
from werkzeug.http import parse_csp_header
from werkzeug.http import parse_set_header
from werkzeug.sansio.response import Response as NewResponse


# ---------------------------------------------------------------- ORIGINAL
def _orig_set_property(name: str, doc: str | None = None) -> property:
    def fget(self):
        def on_update(header_set: HeaderSet) -> None:
            if not header_set and name in self.headers:
                del self.headers[name]
            elif header_set:
                self.headers[name] = header_set.to_header()

        return parse_set_header(self.headers.get(name), on_update)

    def fset(self, value) -> None:
        if not value:
            del self.headers[name]
        elif isinstance(value, str):
            self.headers[name] = value
        else:
            self.headers[name] = dump_header(value)

    return property(fget, fset, doc=doc)


class OrigResponse(NewResponse):
    vary = _orig_set_property("Vary")
    content_language = _orig_set_property("Content-Language")
    allow = _orig_set_property("Allow")

    @property
    def cache_control(self) -> ResponseCacheControl:
        def on_update(cache_control) -> None:
            if not cache_control and "cache-control" in self.headers:
                del self.headers["cache-control"]
            elif cache_control:
                self.headers["Cache-Control"] = cache_control.to_header()

        return parse_cache_control_header(
            self.headers.get("cache-control"), on_update, ResponseCacheControl
        )

    @property
    def content_range(self) -> ContentRange:
        def on_update(rng: ContentRange) -> None:
            if not rng:
                del self.headers["content-range"]
            else:
                self.headers["Content-Range"] = rng.to_header()

        rv = parse_content_range_header(self.headers.get("content-range"), on_update)
        if rv is None:
            rv = ContentRange(None, None, None, on_update=on_update)
        return rv

    @content_range.setter
    def content_range(self, value) -> None:
        if not value:
            del self.headers["content-range"]
        elif isinstance(value, str):
            self.headers["Content-Range"] = value
        else:
            self.headers["Content-Range"] = value.to_header()

    @property
    def content_security_policy(self) -> ContentSecurityPolicy:
        def on_update(csp: ContentSecurityPolicy) -> None:
            if not csp:
                del self.headers["content-security-policy"]
            else:
                self.headers["Content-Security-Policy"] = csp.to_header()

        rv = parse_csp_header(self.headers.get("content-security-policy"), on_update)
        if rv is None:
            rv = ContentSecurityPolicy(None, on_update=on_update)
        return rv

    @content_security_policy.setter
    def content_security_policy(self, value) -> None:
        if not value:
            del self.headers["content-security-policy"]
        elif isinstance(value, str):
            self.headers["Content-Security-Policy"] = value
        else:
            self.headers["Content-Security-Policy"] = value.to_header()


# ------------------------------------------------------------- GENERATORS
TOKENS = ["Cookie", "cookie", "Accept", "ACCEPT-encoding", "x y", 'q"uo', "", "*", "GET", "en"]
SET_PROPS = ["vary", "allow", "content_language"]
CC_ATTRS = ["no_cache", "no_store", "max_age", "public", "private", "s_maxage",
            "must_revalidate", "immutable", "no_transform", "stale_if_error"]
CC_VALUES = [None, True, False, 0, 1, 3600, "x", "a b", -1, ""]
CSP_ATTRS = ["default_src", "script_src", "img_src", "report_uri", "sandbox"]
CSP_VALUES = ["'self'", "", "a b", None, "*"]
RANGES = [(0, 10, 100), (0, 10, None), (None, None, 5), (None, None, None),
          (5, 3, 10), (0, 1, 1), (-1, 2, 3)]
INITIAL = [
    [],
    [("Vary", "Cookie, Accept"), ("Allow", "GET"), ("Content-Language", "en, de")],
    [("vary", ""), ("cache-control", "max-age=3, public"), ("CONTENT-RANGE", "bytes 0-9/100")],
    [("Cache-Control", ""), ("Content-Range", "junk"), ("Content-Security-Policy", "default-src 'self'; img-src *")],
    [("Vary", "a"), ("Vary", "b"), ("Cache-Control", "no-cache"), ("Cache-Control", "public"),
     ("content-security-policy", ""), ("Content-Range", "bytes */5")],
]


def gen_op(r: random.Random) -> tuple:
    kind = r.choice(["set", "set", "cc", "cc", "cr", "csp", "hdr"])
    fresh = r.random() < 0.5  # re-read property vs. use held view
    if kind == "set":
        prop = r.choice(SET_PROPS)
        m = r.choice(["add", "remove", "discard", "update", "clear", "setitem", "delitem", "assign"])
        if m == "update":
            arg: t.Any = [r.choice(TOKENS) for _ in range(r.randint(0, 3))]
        elif m == "setitem":
            arg = (r.randint(-2, 3), r.choice(TOKENS))
        elif m == "delitem":
            arg = r.randint(-2, 3)
        elif m == "assign":
            arg = r.choice([None, "", "a, b", ["x", "Y"], [], {"k": "v"}])
        else:
            arg = r.choice(TOKENS)
        return ("set", prop, m, arg, fresh)
    if kind == "cc":
        m = r.choice(["setattr", "setattr", "delattr", "clear", "pop", "setitem", "update", "setdefault", "popitem"])
        return ("cc", m, r.choice(CC_ATTRS), r.choice(CC_VALUES), fresh)
    if kind == "cr":
        m = r.choice(["set", "unset", "attr", "assign"])
        return ("cr", m, r.choice(RANGES), r.choice(["units", "start", "stop", "length"]),
                r.choice([None, 0, 7, "bytes", "items"]), fresh)
    if kind == "csp":
        m = r.choice(["setattr", "delattr", "clear", "pop", "setitem", "assign"])
        return ("csp", m, r.choice(CSP_ATTRS), r.choice(CSP_VALUES), fresh)
    name = r.choice(["Vary", "allow", "Cache-Control", "content-range", "Content-Security-Policy", "Content-Language"])
    return ("hdr", r.choice(["del", "set"]), name, r.choice(["", "a", "max-age=1", "bytes 1-2/3", "x y; z"]))


class Runner:
    def __init__(self, cls, initial):
        self.resp = cls()
        # start from a known header list
        for k in [k for k, _ in list(self.resp.headers)]:
            del self.resp.headers[k]
        for k, v in initial:
            self.resp.headers.add(k, v)
        self.views: dict[str, t.Any] = {}

    def view(self, prop: str, fresh: bool):
        if fresh or prop not in self.views:
            self.views[prop] = getattr(self.resp, prop)
        return self.views[prop]

    def apply(self, op: tuple):
        k = op[0]
        if k == "set":
            _, prop, m, arg, fresh = op
            if m == "assign":
                setattr(self.resp, prop, arg)
                return None
            v = self.view(prop, fresh)
            if m == "setitem":
                v[arg[0]] = arg[1]
                return None
            if m == "delitem":
                del v[arg]
                return None
            return getattr(v, m)(*(() if m == "clear" else (arg,)))
        if k == "cc":
            _, m, attr, val, fresh = op
            v = self.view("cache_control", fresh)
            if m == "setattr":
                return setattr(v, attr, val)
            if m == "delattr":
                return delattr(v, attr)
            if m == "clear":
                return v.clear()
            if m == "pop":
                return v.pop(attr.replace("_", "-"), None)
            if m == "setitem":
                v[attr.replace("_", "-")] = val
                return None
            if m == "update":
                return v.update({attr.replace("_", "-"): val})
            if m == "setdefault":
                return v.setdefault(attr.replace("_", "-"), val)
            if m == "popitem":
                return v.popitem()
        if k == "cr":
            _, m, rng, attr, val, fresh = op
            if m == "assign":
                self.resp.content_range = r_choice_assign(rng)
                return None
            v = self.view("content_range", fresh)
            if m == "set":
                return v.set(*rng)
            if m == "unset":
                return v.unset()
            return setattr(v, attr, val)
        if k == "csp":
            _, m, attr, val, fresh = op
            if m == "assign":
                self.resp.content_security_policy = val
                return None
            v = self.view("content_security_policy", fresh)
            if m == "setattr":
                return setattr(v, attr, val)
            if m == "delattr":
                return delattr(v, attr)
            if m == "clear":
                return v.clear()
            if m == "pop":
                return v.pop(attr.replace("_", "-"), None)
            if m == "setitem":
                v[attr.replace("_", "-")] = val
                return None
        if k == "hdr":
            _, m, name, val = op
            if m == "del":
                del self.resp.headers[name]
            else:
                self.resp.headers[name] = val
            return None
        raise AssertionError(op)

    def snapshot(self):
        out = [list(self.resp.headers)]
        for prop in SET_PROPS + ["cache_control", "content_range", "content_security_policy"]:
            try:
                out.append(repr(getattr(self.resp, prop)))
            except Exception as e:  # noqa: BLE001
                out.append(type(e).__name__)
        for prop, v in sorted(self.views.items()):
            try:
                out.append((prop, repr(v)))
            except Exception as e:  # noqa: BLE001
                out.append((prop, type(e).__name__))
        return out


def r_choice_assign(rng):
    if rng[0] is None and rng[1] is None and rng[2] is None:
        return None
    try:
        return ContentRange("bytes", *rng)
    except AssertionError:
        return "bytes 0-0/1"


def run(cls, initial, ops):
    rn = Runner(cls, initial)
    trace = []
    for op in ops:
        try:
            rv = rn.apply(op)
            res = ("ok", repr(rv))
        except Exception as e:  # noqa: BLE001
            res = ("exc", type(e).__name__, str(e))
        trace.append((res, rn.snapshot()))
    return trace


def main() -> None:
    r = random.Random(1601)
    n_seq = 3000
    n_steps = 0
    for i in range(n_seq):
        initial = r.choice(INITIAL)
        ops = [gen_op(r) for _ in range(r.randint(1, 12))]
        a = run(NewResponse, initial, ops)
        b = run(OrigResponse, initial, ops)
        n_steps += len(ops)
        if a != b:
            for j, (x, y) in enumerate(zip(a, b)):
                if x != y:
                    print("FAIL at seq", i, "step", j, ops[j])
                    print(" new :", x)
                    print(" orig:", y)
                    break
            raise SystemExit(1)
    print(f"PASS ({n_seq} sequences, {n_steps} mutation steps, all traces identical)")


if __name__ == "__main__":
    main()
