"""Differential check for refactoring 3 (wsgi.get_input_stream,
LimitedStream.on_disconnect / exhaust).

Run: cd /tmp/wt12-C10 && PYTHONPATH=/tmp/wt12-C10/src /venv/bin/python /tmp/twin7-C10/3/diff_check.py
"""
import io
import random
import typing as t

from werkzeug import wsgi
from werkzeug.exceptions import ClientDisconnected
from werkzeug.exceptions import RequestEntityTooLarge
from werkzeug.formparser import FormDataParser
from werkzeug.wsgi import get_content_length
from werkzeug.wsgi import get_input_stream
from werkzeug.wsgi import LimitedStream


class OrigLimitedStream(LimitedStream):
    """Original (pre-refactoring) on_disconnect / exhaust, pasted verbatim."""

    def on_disconnect(self, error: Exception | None = None) -> None:
        if not self._limit_is_max or error is not None:
            raise ClientDisconnected()

        # If the limit is a maximum, then we may have read zero bytes because the
        # streaming body is complete. There's no way to distinguish that from the
        # client disconnecting early.

    def exhaust(self) -> bytes:
        if not self.is_exhausted:
            return self.readall()

        return b""


def orig_get_input_stream(
    environ,
    safe_fallback: bool = True,
    max_content_length: int | None = None,
) -> t.IO[bytes]:
    """Original body pasted verbatim (LimitedStream -> OrigLimitedStream)."""
    LimitedStream = OrigLimitedStream
    stream = t.cast(t.IO[bytes], environ["wsgi.input"])
    content_length = get_content_length(environ)

    if content_length is not None and max_content_length is not None:
        if content_length > max_content_length:
            raise RequestEntityTooLarge()

    # A WSGI server can set this to indicate that it terminates the input stream. In
    # that case the stream is safe without wrapping, or can enforce a max length.
    if "wsgi.input_terminated" in environ:
        if max_content_length is not None:
            # If this is moved above, it can cause the stream to hang if a read attempt
            # is made when the client sends no data. For example, the development server
            # does not handle buffering except for chunked encoding.
            return t.cast(
                t.IO[bytes], LimitedStream(stream, max_content_length, is_max=True)
            )

        return stream

    # No limit given, return an empty stream unless the user explicitly allows the
    # potentially infinite stream. An infinite stream is dangerous if it's not expected,
    # as it can tie up a worker indefinitely.
    if content_length is None:
        return io.BytesIO() if safe_fallback else stream

    return t.cast(t.IO[bytes], LimitedStream(stream, content_length))


class ReadOnly:
    """Minimal WSGI input: only read(), optionally short reads / errors."""

    def __init__(self, data: bytes, short: int, fail_at: int | None):
        self._b = io.BytesIO(data)
        self.short = short
        self.fail_at = fail_at
        self.calls = 0

    def read(self, size=-1):
        self.calls += 1
        if self.fail_at is not None and self.calls >= self.fail_at:
            raise OSError("boom")
        if self.short and (size is None or size < 0 or size > self.short):
            size = self.short
        return self._b.read(size)


class FailingBytesIO(io.BytesIO):
    def __init__(self, data, fail_at, exc):
        super().__init__(data)
        self.fail_at = fail_at
        self.exc = exc
        self.calls = 0

    def readinto(self, b):
        self.calls += 1
        if self.calls >= self.fail_at:
            raise self.exc("boom")
        return super().readinto(b)


def make_stream(spec, data):
    kind = spec[0]
    if kind == "bytesio":
        return io.BytesIO(data)
    if kind == "readonly":
        return ReadOnly(data, spec[1], spec[2])
    return FailingBytesIO(data, spec[1], spec[2])


def gen_environ(rng: random.Random):
    n = rng.choice([0, 1, 5, 10, 100, 1000, 70000, 200000])
    data = bytes(rng.choice(b"ab\n&=") for _ in range(min(n, 3000))) * (1 + n // 3000)
    data = data[:n]
    r = rng.random()
    if r < 0.5:
        spec = ("bytesio",)
    elif r < 0.8:
        spec = ("readonly", rng.choice([0, 0, 1, 7, 1000]), rng.choice([None, None, 1, 2, 3]))
    else:
        spec = ("failing", rng.choice([1, 2, 3]), rng.choice([OSError, ValueError]))
    env: dict[str, t.Any] = {}
    r = rng.random()
    if r < 0.2:
        pass
    elif r < 0.6:
        env["CONTENT_LENGTH"] = str(n)
    else:
        env["CONTENT_LENGTH"] = rng.choice(
            [str(max(0, n - 3)), str(n + 4), "0", "", "abc", "-5", "+7", " 12", "10", "99999999"]
        )
    if rng.random() < 0.15:
        env["HTTP_TRANSFER_ENCODING"] = rng.choice(["chunked", "gzip", "Chunked"])
    if rng.random() < 0.45:
        env["wsgi.input_terminated"] = rng.choice([True, False, None, 1])
    max_cl = rng.choice([None, None, 0, 1, 4, 10, 99, 100, 101, 1000, 65536, 10**6])
    safe = rng.choice([True, True, False, 0, 1, None, "yes", ""])
    return env, data, spec, max_cl, safe


def gen_ops(rng: random.Random):
    ops = []
    for _ in range(rng.randrange(1, 7)):
        k = rng.choice(["read", "read", "readn", "readn", "readline", "readall", "exhaust", "iter", "readinto", "tell", "is_exhausted", "on_disconnect"])
        if k == "readn":
            ops.append((k, rng.choice([0, 1, 3, 10, 100, 5000, 100000])))
        elif k == "readinto":
            ops.append((k, rng.choice([1, 8, 200])))
        elif k == "on_disconnect":
            ops.append((k, rng.choice([None, None, "oserror"])))
        else:
            ops.append((k,))
    return ops


def apply_ops(s, ops):
    out = []
    for op in ops:
        try:
            if op[0] == "read":
                r = s.read()
            elif op[0] == "readn":
                r = s.read(op[1])
            elif op[0] == "readline":
                r = s.readline()
            elif op[0] == "readall":
                r = s.readall() if hasattr(s, "readall") else ("n/a", s.read())
            elif op[0] == "exhaust":
                r = s.exhaust() if hasattr(s, "exhaust") else "n/a"
            elif op[0] == "iter":
                r = [line for _, line in zip(range(50), s)] if hasattr(s, "__iter__") else "n/a"
            elif op[0] == "readinto":
                if hasattr(s, "readinto"):
                    buf = bytearray(op[1])
                    r = (s.readinto(buf), bytes(buf))
                else:
                    r = "n/a"
            elif op[0] == "tell":
                r = s.tell() if hasattr(s, "tell") else "n/a"
            elif op[0] == "is_exhausted":
                r = getattr(s, "is_exhausted", "n/a")
            elif op[0] == "on_disconnect":
                if hasattr(s, "on_disconnect"):
                    r = s.on_disconnect() if op[1] is None else s.on_disconnect(error=OSError("x"))
                else:
                    r = "n/a"
        except Exception as e:  # noqa: B902
            out.append(("exc", type(e), str(e)))
        else:
            out.append(("ok", r))
        if isinstance(s, LimitedStream):
            out.append(("pos", s._pos))
    return out


def describe(result, raw):
    if isinstance(result, LimitedStream):
        assert type(result) in (LimitedStream, OrigLimitedStream)
        return ("limited", result.limit, result._limit_is_max, result._stream is raw, result._pos)
    if result is raw:
        return ("raw",)
    return (type(result).__name__, result.getvalue() if isinstance(result, io.BytesIO) else None)


def run(func, env, data, spec, max_cl, safe, ops, call_style):
    raw = make_stream(spec, data)
    environ = dict(env)
    environ["wsgi.input"] = raw
    try:
        if call_style == 0:
            s = func(environ, safe, max_cl)
        elif call_style == 1:
            s = func(environ, max_content_length=max_cl, safe_fallback=safe)
        else:
            s = func(environ, max_content_length=max_cl) if safe is True else func(
                environ, safe_fallback=safe, max_content_length=max_cl
            )
    except Exception as e:  # noqa: B902
        return ("exc", type(e), str(e), getattr(raw, "calls", None), raw.tell() if hasattr(raw, "tell") else None)
    return (describe(s, raw), apply_ops(s, ops), getattr(raw, "calls", None))


class OrigFormDataParser(FormDataParser):
    def parse_from_environ(self, environ):
        saved = wsgi_mod_formparser.get_input_stream
        wsgi_mod_formparser.get_input_stream = orig_get_input_stream
        try:
            return super().parse_from_environ(environ)
        finally:
            wsgi_mod_formparser.get_input_stream = saved


import werkzeug.formparser as wsgi_mod_formparser  # noqa: E402


def run_form(cls, env, data, spec, max_cl, max_mem):
    raw = make_stream(spec, data)
    environ = dict(env)
    environ["wsgi.input"] = raw
    environ["CONTENT_TYPE"] = "application/x-www-form-urlencoded"
    parser = cls(max_content_length=max_cl, max_form_memory_size=max_mem, silent=False)
    try:
        stream, form, files = parser.parse_from_environ(environ)
    except Exception as e:  # noqa: B902
        return ("exc", type(e), str(e))
    return ("ok", list(form.items(multi=True)), list(files.items(multi=True)))


def main() -> None:
    assert OrigLimitedStream.exhaust is not LimitedStream.exhaust
    rng = random.Random(424242)
    outcomes: dict[str, int] = {}
    n = 0
    for i in range(8000):
        env, data, spec, max_cl, safe = gen_environ(rng)
        ops = gen_ops(rng)
        style = rng.randrange(3)
        a = run(orig_get_input_stream, env, data, spec, max_cl, safe, ops, style)
        b = run(get_input_stream, env, data, spec, max_cl, safe, ops, style)
        if a != b:
            print("FAIL get_input_stream", env, len(data), spec, max_cl, safe, ops)
            print(a)
            print(b)
            return
        key = a[1].__name__ if a[0] == "exc" else a[0][0]
        outcomes[key] = outcomes.get(key, 0) + 1
        for rec in a[1] if a[0] != "exc" else []:
            if rec[0] == "exc":
                outcomes["op:" + rec[1].__name__] = outcomes.get("op:" + rec[1].__name__, 0) + 1
        n += 1

        max_mem = rng.choice([None, 10, 1000, 10**6])
        fa = run_form(OrigFormDataParser, env, data, spec, max_cl, max_mem)
        fb = run_form(FormDataParser, env, data, spec, max_cl, max_mem)
        if fa != fb:
            print("FAIL form", env, len(data), spec, max_cl, max_mem, fa, fb)
            return
        n += 1

    # Directly constructed LimitedStream objects (both is_max values).
    for i in range(4000):
        _, data, spec, _, _ = gen_environ(rng)
        limit = rng.choice([0, 1, 5, 100, len(data), len(data) + 1, max(0, len(data) - 1), 10**6])
        is_max = rng.choice([True, False, 0, 1, None])
        ops = gen_ops(rng)
        res = []
        for cls in (OrigLimitedStream, LimitedStream):
            raw = make_stream(spec, data)
            s = cls(raw, limit, is_max)
            res.append((apply_ops(s, ops), getattr(raw, "calls", None)))
        if res[0] != res[1]:
            print("FAIL LimitedStream", len(data), spec, limit, is_max, ops, res)
            return
        n += 1

    print("cases", n, "outcomes", outcomes)
    assert outcomes.get("RequestEntityTooLarge", 0) > 300
    assert outcomes.get("op:RequestEntityTooLarge", 0) > 100
    assert outcomes.get("op:ClientDisconnected", 0) > 100
    assert outcomes.get("limited", 0) > 1000 and outcomes.get("raw", 0) > 300
    assert outcomes.get("BytesIO", 0) > 100
    print("PASS")


if __name__ == "__main__":
    main()
