"""Differential check for property C18 (context-local isolation).

Refactoring 2: LocalStack.push / pop / top and LocalManager.cleanup (truthiness tests, unpacking, inlined release).

Compares werkzeug.local from the worktree (/tmp/wt10-C18/src) against the
ORIGINAL implementation of src/werkzeug/local.py, which is embedded below as
ORIG_SOURCE and exec'd into a separate module.  Random operation sequences are
replayed on both implementations over several contextvars contexts (with
children forked at random points, i.e. every interleaving is reachable), and
over real threads and asyncio tasks.  After every operation the result (or the
exception type/args/cause/context) and the raw ContextVar contents of *every*
context (plus whether the stored object identity changed) are compared.

Run: cd /tmp/wt10-C18 && PYTHONPATH=/tmp/wt10-C18/src /venv/bin/python /tmp/twin6-C18/2/diff_check.py
Prints PASS only if everything is identical.
"""

ORIG_SOURCE = r'''from __future__ import annotations

import copy
import math
import operator
import typing as t
from contextvars import ContextVar
from functools import partial
from functools import update_wrapper
from operator import attrgetter

from .wsgi import ClosingIterator

if t.TYPE_CHECKING:
    from _typeshed.wsgi import StartResponse
    from _typeshed.wsgi import WSGIApplication
    from _typeshed.wsgi import WSGIEnvironment

T = t.TypeVar("T")
F = t.TypeVar("F", bound=t.Callable[..., t.Any])


def release_local(local: Local | LocalStack[t.Any]) -> None:
    """Release the data for the current context in a :class:`Local` or
    :class:`LocalStack` without using a :class:`LocalManager`.

    This should not be needed for modern use cases, and may be removed
    in the future.

    .. versionadded:: 0.6.1
    """
    local.__release_local__()


class Local:
    """Create a namespace of context-local data. This wraps a
    :class:`ContextVar` containing a :class:`dict` value.

    This may incur a performance penalty compared to using individual
    context vars, as it has to copy data to avoid mutating the dict
    between nested contexts.

    :param context_var: The :class:`~contextvars.ContextVar` to use as
        storage for this local. If not given, one will be created.
        Context vars not created at the global scope may interfere with
        garbage collection.

    .. versionchanged:: 2.0
        Uses ``ContextVar`` instead of a custom storage implementation.
    """

    __slots__ = ("__storage",)

    def __init__(self, context_var: ContextVar[dict[str, t.Any]] | None = None) -> None:
        if context_var is None:
            # A ContextVar not created at global scope interferes with
            # Python's garbage collection. However, a local only makes
            # sense defined at the global scope as well, in which case
            # the GC issue doesn't seem relevant.
            context_var = ContextVar(f"werkzeug.Local<{id(self)}>.storage")

        object.__setattr__(self, "_Local__storage", context_var)

    def __iter__(self) -> t.Iterator[tuple[str, t.Any]]:
        return iter(self.__storage.get({}).items())

    def __call__(
        self, name: str, *, unbound_message: str | None = None
    ) -> LocalProxy[t.Any]:
        """Create a :class:`LocalProxy` that access an attribute on this
        local namespace.

        :param name: Proxy this attribute.
        :param unbound_message: The error message that the proxy will
            show if the attribute isn't set.
        """
        return LocalProxy(self, name, unbound_message=unbound_message)

    def __release_local__(self) -> None:
        self.__storage.set({})

    def __getattr__(self, name: str) -> t.Any:
        values = self.__storage.get({})

        if name in values:
            return values[name]

        raise AttributeError(name)

    def __setattr__(self, name: str, value: t.Any) -> None:
        values = self.__storage.get({}).copy()
        values[name] = value
        self.__storage.set(values)

    def __delattr__(self, name: str) -> None:
        values = self.__storage.get({})

        if name in values:
            values = values.copy()
            del values[name]
            self.__storage.set(values)
        else:
            raise AttributeError(name)


class LocalStack(t.Generic[T]):
    """Create a stack of context-local data. This wraps a
    :class:`ContextVar` containing a :class:`list` value.

    This may incur a performance penalty compared to using individual
    context vars, as it has to copy data to avoid mutating the list
    between nested contexts.

    :param context_var: The :class:`~contextvars.ContextVar` to use as
        storage for this local. If not given, one will be created.
        Context vars not created at the global scope may interfere with
        garbage collection.

    .. versionchanged:: 2.0
        Uses ``ContextVar`` instead of a custom storage implementation.

    .. versionadded:: 0.6.1
    """

    __slots__ = ("_storage",)

    def __init__(self, context_var: ContextVar[list[T]] | None = None) -> None:
        if context_var is None:
            # A ContextVar not created at global scope interferes with
            # Python's garbage collection. However, a local only makes
            # sense defined at the global scope as well, in which case
            # the GC issue doesn't seem relevant.
            context_var = ContextVar(f"werkzeug.LocalStack<{id(self)}>.storage")

        self._storage = context_var

    def __release_local__(self) -> None:
        self._storage.set([])

    def push(self, obj: T) -> list[T]:
        """Add a new item to the top of the stack."""
        stack = self._storage.get([]).copy()
        stack.append(obj)
        self._storage.set(stack)
        return stack

    def pop(self) -> T | None:
        """Remove the top item from the stack and return it. If the
        stack is empty, return ``None``.
        """
        stack = self._storage.get([])

        if len(stack) == 0:
            return None

        rv = stack[-1]
        self._storage.set(stack[:-1])
        return rv

    @property
    def top(self) -> T | None:
        """The topmost item on the stack.  If the stack is empty,
        `None` is returned.
        """
        stack = self._storage.get([])

        if len(stack) == 0:
            return None

        return stack[-1]

    def __call__(
        self, name: str | None = None, *, unbound_message: str | None = None
    ) -> LocalProxy[t.Any]:
        """Create a :class:`LocalProxy` that accesses the top of this
        local stack.

        :param name: If given, the proxy access this attribute of the
            top item, rather than the item itself.
        :param unbound_message: The error message that the proxy will
            show if the stack is empty.
        """
        return LocalProxy(self, name, unbound_message=unbound_message)


class LocalManager:
    """Manage releasing the data for the current context in one or more
    :class:`Local` and :class:`LocalStack` objects.

    This should not be needed for modern use cases, and may be removed
    in the future.

    :param locals: A local or list of locals to manage.

    .. versionchanged:: 2.1
        The ``ident_func`` was removed.

    .. versionchanged:: 0.7
        The ``ident_func`` parameter was added.

    .. versionchanged:: 0.6.1
        The :func:`release_local` function can be used instead of a
        manager.
    """

    __slots__ = ("locals",)

    def __init__(
        self,
        locals: None
        | (Local | LocalStack[t.Any] | t.Iterable[Local | LocalStack[t.Any]]) = None,
    ) -> None:
        if locals is None:
            self.locals = []
        elif isinstance(locals, Local):
            self.locals = [locals]
        else:
            self.locals = list(locals)  # type: ignore[arg-type]

    def cleanup(self) -> None:
        """Release the data in the locals for this context. Call this at
        the end of each request or use :meth:`make_middleware`.
        """
        for local in self.locals:
            release_local(local)

    def make_middleware(self, app: WSGIApplication) -> WSGIApplication:
        """Wrap a WSGI application so that local data is released
        automatically after the response has been sent for a request.
        """

        def application(
            environ: WSGIEnvironment, start_response: StartResponse
        ) -> t.Iterable[bytes]:
            return ClosingIterator(app(environ, start_response), self.cleanup)

        return application

    def middleware(self, func: WSGIApplication) -> WSGIApplication:
        """Like :meth:`make_middleware` but used as a decorator on the
        WSGI application function.

        .. code-block:: python

            @manager.middleware
            def application(environ, start_response):
                ...
        """
        return update_wrapper(self.make_middleware(func), func)

    def __repr__(self) -> str:
        return f"<{type(self).__name__} storages: {len(self.locals)}>"


class _ProxyLookup:
    """Descriptor that handles proxied attribute lookup for
    :class:`LocalProxy`.

    :param f: The built-in function this attribute is accessed through.
        Instead of looking up the special method, the function call
        is redone on the object.
    :param fallback: Return this function if the proxy is unbound
        instead of raising a :exc:`RuntimeError`.
    :param is_attr: This proxied name is an attribute, not a function.
        Call the fallback immediately to get the value.
    :param class_value: Value to return when accessed from the
        ``LocalProxy`` class directly. Used for ``__doc__`` so building
        docs still works.
    """

    __slots__ = ("bind_f", "fallback", "is_attr", "class_value", "name")

    def __init__(
        self,
        f: t.Callable[..., t.Any] | None = None,
        fallback: t.Callable[[LocalProxy[t.Any]], t.Any] | None = None,
        class_value: t.Any | None = None,
        is_attr: bool = False,
    ) -> None:
        bind_f: t.Callable[[LocalProxy[t.Any], t.Any], t.Callable[..., t.Any]] | None

        if hasattr(f, "__get__"):
            # A Python function, can be turned into a bound method.

            def bind_f(
                instance: LocalProxy[t.Any], obj: t.Any
            ) -> t.Callable[..., t.Any]:
                return f.__get__(obj, type(obj))  # type: ignore

        elif f is not None:
            # A C function, use partial to bind the first argument.

            def bind_f(
                instance: LocalProxy[t.Any], obj: t.Any
            ) -> t.Callable[..., t.Any]:
                return partial(f, obj)

        else:
            # Use getattr, which will produce a bound method.
            bind_f = None

        self.bind_f = bind_f
        self.fallback = fallback
        self.class_value = class_value
        self.is_attr = is_attr

    def __set_name__(self, owner: LocalProxy[t.Any], name: str) -> None:
        self.name = name

    def __get__(self, instance: LocalProxy[t.Any], owner: type | None = None) -> t.Any:
        if instance is None:
            if self.class_value is not None:
                return self.class_value

            return self

        try:
            obj = instance._get_current_object()
        except RuntimeError:
            if self.fallback is None:
                raise

            fallback = self.fallback.__get__(instance, owner)

            if self.is_attr:
                # __class__ and __doc__ are attributes, not methods.
                # Call the fallback to get the value.
                return fallback()

            return fallback

        if self.bind_f is not None:
            return self.bind_f(instance, obj)

        return getattr(obj, self.name)

    def __repr__(self) -> str:
        return f"proxy {self.name}"

    def __call__(
        self, instance: LocalProxy[t.Any], *args: t.Any, **kwargs: t.Any
    ) -> t.Any:
        """Support calling unbound methods from the class. For example,
        this happens with ``copy.copy``, which does
        ``type(x).__copy__(x)``. ``type(x)`` can't be proxied, so it
        returns the proxy type and descriptor.
        """
        return self.__get__(instance, type(instance))(*args, **kwargs)


class _ProxyIOp(_ProxyLookup):
    """Look up an augmented assignment method on a proxied object. The
    method is wrapped to return the proxy instead of the object.
    """

    __slots__ = ()

    def __init__(
        self,
        f: t.Callable[..., t.Any] | None = None,
        fallback: t.Callable[[LocalProxy[t.Any]], t.Any] | None = None,
    ) -> None:
        super().__init__(f, fallback)

        def bind_f(instance: LocalProxy[t.Any], obj: t.Any) -> t.Callable[..., t.Any]:
            def i_op(self: t.Any, other: t.Any) -> LocalProxy[t.Any]:
                f(self, other)  # type: ignore
                return instance

            return i_op.__get__(obj, type(obj))  # type: ignore

        self.bind_f = bind_f


def _l_to_r_op(op: F) -> F:
    """Swap the argument order to turn an l-op into an r-op."""

    def r_op(obj: t.Any, other: t.Any) -> t.Any:
        return op(other, obj)

    return t.cast(F, r_op)


def _identity(o: T) -> T:
    return o


class LocalProxy(t.Generic[T]):
    """A proxy to the object bound to a context-local object. All
    operations on the proxy are forwarded to the bound object. If no
    object is bound, a ``RuntimeError`` is raised.

    :param local: The context-local object that provides the proxied
        object.
    :param name: Proxy this attribute from the proxied object.
    :param unbound_message: The error message to show if the
        context-local object is unbound.

    Proxy a :class:`~contextvars.ContextVar` to make it easier to
    access. Pass a name to proxy that attribute.

    .. code-block:: python

        _request_var = ContextVar("request")
        request = LocalProxy(_request_var)
        session = LocalProxy(_request_var, "session")

    Proxy an attribute on a :class:`Local` namespace by calling the
    local with the attribute name:

    .. code-block:: python

        data = Local()
        user = data("user")

    Proxy the top item on a :class:`LocalStack` by calling the local.
    Pass a name to proxy that attribute.

    .. code-block::

        app_stack = LocalStack()
        current_app = app_stack()
        g = app_stack("g")

    Pass a function to proxy the return value from that function. This
    was previously used to access attributes of local objects before
    that was supported directly.

    .. code-block:: python

        session = LocalProxy(lambda: request.session)

    ``__repr__`` and ``__class__`` are proxied, so ``repr(x)`` and
    ``isinstance(x, cls)`` will look like the proxied object. Use
    ``issubclass(type(x), LocalProxy)`` to check if an object is a
    proxy.

    .. code-block:: python

        repr(user)  # <User admin>
        isinstance(user, User)  # True
        issubclass(type(user), LocalProxy)  # True

    .. versionchanged:: 2.2.2
        ``__wrapped__`` is set when wrapping an object, not only when
        wrapping a function, to prevent doctest from failing.

    .. versionchanged:: 2.2
        Can proxy a ``ContextVar`` or ``LocalStack`` directly.

    .. versionchanged:: 2.2
        The ``name`` parameter can be used with any proxied object, not
        only ``Local``.

    .. versionchanged:: 2.2
        Added the ``unbound_message`` parameter.

    .. versionchanged:: 2.0
        Updated proxied attributes and methods to reflect the current
        data model.

    .. versionchanged:: 0.6.1
        The class can be instantiated with a callable.
    """

    __slots__ = ("__wrapped", "_get_current_object")

    _get_current_object: t.Callable[[], T]
    """Return the current object this proxy is bound to. If the proxy is
    unbound, this raises a ``RuntimeError``.

    This should be used if you need to pass the object to something that
    doesn't understand the proxy. It can also be useful for performance
    if you are accessing the object multiple times in a function, rather
    than going through the proxy multiple times.
    """

    def __init__(
        self,
        local: ContextVar[T] | Local | LocalStack[T] | t.Callable[[], T],
        name: str | None = None,
        *,
        unbound_message: str | None = None,
    ) -> None:
        if name is None:
            get_name = _identity
        else:
            get_name = attrgetter(name)  # type: ignore[assignment]

        if unbound_message is None:
            unbound_message = "object is not bound"

        if isinstance(local, Local):
            if name is None:
                raise TypeError("'name' is required when proxying a 'Local' object.")

            def _get_current_object() -> T:
                try:
                    return get_name(local)  # type: ignore[return-value]
                except AttributeError:
                    raise RuntimeError(unbound_message) from None

        elif isinstance(local, LocalStack):

            def _get_current_object() -> T:
                obj = local.top

                if obj is None:
                    raise RuntimeError(unbound_message)

                return get_name(obj)

        elif isinstance(local, ContextVar):

            def _get_current_object() -> T:
                try:
                    obj = local.get()
                except LookupError:
                    raise RuntimeError(unbound_message) from None

                return get_name(obj)

        elif callable(local):

            def _get_current_object() -> T:
                return get_name(local())

        else:
            raise TypeError(f"Don't know how to proxy '{type(local)}'.")

        object.__setattr__(self, "_LocalProxy__wrapped", local)
        object.__setattr__(self, "_get_current_object", _get_current_object)

    __doc__ = _ProxyLookup(  # type: ignore[assignment]
        class_value=__doc__, fallback=lambda self: type(self).__doc__, is_attr=True
    )
    __wrapped__ = _ProxyLookup(
        fallback=lambda self: self._LocalProxy__wrapped,  # type: ignore[attr-defined]
        is_attr=True,
    )
    # __del__ should only delete the proxy
    __repr__ = _ProxyLookup(  # type: ignore[assignment]
        repr, fallback=lambda self: f"<{type(self).__name__} unbound>"
    )
    __str__ = _ProxyLookup(str)  # type: ignore[assignment]
    __bytes__ = _ProxyLookup(bytes)
    __format__ = _ProxyLookup()  # type: ignore[assignment]
    __lt__ = _ProxyLookup(operator.lt)
    __le__ = _ProxyLookup(operator.le)
    __eq__ = _ProxyLookup(operator.eq)  # type: ignore[assignment]
    __ne__ = _ProxyLookup(operator.ne)  # type: ignore[assignment]
    __gt__ = _ProxyLookup(operator.gt)
    __ge__ = _ProxyLookup(operator.ge)
    __hash__ = _ProxyLookup(hash)  # type: ignore[assignment]
    __bool__ = _ProxyLookup(bool, fallback=lambda self: False)
    __getattr__ = _ProxyLookup(getattr)
    # __getattribute__ triggered through __getattr__
    __setattr__ = _ProxyLookup(setattr)  # type: ignore[assignment]
    __delattr__ = _ProxyLookup(delattr)  # type: ignore[assignment]
    __dir__ = _ProxyLookup(dir, fallback=lambda self: [])  # type: ignore[assignment]
    # __get__ (proxying descriptor not supported)
    # __set__ (descriptor)
    # __delete__ (descriptor)
    # __set_name__ (descriptor)
    # __objclass__ (descriptor)
    # __slots__ used by proxy itself
    # __dict__ (__getattr__)
    # __weakref__ (__getattr__)
    # __init_subclass__ (proxying metaclass not supported)
    # __prepare__ (metaclass)
    __class__ = _ProxyLookup(fallback=lambda self: type(self), is_attr=True)  # type: ignore[assignment]
    __instancecheck__ = _ProxyLookup(lambda self, other: isinstance(other, self))
    __subclasscheck__ = _ProxyLookup(lambda self, other: issubclass(other, self))
    # __class_getitem__ triggered through __getitem__
    __call__ = _ProxyLookup(lambda self, *args, **kwargs: self(*args, **kwargs))
    __len__ = _ProxyLookup(len)
    __length_hint__ = _ProxyLookup(operator.length_hint)
    __getitem__ = _ProxyLookup(operator.getitem)
    __setitem__ = _ProxyLookup(operator.setitem)
    __delitem__ = _ProxyLookup(operator.delitem)
    # __missing__ triggered through __getitem__
    __iter__ = _ProxyLookup(iter)
    __next__ = _ProxyLookup(next)
    __reversed__ = _ProxyLookup(reversed)
    __contains__ = _ProxyLookup(operator.contains)
    __add__ = _ProxyLookup(operator.add)
    __sub__ = _ProxyLookup(operator.sub)
    __mul__ = _ProxyLookup(operator.mul)
    __matmul__ = _ProxyLookup(operator.matmul)
    __truediv__ = _ProxyLookup(operator.truediv)
    __floordiv__ = _ProxyLookup(operator.floordiv)
    __mod__ = _ProxyLookup(operator.mod)
    __divmod__ = _ProxyLookup(divmod)
    __pow__ = _ProxyLookup(pow)
    __lshift__ = _ProxyLookup(operator.lshift)
    __rshift__ = _ProxyLookup(operator.rshift)
    __and__ = _ProxyLookup(operator.and_)
    __xor__ = _ProxyLookup(operator.xor)
    __or__ = _ProxyLookup(operator.or_)
    __radd__ = _ProxyLookup(_l_to_r_op(operator.add))
    __rsub__ = _ProxyLookup(_l_to_r_op(operator.sub))
    __rmul__ = _ProxyLookup(_l_to_r_op(operator.mul))
    __rmatmul__ = _ProxyLookup(_l_to_r_op(operator.matmul))
    __rtruediv__ = _ProxyLookup(_l_to_r_op(operator.truediv))
    __rfloordiv__ = _ProxyLookup(_l_to_r_op(operator.floordiv))
    __rmod__ = _ProxyLookup(_l_to_r_op(operator.mod))
    __rdivmod__ = _ProxyLookup(_l_to_r_op(divmod))
    __rpow__ = _ProxyLookup(_l_to_r_op(pow))
    __rlshift__ = _ProxyLookup(_l_to_r_op(operator.lshift))
    __rrshift__ = _ProxyLookup(_l_to_r_op(operator.rshift))
    __rand__ = _ProxyLookup(_l_to_r_op(operator.and_))
    __rxor__ = _ProxyLookup(_l_to_r_op(operator.xor))
    __ror__ = _ProxyLookup(_l_to_r_op(operator.or_))
    __iadd__ = _ProxyIOp(operator.iadd)
    __isub__ = _ProxyIOp(operator.isub)
    __imul__ = _ProxyIOp(operator.imul)
    __imatmul__ = _ProxyIOp(operator.imatmul)
    __itruediv__ = _ProxyIOp(operator.itruediv)
    __ifloordiv__ = _ProxyIOp(operator.ifloordiv)
    __imod__ = _ProxyIOp(operator.imod)
    __ipow__ = _ProxyIOp(operator.ipow)
    __ilshift__ = _ProxyIOp(operator.ilshift)
    __irshift__ = _ProxyIOp(operator.irshift)
    __iand__ = _ProxyIOp(operator.iand)
    __ixor__ = _ProxyIOp(operator.ixor)
    __ior__ = _ProxyIOp(operator.ior)
    __neg__ = _ProxyLookup(operator.neg)
    __pos__ = _ProxyLookup(operator.pos)
    __abs__ = _ProxyLookup(abs)
    __invert__ = _ProxyLookup(operator.invert)
    __complex__ = _ProxyLookup(complex)
    __int__ = _ProxyLookup(int)
    __float__ = _ProxyLookup(float)
    __index__ = _ProxyLookup(operator.index)
    __round__ = _ProxyLookup(round)
    __trunc__ = _ProxyLookup(math.trunc)
    __floor__ = _ProxyLookup(math.floor)
    __ceil__ = _ProxyLookup(math.ceil)
    __enter__ = _ProxyLookup()
    __exit__ = _ProxyLookup()
    __await__ = _ProxyLookup()
    __aiter__ = _ProxyLookup()
    __anext__ = _ProxyLookup()
    __aenter__ = _ProxyLookup()
    __aexit__ = _ProxyLookup()
    __copy__ = _ProxyLookup(copy.copy)
    __deepcopy__ = _ProxyLookup(copy.deepcopy)
    # __getnewargs_ex__ (pickle through proxy not supported)
    # __getnewargs__ (pickle)
    # __getstate__ (pickle)
    # __setstate__ (pickle)
    # __reduce__ (pickle)
    # __reduce_ex__ (pickle)
'''


import asyncio
import contextvars
import copy as _copy
import random
import re
import sys
import threading
import types
from contextvars import ContextVar

import werkzeug.local as new_mod

assert new_mod.__file__.startswith("/tmp/wt10-C18/"), new_mod.__file__


def load_orig():
    src = ORIG_SOURCE.replace("from .wsgi import", "from werkzeug.wsgi import")
    mod = types.ModuleType("orig_local")
    sys.modules["orig_local"] = mod
    exec(compile(src, "orig_local.py", "exec"), mod.__dict__)
    return mod


orig_mod = load_orig()

UNSET = object()
_ADDR = re.compile(r"0x[0-9a-fA-F]+")
_ID = re.compile(r"<\d+>")


class Obj:
    """Small mutable object with attributes, used as a bound value."""

    def __init__(self, tag):
        self.tag = tag
        self.real = ("real", tag)

    def __repr__(self):
        return f"Obj({self.tag!r})"

    def __call__(self, *a):
        return ("called", self.tag, a)

    def __eq__(self, other):
        return isinstance(other, Obj) and other.tag == self.tag

    def __hash__(self):
        return hash(self.tag)


VALUE_SPECS = [
    ("lit", 0),
    ("lit", 1),
    ("lit", 42),
    ("lit", ""),
    ("lit", "abc"),
    ("lit", None),
    ("lit", 3 + 4j),
    ("lit", False),
    ("list", [1, 2]),
    ("list", []),
    ("dict", {"k": 1}),
    ("obj", "o1"),
    ("obj", "o2"),
    ("lit", 2.5),
]


def mk(spec):
    kind, v = spec
    if kind == "obj":
        return Obj(v)
    return _copy.deepcopy(v)


class World:
    def __init__(self, mod):
        self.mod = mod
        self.var_l = ContextVar("l")
        self.var_s = ContextVar("s")
        self.var_c = ContextVar("c")
        self.L = mod.Local(self.var_l)
        self.L2 = mod.Local()
        self.S = mod.LocalStack(self.var_s)
        self.S2 = mod.LocalStack()
        self.mgr = mod.LocalManager([self.L, self.S])
        self.mgr1 = mod.LocalManager(self.L2)
        self.mgr0 = mod.LocalManager()
        L, S = self.L, self.S
        self.proxies = [
            L("a"),
            L("b", unbound_message="nope b"),
            S(),
            S("real", unbound_message="empty stack"),
            mod.LocalProxy(self.var_c),
            mod.LocalProxy(self.var_c, "imag", unbound_message="no c"),
            mod.LocalProxy(lambda: L.a),
            mod.LocalProxy(S),
            mod.LocalProxy(L, "a.real"),
            self.L2("a"),
            self.S2("tag"),
            mod.LocalProxy(lambda: S.top, "real"),
        ]
        self.names = {
            id(self.L): "L",
            id(self.L2): "L2",
            id(self.S): "S",
            id(self.S2): "S2",
            id(self.var_l): "var_l",
            id(self.var_s): "var_s",
            id(self.var_c): "var_c",
        }
        for i, p in enumerate(self.proxies):
            self.names[id(p)] = f"proxy#{i}"
        self.ctxs = [contextvars.copy_context()]

    # -- normalisation -------------------------------------------------
    def norm(self, x, depth=0):
        if id(x) in self.names:
            return self.names[id(x)]
        if isinstance(x, BaseException):
            return (
                "EXC",
                type(x).__name__,
                self.norm(x.args, depth + 1),
                type(x.__cause__).__name__,
                type(x.__context__).__name__,
                x.__suppress_context__,
            )
        ty = type(x)
        if ty in (list, tuple) and depth < 6:
            return (ty.__name__, [self.norm(i, depth + 1) for i in x])
        if ty is dict and depth < 6:
            return ("dict", [(k, self.norm(v, depth + 1)) for k, v in x.items()])
        if issubclass(ty, self.mod.LocalProxy):
            return ("SOMEPROXY", ty.__name__)
        if ty is type:
            name = x.__name__
            return ("type", name)
        r = repr(x)
        r = _ADDR.sub("0x?", r)
        r = _ID.sub("<id>", r)
        r = r.replace("orig_local", "M").replace("werkzeug.local", "M")
        return (ty.__name__, r)

    def snapshot(self, before):
        out = []
        for i, ctx in enumerate(self.ctxs):
            row = []
            for j, var in enumerate((self.var_l, self.var_s, self.var_c)):
                cur = ctx.run(var.get, UNSET)
                prev = before[i][j] if i < len(before) else UNSET
                row.append(
                    (
                        "UNSET" if cur is UNSET else self.norm(cur),
                        cur is prev,
                    )
                )
            # defaults-created locals too
            row.append(ctx.run(lambda: self.norm(list(self.L2))))
            row.append(ctx.run(lambda: self.norm(self.S2.top)))
            out.append(row)
        return out

    def raw(self):
        return [
            [ctx.run(var.get, UNSET) for var in (self.var_l, self.var_s, self.var_c)]
            for ctx in self.ctxs
        ]

    # -- operations ----------------------------------------------------
    def do(self, op):
        kind = op[0]
        L, S = self.L, self.S
        if kind == "lset":
            tgt = self.L2 if op[3] else L
            setattr(tgt, op[1], mk(op[2]))
            return None
        if kind == "lget":
            return getattr(self.L2 if op[2] else L, op[1])
        if kind == "ldel":
            delattr(self.L2 if op[2] else L, op[1])
            return None
        if kind == "liter":
            return list(L)
        if kind == "lrel":
            return L.__release_local__()
        if kind == "push":
            tgt = self.S2 if op[2] else S
            rv = tgt.push(mk(op[1]))
            same = (rv is self.var_s.get()) if not op[2] else None
            return (rv, same, type(rv).__name__)
        if kind == "pop":
            return (self.S2 if op[1] else S).pop()
        if kind == "top":
            return (self.S2 if op[1] else S).top
        if kind == "srel":
            return S.__release_local__()
        if kind == "cleanup":
            return (self.mgr, self.mgr1, self.mgr0)[op[1]].cleanup()
        if kind == "release_local":
            return self.mod.release_local((L, S, self.L2, self.S2)[op[1]])
        if kind == "cset":
            self.var_c.set(mk(op[1]))
            return None
        if kind == "proxy":
            return self.proxy_action(self.proxies[op[1]], op[2])
        raise AssertionError(kind)

    def proxy_action(self, p, action):
        if action == "repr":
            return repr(p)
        if action == "bool":
            return bool(p)
        if action == "gco":
            return p._get_current_object()
        if action == "str":
            return str(p)
        if action == "eq1":
            return p == 1
        if action == "add1":
            return p + 1
        if action == "radd":
            return [0] + p
        if action == "len":
            return len(p)
        if action == "real":
            return p.real
        if action == "setx":
            p.x = 1
            return p.x
        if action == "wrapped":
            return p.__wrapped__
        if action == "class":
            return p.__class__
        if action == "doc":
            d = p.__doc__
            return None if d is None else (len(d), d[:40])
        if action == "iadd":
            q = p
            q += [9]
            return (q is p, type(q) is type(p), q._get_current_object())
        if action == "copy":
            return _copy.copy(p)
        if action == "isinst":
            return (isinstance(p, int), isinstance(p, Obj), isinstance(p, list))
        if action == "dir":
            return dir(p)
        if action == "iter":
            return list(p)
        if action == "call":
            return p(1, 2)
        if action == "getitem":
            return p[0]
        if action == "hash":
            return hash(p)
        if action == "not":
            return not p
        if action == "unbound_call":
            # call the descriptor directly from the class
            return type(p).__repr__(p)
        raise AssertionError(action)

    def run(self, ops):
        trace = []
        for op in ops:
            before = self.raw()
            if op[0] == "fork":
                # child context: snapshot of the parent at creation time
                self.ctxs.append(self.ctxs[op[1]].run(contextvars.copy_context))
                res = ("forked", len(self.ctxs))
            else:
                ctx = self.ctxs[op[-1]]
                try:
                    res = ("OK", self.norm(ctx.run(self.do, op)))
                except Exception as e:  # noqa: BLE001
                    res = self.norm(e)
            trace.append((op, res, self.snapshot(before)))
        return trace


NAMES = ["a", "b", "c"]
PROXY_ACTIONS = [
    "repr", "bool", "gco", "str", "eq1", "add1", "radd", "len", "real", "setx",
    "wrapped", "class", "doc", "iadd", "copy", "isinst", "dir", "iter", "call",
    "getitem", "hash", "not", "unbound_call",
]
N_PROXIES = 12


def gen_ops(rng, n):
    ops = []
    nctx = 1
    for _ in range(n):
        c = rng.randrange(nctx)
        r = rng.random()
        if r < 0.16:
            op = ("lset", rng.choice(NAMES), rng.choice(VALUE_SPECS), rng.random() < 0.15, c)
        elif r < 0.22:
            op = ("lget", rng.choice(NAMES), rng.random() < 0.15, c)
        elif r < 0.30:
            op = ("ldel", rng.choice(NAMES), rng.random() < 0.15, c)
        elif r < 0.33:
            op = ("liter", c)
        elif r < 0.36:
            op = ("lrel", c)
        elif r < 0.48:
            op = ("push", rng.choice(VALUE_SPECS), rng.random() < 0.15, c)
        elif r < 0.57:
            op = ("pop", rng.random() < 0.15, c)
        elif r < 0.60:
            op = ("top", rng.random() < 0.15, c)
        elif r < 0.62:
            op = ("srel", c)
        elif r < 0.65:
            op = ("cleanup", rng.randrange(3), c)
        elif r < 0.68:
            op = ("release_local", rng.randrange(4), c)
        elif r < 0.72:
            op = ("cset", rng.choice(VALUE_SPECS), c)
        elif r < 0.78 and nctx < 6:
            op = ("fork", c)
            nctx += 1
        else:
            op = ("proxy", rng.randrange(N_PROXIES), rng.choice(PROXY_ACTIONS), c)
        ops.append(op)
    return ops


def strip(trace):
    return trace


# ---------------------------------------------------------------------------
# static / constructor checks
# ---------------------------------------------------------------------------
def ctor_checks(mod):
    out = []
    w = World(mod)

    def attempt(f):
        try:
            return ("OK", w.norm(f()))
        except Exception as e:  # noqa: BLE001
            return w.norm(e)

    L, S = w.L, w.S
    cands = [L, S, w.var_c, (lambda: 5), 42, None, "str", int, [1], w.mgr]
    names = [None, "a", "a.b", "", 5, b"a", ("a",)]
    msgs = [None, "custom", ""]
    for loc in cands:
        for nm in names:
            for msg in msgs:
                def make(loc=loc, nm=nm, msg=msg):
                    p = mod.LocalProxy(loc, nm, unbound_message=msg)
                    res = []
                    for act in ("gco", "repr", "bool", "wrapped", "class"):
                        try:
                            res.append(("OK", w.norm(w.proxy_action(p, act))))
                        except Exception as e:  # noqa: BLE001
                            res.append(w.norm(e))
                    return res
                out.append(attempt(make))
    # class-level access through the descriptor
    for attr in ("__doc__", "__repr__", "__wrapped__", "__class__", "__bool__",
                 "__iadd__", "__enter__", "__getattr__", "__copy__"):
        out.append(attempt(lambda attr=attr: getattr(mod.LocalProxy, attr)))
        out.append(attempt(lambda attr=attr: repr(mod.LocalProxy.__dict__[attr])))
        d = mod.LocalProxy.__dict__[attr]
        out.append(attempt(lambda d=d: d.__get__(None, mod.LocalProxy)))
        out.append(attempt(lambda d=d: d.__get__(None)))
        for p in w.proxies[:5]:
            out.append(attempt(lambda d=d, p=p: d.__get__(p)))
            out.append(attempt(lambda d=d, p=p: d.__get__(p, type(p))))
    # bound then the same through every descriptor
    L.a = [1, 2]
    S.push(Obj("x"))
    w.var_c.set(7)
    for attr, d in mod.LocalProxy.__dict__.items():
        if not isinstance(d, mod._ProxyLookup):
            continue
        for p in w.proxies[:5]:
            out.append((attr, attempt(lambda d=d, p=p: d.__get__(p, type(p)))))
    # managers
    for arg in (None, L, S, [L, S], (L,), iter([S]), 5):
        def mkmgr(arg=arg):
            m = mod.LocalManager(arg)
            r = repr(m)
            m.cleanup()
            return (r, len(m.locals))
        out.append(attempt(mkmgr))
    # manager containing something that is not a local -> error propagates,
    # earlier locals already released
    L.a = 1
    S.push(1)
    m = mod.LocalManager([L, object(), S])
    out.append(attempt(m.cleanup))
    out.append(attempt(lambda: (list(L), S.top)))
    # middleware releases after close
    L.a = 5
    S.push(6)

    def app(environ, start_response):
        return [b"x"]

    mw = mod.LocalManager([L, S]).make_middleware(app)
    it = mw({}, lambda *a: None)
    out.append(attempt(lambda: (list(L), S.top)))
    body = list(it)
    it.close()
    out.append(attempt(lambda: (body, list(L), S.top)))
    return out


# ---------------------------------------------------------------------------
# real concurrency: threads and asyncio tasks
# ---------------------------------------------------------------------------
def thread_check(mod, seed, nthreads=4, steps=30):
    L = mod.Local()
    S = mod.LocalStack()
    mgr = mod.LocalManager([L, S])
    pa = L("a")
    ps = S()
    L.a = "main"
    S.push("main")
    results = [None] * nthreads
    barrier = threading.Barrier(nthreads)

    def worker(i):
        rng = random.Random(seed * 1000 + i)
        log = []
        # a new thread starts with an empty context
        log.append((bool(pa), repr(ps), S.top, list(L)))
        barrier.wait()
        for step in range(steps):
            r = rng.random()
            try:
                if r < 0.25:
                    L.a = (i, step)
                elif r < 0.35:
                    del L.a
                elif r < 0.55:
                    S.push((i, step))
                elif r < 0.7:
                    log.append(("pop", S.pop()))
                elif r < 0.75:
                    mgr.cleanup()
                elif r < 0.8:
                    mod.release_local(rng.choice([L, S]))
                else:
                    log.append((repr(pa), bool(ps), S.top))
            except Exception as e:  # noqa: BLE001
                log.append((type(e).__name__, e.args))
            if step % 5 == 0:
                barrier.wait()
            log.append((list(L), S.top))
        results[i] = log

    ts = [threading.Thread(target=worker, args=(i,)) for i in range(nthreads)]
    for th in ts:
        th.start()
    for th in ts:
        th.join()
    return (results, list(L), S.top, repr(pa))


def asyncio_check(mod, seed, ntasks=4, steps=25):
    L = mod.Local()
    S = mod.LocalStack()
    mgr = mod.LocalManager([L, S])
    pa = L("a")
    ps = S()

    async def child(tag, rng, depth):
        log = [("inherit", list(L), S.top, repr(pa), bool(ps))]
        for step in range(steps):
            r = rng.random()
            try:
                if r < 0.25:
                    setattr(L, rng.choice("ab"), (tag, step))
                elif r < 0.35:
                    delattr(L, rng.choice("ab"))
                elif r < 0.5:
                    S.push((tag, step))
                elif r < 0.62:
                    log.append(("pop", S.pop()))
                elif r < 0.66:
                    mgr.cleanup()
                elif r < 0.7:
                    mod.release_local(rng.choice([L, S]))
                elif r < 0.78 and depth < 2:
                    sub = await asyncio.gather(
                        child(f"{tag}.x", random.Random(rng.random()), depth + 1),
                        child(f"{tag}.y", random.Random(rng.random()), depth + 1),
                    )
                    log.append(("sub", sub))
                else:
                    log.append((repr(pa), bool(ps), S.top))
            except Exception as e:  # noqa: BLE001
                log.append((type(e).__name__, e.args))
            await asyncio.sleep(0)
            log.append((list(L), S.top))
        return log

    async def main():
        L.a = "root"
        S.push("root")
        rng = random.Random(seed)
        res = await asyncio.gather(
            *[child(str(i), random.Random(rng.random()), 0) for i in range(ntasks)]
        )
        return (res, list(L), S.top)

    return asyncio.run(main())


def main():
    n_scen = int(sys.argv[1]) if len(sys.argv) > 1 else 3000
    mismatches = 0
    total_ops = 0

    a = ctor_checks(new_mod)
    b = ctor_checks(orig_mod)
    if a != b:
        mismatches += 1
        for i, (x, y) in enumerate(zip(a, b)):
            if x != y:
                print("ctor mismatch", i, x, y)
                break
    print("ctor checks:", len(a))

    for seed in range(n_scen):
        rng = random.Random(seed)
        ops = gen_ops(rng, rng.randrange(20, 60))
        total_ops += len(ops)
        ta = World(new_mod).run(ops)
        tb = World(orig_mod).run(ops)
        if ta != tb:
            mismatches += 1
            for x, y in zip(ta, tb):
                if x != y:
                    print("MISMATCH seed", seed, "\n new:", x[:2], "\n old:", y[:2])
                    if x[:2] == y[:2]:
                        print(" snapshots differ\n", x[2], "\n", y[2])
                    break
            if mismatches > 5:
                break
    print("scenarios:", n_scen, "ops:", total_ops)

    for seed in range(60):
        if thread_check(new_mod, seed) != thread_check(orig_mod, seed):
            mismatches += 1
            print("thread mismatch seed", seed)
    for seed in range(200):
        if asyncio_check(new_mod, seed) != asyncio_check(orig_mod, seed):
            mismatches += 1
            print("asyncio mismatch seed", seed)
    print("thread scenarios: 60, asyncio scenarios: 200")

    print("PASS" if mismatches == 0 else f"FAIL ({mismatches})")
    return 0 if mismatches == 0 else 1


if __name__ == "__main__":
    sys.exit(main())
