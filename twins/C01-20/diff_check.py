"""Differential check (property C01): refactored MultipartDecoder in the
worktree vs. a pasted copy of the ORIGINAL implementation.

Run: cd /tmp/wt15-C01 && PYTHONPATH=/tmp/wt15-C01/src /venv/bin/python diff_check.py
"""
from __future__ import annotations

import random
import re
import typing as t

from werkzeug.datastructures import Headers
from werkzeug.exceptions import RequestEntityTooLarge
from werkzeug.http import parse_options_header
from werkzeug.sansio import multipart as M
from werkzeug.sansio.multipart import (
    BLANK_LINE_RE, Data, Epilogue, Event, Field, File, HEADER_CONTINUATION_RE,
    LINE_BREAK, LINE_BREAK_RE, MultipartDecoder, NEED_DATA, NeedData, Preamble,
    SEARCH_EXTRA_LENGTH, State,
)

assert M.__file__.startswith("/tmp/wt15-C01/"), M.__file__


# ---------------------------------------------------------------- ORIGINAL --
class OrigMultipartDecoder:
    """Decodes a multipart message as bytes into Python events.

    The part data is returned as available to allow the caller to save
    the data from memory to disk, if desired.
    """

    def __init__(
        self,
        boundary: bytes,
        max_form_memory_size: int | None = None,
        *,
        max_parts: int | None = None,
    ) -> None:
        self.buffer = bytearray()
        self.complete = False
        self.max_form_memory_size = max_form_memory_size
        self.max_parts = max_parts
        self.state = State.PREAMBLE
        self.boundary = boundary

        # Note in the below \h i.e. horizontal whitespace is used
        # as [^\S\n\r] as \h isn't supported in python.

        # The preamble must end with a boundary where the boundary is
        # prefixed by a line break, RFC2046. Except that many
        # implementations including Werkzeug's tests omit the line
        # break prefix. In addition the first boundary could be the
        # epilogue boundary (for empty form-data) hence the matching
        # group to understand if it is an epilogue boundary.
        self.preamble_re = re.compile(
            rb"%s?--%s(--[^\S\n\r]*%s?|[^\S\n\r]*%s)"
            % (LINE_BREAK, re.escape(boundary), LINE_BREAK, LINE_BREAK),
            re.MULTILINE,
        )
        # A boundary must include a line break prefix and suffix, and
        # may include trailing whitespace. In addition the boundary
        # could be the epilogue boundary hence the matching group to
        # understand if it is an epilogue boundary.
        self.boundary_re = re.compile(
            rb"%s--%s(--[^\S\n\r]*%s?|[^\S\n\r]*%s)"
            % (LINE_BREAK, re.escape(boundary), LINE_BREAK, LINE_BREAK),
            re.MULTILINE,
        )
        self._search_position = 0
        self._parts_decoded = 0

    def last_newline(self, data: bytes) -> int:
        try:
            last_nl = data.rindex(b"\n")
        except ValueError:
            last_nl = len(data)
        try:
            last_cr = data.rindex(b"\r")
        except ValueError:
            last_cr = len(data)

        return min(last_nl, last_cr)

    def receive_data(self, data: bytes | None) -> None:
        if data is None:
            self.complete = True
        elif (
            self.max_form_memory_size is not None
            and len(self.buffer) + len(data) > self.max_form_memory_size
        ):
            # Ensure that data within single event does not exceed limit.
            # Also checked across accumulated events in MultiPartParser.
            raise RequestEntityTooLarge()
        else:
            self.buffer.extend(data)

    def next_event(self) -> Event:
        event: Event = NEED_DATA

        if self.state == State.PREAMBLE:
            match = self.preamble_re.search(self.buffer, self._search_position)
            if match is not None:
                if match.group(1).startswith(b"--"):
                    self.state = State.EPILOGUE
                else:
                    self.state = State.PART
                data = bytes(self.buffer[: match.start()])
                del self.buffer[: match.end()]
                event = Preamble(data=data)
                self._search_position = 0
            else:
                # Update the search start position to be equal to the
                # current buffer length (already searched) minus a
                # safe buffer for part of the search target.
                self._search_position = max(
                    0, len(self.buffer) - len(self.boundary) - SEARCH_EXTRA_LENGTH
                )

        elif self.state == State.PART:
            match = BLANK_LINE_RE.search(self.buffer, self._search_position)
            if match is not None:
                headers = self._parse_headers(self.buffer[: match.start()])
                # The final header ends with a single CRLF, however a
                # blank line indicates the start of the
                # body. Therefore the end is after the first CRLF.
                headers_end = (match.start() + match.end()) // 2
                del self.buffer[:headers_end]

                if "content-disposition" not in headers:
                    raise ValueError("Missing Content-Disposition header")

                disposition, extra = parse_options_header(
                    headers["content-disposition"]
                )
                name = t.cast(str, extra.get("name"))
                filename = extra.get("filename")
                if filename is not None:
                    event = File(
                        filename=filename,
                        headers=headers,
                        name=name,
                    )
                else:
                    event = Field(
                        headers=headers,
                        name=name,
                    )
                self.state = State.DATA_START
                self._search_position = 0
                self._parts_decoded += 1

                if self.max_parts is not None and self._parts_decoded > self.max_parts:
                    raise RequestEntityTooLarge()
            else:
                # Update the search start position to be equal to the
                # current buffer length (already searched) minus a
                # safe buffer for part of the search target.
                self._search_position = max(0, len(self.buffer) - SEARCH_EXTRA_LENGTH)

        elif self.state == State.DATA_START:
            data, del_index, more_data = self._parse_data(self.buffer, start=True)
            del self.buffer[:del_index]
            event = Data(data=data, more_data=more_data)
            if more_data:
                self.state = State.DATA

        elif self.state == State.DATA:
            data, del_index, more_data = self._parse_data(self.buffer, start=False)
            del self.buffer[:del_index]
            if data or not more_data:
                event = Data(data=data, more_data=more_data)

        elif self.state == State.EPILOGUE and self.complete:
            event = Epilogue(data=bytes(self.buffer))
            del self.buffer[:]
            self.state = State.COMPLETE

        if self.complete and isinstance(event, NeedData):
            raise ValueError(f"Invalid form-data cannot parse beyond {self.state}")

        return event

    def _parse_headers(self, data: bytes) -> Headers:
        headers: list[tuple[str, str]] = []
        # Merge the continued headers into one line
        data = HEADER_CONTINUATION_RE.sub(b" ", data)
        # Now there is one header per line
        for line in data.splitlines():
            line = line.strip()

            if line != b"":
                name, _, value = line.decode().partition(":")
                headers.append((name.strip(), value.strip()))
        return Headers(headers)

    def _parse_data(self, data: bytes, *, start: bool) -> tuple[bytes, int, bool]:
        # Body parts must start with CRLF (or CR or LF)
        if start:
            match = LINE_BREAK_RE.match(data)
            data_start = t.cast(t.Match[bytes], match).end()
        else:
            data_start = 0

        boundary = b"--" + self.boundary

        if self.buffer.find(boundary) == -1:
            # No complete boundary in the buffer, but there may be
            # a partial boundary at the end. As the boundary
            # starts with either a nl or cr find the earliest and
            # return up to that as data.
            data_end = del_index = self.last_newline(data[data_start:]) + data_start
            # If amount of data after last newline is far from
            # possible length of partial boundary, we should
            # assume that there is no partial boundary in the buffer
            # and return all pending data.
            if (len(data) - data_end) > len(b"\n" + boundary):
                data_end = del_index = len(data)
            more_data = True
        else:
            match = self.boundary_re.search(data)
            if match is not None:
                if match.group(1).startswith(b"--"):
                    self.state = State.EPILOGUE
                else:
                    self.state = State.PART
                data_end = match.start()
                del_index = match.end()
            else:
                data_end = del_index = self.last_newline(data[data_start:]) + data_start
            more_data = match is None

        return bytes(data[data_start:data_end]), del_index, more_data



# ------------------------------------------------------------------ HARNESS --
NLS = [b"\r\n", b"\n", b"\r"]


def rand_payload(rng, boundary):
    pieces = []
    for _ in range(rng.randint(0, 6)):
        k = rng.random()
        if k < 0.25:
            pieces.append(bytes(rng.choice(b"ab \t-") for _ in range(rng.randint(0, 30))))
        elif k < 0.45:
            pieces.append(rng.choice(NLS))
        elif k < 0.6:
            # partial / near boundary
            full = rng.choice(NLS) + b"--" + boundary
            pieces.append(full[: rng.randint(0, len(full) - 1)])
        elif k < 0.7:
            pieces.append(b"--" + boundary[: rng.randint(0, len(boundary))] + b"x")
        elif k < 0.8:
            pieces.append(bytes(rng.randrange(256) for _ in range(rng.randint(0, 40))))
        elif k < 0.9:
            pieces.append(b"x" * rng.randint(30, 120))
        else:
            pieces.append(rng.choice([b"\r\r", b"\n\n", b"\r\n\r\n", b"--", b"\r\n--"]))
    return b"".join(pieces)


def rand_body(rng):
    boundary = rng.choice([b"b", b"bound", b"----WebKitFormBoundaryX7", b"a.b+c", b"--", b"0123456789" * 4])
    nl = rng.choice(NLS) if rng.random() < 0.3 else b"\r\n"
    out = []
    if rng.random() < 0.3:
        out.append(rand_payload(rng, boundary) if rng.random() < 0.5 else b"preamble text")
        out.append(nl)
    nparts = rng.randint(0, 4)
    for i in range(nparts):
        out.append(b"--" + boundary + rng.choice([b"", b" ", b"\t "]) + nl)
        r = rng.random()
        if r < 0.08:
            out.append(b"Content-Type: text/plain" + nl)
        elif r < 0.55:
            out.append(b'Content-Disposition: form-data; name="f%d"' % i + nl)
        else:
            out.append(b'Content-Disposition: form-data; name="f%d"; filename="n%d.txt"' % (i, i) + nl)
            out.append(b"Content-Type: text/plain;" + nl + b"\t charset=utf-8" + nl)
        if rng.random() < 0.2:
            out.append(b"X-Long: " + b"h" * rng.randint(0, 80) + nl)
        out.append(nl)
        out.append(rand_payload(rng, boundary))
        out.append(nl)
    out.append(b"--" + boundary + b"--" + rng.choice([b"", nl, b" " + nl]))
    if rng.random() < 0.3:
        out.append(rng.choice([b"epilogue", rand_payload(rng, boundary)]))
    body = b"".join(out)
    r = rng.random()
    if r < 0.15:  # truncate
        body = body[: rng.randint(0, len(body))]
    elif r < 0.25 and body:  # mutate a byte
        i = rng.randrange(len(body))
        body = body[:i] + bytes([rng.randrange(256)]) + body[i + 1 :]
    elif r < 0.3:
        body = bytes(rng.choice(b"\r\n-b x") for _ in range(rng.randint(0, 80)))
    return boundary, body


def chunkings(rng, body):
    yield [body]
    yield [body[i : i + 1] for i in range(len(body))]
    for _ in range(3):
        chunks, i = [], 0
        hi = rng.choice([2, 5, 17, 64])
        while i < len(body):
            n = rng.randint(1, hi)
            chunks.append(body[i : i + n])
            i += n
        yield chunks


def ev_repr(ev):
    if isinstance(ev, (Field, File)):
        return (type(ev).__name__, ev.name, getattr(ev, "filename", None), list(ev.headers))
    if isinstance(ev, Data):
        return ("Data", ev.data, ev.more_data)
    if isinstance(ev, (Preamble, Epilogue)):
        return (type(ev).__name__, ev.data)
    return (type(ev).__name__,)


def snap(dec):
    return (dec.state, bytes(dec.buffer), dec._search_position, dec._parts_decoded, dec.complete)


def run(cls, boundary, chunks, kw):
    dec = cls(boundary, **kw)
    trace = []
    try:
        for chunk in list(chunks) + [None]:
            dec.receive_data(chunk)
            trace.append(("recv", snap(dec)))
            for _ in range(10000):
                ev = dec.next_event()
                trace.append((ev_repr(ev), snap(dec)))
                if isinstance(ev, (NeedData, Epilogue)):
                    break
    except Exception as e:  # noqa: B902
        trace.append(("EXC", type(e).__name__, str(e), snap(dec)))
    return trace


def unit_checks(rng):
    """Direct calls of last_newline / _parse_data on arbitrary buffers."""
    n = 0
    for _ in range(6000):
        boundary = rng.choice([b"b", b"bound", b"xyzxyz", b"--"])
        data = rand_payload(rng, boundary)
        if rng.random() < 0.5:
            data = rng.choice(NLS) + data
        if rng.random() < 0.4:
            data += rng.choice(NLS) + b"--" + boundary + rng.choice([b"--", b"\r\n", b"--\r\n", b" \n", b"", b"-"])
            data += rand_payload(rng, boundary) if rng.random() < 0.3 else b""
        res = []
        for cls in (OrigMultipartDecoder, MultipartDecoder):
            r = []
            d = cls(boundary)
            r.append(d.last_newline(data))
            r.append(d.last_newline(bytearray(data)))
            for start in (False, True):
                for same in (True, False):
                    d = cls(boundary)
                    d.state = State.DATA
                    d.buffer = bytearray(data)
                    arg = d.buffer if same else bytes(data)
                    try:
                        r.append((d._parse_data(arg, start=start), d.state, bytes(d.buffer)))
                    except Exception as e:  # noqa: B902
                        r.append(("EXC", type(e).__name__, d.state, bytes(d.buffer)))
            res.append(r)
        assert res[0] == res[1], (boundary, data, res)
        n += 1
    return n


def main():
    rng = random.Random(20240101)
    n_unit = unit_checks(rng)
    n = 0
    for i in range(2500):
        boundary, body = rand_body(rng)
        kws = [{}]
        if i % 5 == 0:
            kws.append({"max_form_memory_size": rng.randint(1, 200)})
        if i % 7 == 0:
            kws.append({"max_parts": rng.randint(0, 3)})
        for chunks in chunkings(rng, body):
            for kw in kws:
                a = run(OrigMultipartDecoder, boundary, chunks, kw)
                b = run(MultipartDecoder, boundary, chunks, kw)
                if a != b:
                    print("FAIL", boundary, body, chunks, kw)
                    for x, y in zip(a, b):
                        if x != y:
                            print(" orig:", x)
                            print(" new :", y)
                            break
                    raise SystemExit(1)
                n += 1
    print(f"PASS ({n_unit} unit cases, {n} decode runs identical)")


if __name__ == "__main__":
    main()
