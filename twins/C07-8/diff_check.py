"""Differential check for refactoring 2
(werkzeug.datastructures.auth.Authorization.from_header).

The refactored classmethod of the worktree is compared against a verbatim copy
of the ORIGINAL implementation on generated Authorization header values
(valid / broken base64, non-ASCII, tokens, parameter lists, odd whitespace).
Compared: None-ness, type, parameters dict (incl. key order), token, and the
type of any raised exception.  A second pass goes through the lazily parsed
``Request.authorization`` attribute.
"""
import base64
import random

from werkzeug.datastructures import Authorization
from werkzeug.http import parse_dict_header
from werkzeug.sansio.request import Request as SansIORequest
from werkzeug.datastructures import Headers


# ---- ORIGINAL implementation (verbatim from the unmodified tree) ----
def orig_from_header(cls, value):
    if not value:
        return None

    scheme, _, rest = value.partition(" ")
    scheme = scheme.lower()
    rest = rest.strip()

    if scheme == "basic":
        try:
            username, _, password = base64.b64decode(rest).decode().partition(":")
        except ValueError:
            return None

        return cls(scheme, {"username": username, "password": password})

    if "=" in rest.rstrip("="):
        # = that is not trailing, this is parameters.
        return cls(scheme, parse_dict_header(rest), None)

    # No = or only trailing =, this is a token.
    return cls(scheme, None, rest)


# ----------------------------------------------------------------------


def outcome(func, *args):
    try:
        rv = func(*args)
    except Exception as e:  # noqa: BLE001
        return ("EXC", type(e), str(e))
    if rv is None:
        return ("NONE",)
    return (
        "OK",
        type(rv),
        rv.type,
        type(rv.parameters),
        list(rv.parameters.items()),
        rv.token,
    )


SCHEMES = [
    "Basic", "basic", "BASIC", "bAsIc", "Basic ", " Basic", "Basi", "Basicx", "Bearer",
    "Digest", "digest", "Negotiate", "", "Token", "Basic\t", "Bası", "BAſIC", "İ",
]
B64CHARS = "ABCDEFGHIJKLMNOPQRSTUVWXYZabcdefghijklmnopqrstuvwxyz0123456789+/"
JUNK = "=:-_ \t\n\r.,;\"'\\%é\x00\x80ÿ€\U0001f600"
PARAM_ATOMS = [
    "username", "realm", "nonce", "uri", "qop", "nc", "a", "=", "==", ",", ", ", '"', " ",
    '"x y"', '"a\\"b"', "auth", "00000001", "*", "title*", "UTF-8''%e2%82%ac", "''", "%",
    "utf-8'en'x", ";", "\t", "é", "=\"", "\"=", "abc=", "=abc", "a=b", "a=\"b\"", "\\",
]


def rand_bytes(rng):
    kind = rng.random()
    n = rng.randint(0, 12)
    if kind < 0.5:
        body = "".join(rng.choice("abcxyz019:: ") for _ in range(n)).encode()
    elif kind < 0.75:
        body = "".join(rng.choice("aé€:\U0001f600") for _ in range(n)).encode()
    else:
        body = bytes(rng.randrange(256) for _ in range(n))
    return body


def gen(rng):
    scheme = rng.choice(SCHEMES)
    sep = rng.choice([" ", " ", " ", "  ", "", "\t", " \t "])
    kind = rng.random()
    if kind < 0.35:
        rest = base64.b64encode(rand_bytes(rng)).decode("ascii")
        m = rng.random()
        if m < 0.15:
            rest = rest.rstrip("=")
        elif m < 0.3 and rest:
            i = rng.randrange(len(rest))
            rest = rest[:i] + rng.choice(JUNK + B64CHARS) + rest[i + rng.randint(0, 1):]
        elif m < 0.4:
            rest = rest + rng.choice(["=", "==", " ", "\n", "A", "é", "=A"])
        elif m < 0.45:
            rest = rng.choice([" ", "\t", "="]) + rest
    elif kind < 0.55:
        rest = "".join(
            rng.choice(B64CHARS + JUNK) for _ in range(rng.randint(0, 16))
        )
    elif kind < 0.9:
        rest = "".join(rng.choice(PARAM_ATOMS) for _ in range(rng.randint(0, 8)))
    else:
        rest = "".join(rng.choice(B64CHARS) for _ in range(rng.randint(0, 9))) + rng.choice(
            ["", "=", "==", "===", "=a"]
        )
    return scheme + sep + rest


def main():
    rng = random.Random(7072)
    fixed = [
        None, "", " ", "Basic", "Basic ", "Basic  ", "basic =", "basic ====", "Basic Og==",
        "Basic dXNlcjpwYXNz", "Basic dXNlcjpwYXNz ", "Basic dXNlcg==", "Basic dXNlcg",
        "Basic /w==", "Basic é", "Basic a", "Basic ab", "Basic abc", "Basic abcd",
        "Basic dTpwOnE6cg==", "Bearer abc", "Bearer abc=", "Bearer a=b", "Bearer =",
        'Digest username="u", realm="r", nonce="n", uri="/", response="x"',
        "Digest a=b,c", "Digest a", "Digest =a", "x", "x y z", " x", "\tBasic QQ==",
        'Digest title*=UTF-8\'\'%e2%82%ac', "Digest title*=x", "Digest a*=''%ff",
        "Digest a*=bogus'x'%41",
    ]
    inputs = fixed + [gen(rng) for _ in range(25000)]

    counts = {}
    for value in inputs:
        a = outcome(orig_from_header, Authorization, value)
        b = outcome(Authorization.from_header, value)
        if a != b:
            print("MISMATCH", repr(value), a, b)
            print("FAIL")
            return 1
        key = a[0] if a[0] != "OK" else ("OK", a[2] == "basic", a[5] is None)
        counts[key] = counts.get(key, 0) + 1

    # through the lazily parsed request attribute
    n_req = 0
    for value in inputs:
        if value is None or "\n" in value or "\r" in value:
            continue
        req = SansIORequest(
            "GET", "http", None, "", "/", b"", Headers([("Authorization", value)]), None
        )
        a = outcome(orig_from_header, Authorization, req.headers.get("Authorization"))
        b = outcome(lambda: req.authorization)
        if a != b:
            print("MISMATCH(request)", repr(value), a, b)
            print("FAIL")
            return 1
        n_req += 1

    print(f"compared {len(inputs)} header values (+{n_req} via Request.authorization)")
    print("outcome classes:", counts)
    print("PASS")
    return 0


if __name__ == "__main__":
    raise SystemExit(main())
