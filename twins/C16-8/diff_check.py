"""Differential check for refactoring 2 (C16): datastructures.cache_control
(cache_control_property doc generation, _CacheControl._get_cache_value,
_CacheControl._set_cache_value).

The ORIGINAL implementation is pasted below (Orig*) and compared with the classes
imported from the worktree on random mutation sequences.  After every step the
dict contents (in order), the serialised header, the number of on_update
notifications, the written-back header text and the result / exception type are
compared.  Prints PASS only if everything is identical.
"""
from __future__ import annotations

import itertools
import random
import sys
import typing as t
from inspect import cleandoc

from werkzeug import http
from werkzeug.datastructures import Headers
from werkzeug.datastructures import RequestCacheControl
from werkzeug.datastructures import ResponseCacheControl
from werkzeug.datastructures.cache_control import _CacheControl
from werkzeug.datastructures.cache_control import cache_control_property
from werkzeug.datastructures.mixins import ImmutableDictMixin
from werkzeug.datastructures.structures import CallbackDict


# --------------------------------------------------------------------------
# ORIGINAL implementation (verbatim copy from the unmodified tree)
# --------------------------------------------------------------------------
def orig_cache_control_property(key, empty, type, *, doc=None):
    if doc is None:
        parts = [f"The ``{key}`` attribute."]

        if type is bool:
            parts.append("A ``bool``, either present or not.")
        else:
            if type is None:
                parts.append("A ``str``,")
            else:
                parts.append(f"A ``{type.__name__}``,")

            if empty is not None:
                parts.append(f"``{empty!r}`` if present with no value,")

            parts.append("or ``None`` if not present.")

        doc = " ".join(parts)

    return property(
        lambda x: x._get_cache_value(key, empty, type),
        lambda x, v: x._set_cache_value(key, v, type),
        lambda x: x._del_cache_value(key),
        doc=cleandoc(doc),
    )


class Orig_CacheControl(CallbackDict):
    no_store = orig_cache_control_property("no-store", None, bool)
    max_age = orig_cache_control_property("max-age", None, int)
    no_transform = orig_cache_control_property("no-transform", None, bool)
    stale_if_error = orig_cache_control_property("stale-if-error", None, int)

    def __init__(self, values=(), on_update=None):
        super().__init__(values, on_update)
        self.provided = values is not None

    def _get_cache_value(self, key, empty, type):
        """Used internally by the accessor properties."""
        if type is bool:
            return key in self

        if key not in self:
            return None

        if (value := self[key]) is None:
            return empty

        if type is not None:
            try:
                value = type(value)
            except ValueError:
                return None

        return value

    def _set_cache_value(self, key, value, type):
        """Used internally by the accessor properties."""
        if type is bool:
            if value:
                self[key] = None
            else:
                self.pop(key, None)
        elif value is None or value is False:
            self.pop(key, None)
        elif value is True:
            self[key] = None
        else:
            if type is not None:
                value = type(value)

            self[key] = str(value)

    def _del_cache_value(self, key):
        """Used internally by the accessor properties."""
        if key in self:
            del self[key]

    def to_header(self):
        return http.dump_header(self)

    def __str__(self):
        return self.to_header()

    def __repr__(self):
        kv_str = " ".join(f"{k}={v!r}" for k, v in sorted(self.items()))
        return f"<{type(self).__name__} {kv_str}>"

    cache_property = staticmethod(orig_cache_control_property)


class OrigRequestCacheControl(ImmutableDictMixin, Orig_CacheControl):
    no_cache = orig_cache_control_property("no-cache", None, bool)
    max_stale = orig_cache_control_property("max-stale", True, int)
    min_fresh = orig_cache_control_property("min-fresh", None, int)
    only_if_cached = orig_cache_control_property("only-if-cached", None, bool)


class OrigResponseCacheControl(Orig_CacheControl):
    no_cache = orig_cache_control_property("no-cache", True, None)
    public = orig_cache_control_property("public", None, bool)
    private = orig_cache_control_property("private", True, None)
    must_revalidate = orig_cache_control_property("must-revalidate", None, bool)
    proxy_revalidate = orig_cache_control_property("proxy-revalidate", None, bool)
    s_maxage = orig_cache_control_property("s-maxage", None, int)
    immutable = orig_cache_control_property("immutable", None, bool)
    must_understand = orig_cache_control_property("must-understand", None, bool)
    stale_while_revalidate = orig_cache_control_property(
        "stale-while-revalidate", None, int
    )


# --------------------------------------------------------------------------
# extension types used to exercise the `type` parameter
# --------------------------------------------------------------------------
class Picky:
    """Conversion type raising different exception classes."""

    def __init__(self, v):
        s = str(v)
        if "ve" in s:
            raise ValueError(s)
        if "te" in s:
            raise TypeError(s)
        if "ke" in s:
            raise KeyError(s)
        self.s = s

    def __str__(self):
        return f"P<{self.s}>"

    def __repr__(self):
        return f"Picky({self.s!r})"


class Weird:
    """Value with odd truthiness / str behaviour."""

    def __init__(self, truth, text):
        self.truth = truth
        self.text = text

    def __bool__(self):
        if self.truth is None:
            raise RuntimeError("no truth")
        return self.truth

    def __str__(self):
        if self.text is None:
            raise LookupError("no text")
        return self.text

    def __int__(self):
        return 7

    def __float__(self):
        return 7.5

    def __repr__(self):
        return f"Weird({self.truth!r}, {self.text!r})"


EXT = [
    ("x-str", None, None),
    ("x-str-e", "*", None),
    ("x-bool", None, bool),
    ("x-bool-e", "ignored", bool),
    ("x-int", -1, int),
    ("x-float", 0.5, float),
    ("x-picky", "empty", Picky),
    ("max-age", True, str),  # aliases a builtin key with another type
]


def build_ext(base, propfunc):
    ns = {}
    for key, empty, typ in EXT:
        ns["e_" + key.replace("-", "_") + "_" + str(len(ns))] = propfunc(key, empty, typ)
    return type("Ext" + base.__name__, (base,), ns)


ExtOrigResp = build_ext(OrigResponseCacheControl, orig_cache_control_property)
ExtNewResp = build_ext(ResponseCacheControl, cache_control_property)
ExtOrigReq = build_ext(OrigRequestCacheControl, orig_cache_control_property)
ExtNewReq = build_ext(RequestCacheControl, cache_control_property)


def prop_names(cls):
    names = []
    for klass in cls.__mro__:
        for k, v in vars(klass).items():
            if isinstance(v, property) and k not in names:
                names.append(k)
    return sorted(names)


def rand_value(rng: random.Random):
    k = rng.randrange(16)
    if k == 0:
        return None
    if k == 1:
        return True
    if k == 2:
        return False
    if k == 3:
        return rng.randrange(-3, 10**6)
    if k == 4:
        return str(rng.randrange(-3, 10**6))
    if k == 5:
        return rng.choice(["", "*", "abc", "a b", 'q"uote', "1.5", " 12 ", "ve", "te", "ke", "x,y"])
    if k == 6:
        return rng.choice([0, 1, 0.0, 1.0, 2.75, -0.0])
    if k == 7:
        return rng.choice([[], [1], (), ("a",), {}, {"a": 1}, b"", b"12"])
    if k == 8:
        return Weird(rng.choice([True, False, None]), rng.choice(["w", "", None, "15"]))
    if k == 9:
        return Picky(rng.choice(["ok", "1"]))
    if k == 10:
        return rng.choice([float("nan"), float("inf"), 10**30, "١٢"])
    if k == 11:
        return rng.choice([1, 0])  # == True/False but not identical
    if k == 12:
        return object
    return rng.choice(["0", "false", "True", "no-cache", "5", "-1"])


HEADERS = [
    None,
    "",
    "no-cache",
    "no-cache=field",
    "max-age=3600, public",
    "max-age=abc, s-maxage=, private",
    "private=\"a, b\", must-revalidate",
    "max-stale, min-fresh=5, only-if-cached",
    "max-stale=10, no-store, no-transform",
    "x-int=12, x-float=1.5e3, x-picky=ve, x-bool, x-str",
    "x-picky=te",
    "x-picky=ke",
    "x-int, x-float=zz, x-str-e, x-picky",
    "immutable, stale-while-revalidate=60, stale-if-error=abc, must-understand",
    "MAX-AGE=5, Public",
]


def state(cc, headers, calls):
    return (
        list(cc.items()),
        cc.to_header(),
        str(cc),
        repr(cc).split(" ", 1)[1],
        cc.provided,
        bool(cc),
        list(headers),
        calls[0],
    )


def make(cls, header):
    headers = Headers()
    if header is not None:
        headers["Cache-Control"] = header
    calls = [0]

    # copy of the ORIGINAL Response.cache_control write-back closure
    def on_update(cache_control):
        calls[0] += 1
        if not cache_control and "cache-control" in headers:
            del headers["cache-control"]
        elif cache_control:
            headers["Cache-Control"] = cache_control.to_header()

    cc = http.parse_cache_control_header(headers.get("cache-control"), on_update, cls)
    return cc, headers, calls


def norm(v):
    return (type(v).__name__, repr(v))


def step(cc, op, name, value):
    try:
        if op == "get":
            return ("ok", norm(getattr(cc, name)))
        if op == "set":
            setattr(cc, name, value)
            return ("ok", None)
        if op == "del":
            delattr(cc, name)
            return ("ok", None)
        if op == "item":
            cc[name.replace("_", "-")] = value if value is None else str(value)
            return ("ok", None)
        if op == "clear":
            cc.clear()
            return ("ok", None)
        raise AssertionError(op)
    except BaseException as e:  # noqa: BLE001
        # class names differ only by the "Orig" prefix of the pasted copy
        return ("exc", type(e).__name__, str(e).replace("Orig", ""))


def main() -> int:
    assert issubclass(ResponseCacheControl, _CacheControl)
    mismatches = 0
    checks = 0

    # 1. generated documentation (part of the property object)
    keys = ["max-age", "x", "no-cache"]
    empties = [None, True, "*", -1, 0, ""]
    types = [None, bool, int, float, str, Picky]
    docs = [None, "custom doc", "  indented\n    doc\n", ""]
    for key, empty, typ, doc in itertools.product(keys, empties, types, docs):
        a = orig_cache_control_property(key, empty, typ, doc=doc)
        b = cache_control_property(key, empty, typ, doc=doc)
        checks += 1
        if a.__doc__ != b.__doc__:
            mismatches += 1
            print("DOC MISMATCH", key, empty, typ, doc, a.__doc__, b.__doc__)
    for o_cls, n_cls in [
        (OrigRequestCacheControl, RequestCacheControl),
        (OrigResponseCacheControl, ResponseCacheControl),
        (ExtOrigResp, ExtNewResp),
    ]:
        if prop_names(o_cls) != prop_names(n_cls):
            mismatches += 1
            print("PROP NAME MISMATCH", o_cls)
        for name in prop_names(o_cls):
            checks += 1
            if getattr(o_cls, name).__doc__ != getattr(n_cls, name).__doc__:
                mismatches += 1
                print("DOC MISMATCH", o_cls, name)

    # 2. random mutation sequences
    rng = random.Random(160002)
    pairs = [(ExtOrigResp, ExtNewResp)] * 4 + [(ExtOrigReq, ExtNewReq)]
    for case in range(5000):
        o_cls, n_cls = rng.choice(pairs)
        header = rng.choice(HEADERS)
        o, oh, oc = make(o_cls, header)
        n, nh, nc = make(n_cls, header)
        names = prop_names(o_cls)
        if state(o, oh, oc) != state(n, nh, nc):
            mismatches += 1
            print("INIT MISMATCH", header)
        # initial read of every property
        for name in names:
            ro, rn = step(o, "get", name, None), step(n, "get", name, None)
            checks += 1
            if ro != rn:
                mismatches += 1
                print("GET MISMATCH", header, name, ro, rn)
        for _ in range(rng.randrange(1, 15)):
            op = rng.choice(["get", "set", "set", "set", "del", "item", "clear"])
            if op == "clear" and rng.random() < 0.7:
                op = "set"
            name = rng.choice(names)
            value = rand_value(rng)
            ro = step(o, op, name, value)
            rn = step(n, op, name, value)
            checks += 1
            so, sn = state(o, oh, oc), state(n, nh, nc)
            if ro != rn or so != sn:
                mismatches += 1
                if mismatches < 10:
                    print("MISMATCH", case, header, op, name, repr(value))
                    print("   ", ro, rn)
                    print("   ", so)
                    print("   ", sn)
            # re-reading from the written-back header yields an equal view
            o2 = http.parse_cache_control_header(oh.get("cache-control"), None, o_cls)
            n2 = http.parse_cache_control_header(nh.get("cache-control"), None, n_cls)
            if list(o2.items()) != list(n2.items()):
                mismatches += 1
                print("REPARSE MISMATCH", case)

    print(f"checks={checks} mismatches={mismatches}")
    if mismatches == 0 and checks > 3000:
        print("PASS")
        return 0
    print("FAIL")
    return 1


if __name__ == "__main__":
    sys.exit(main())
