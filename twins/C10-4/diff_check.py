"""Differential check for refactoring 1 (C10).

Compares the refactored MultipartDecoder.receive_data / next_event from the
worktree against a verbatim copy of the ORIGINAL implementations on generated
multipart bodies, chunkings and limit configurations.

Run: cd /tmp/wt6-C10 && PYTHONPATH=/tmp/wt6-C10/src /venv/bin/python /tmp/twin4-C10/1/diff_check.py
"""
from __future__ import annotations

import random
import sys
import typing as t

from werkzeug.exceptions import RequestEntityTooLarge
from werkzeug.http import parse_options_header
from werkzeug.sansio import multipart as M
from werkzeug.sansio.multipart import BLANK_LINE_RE
from werkzeug.sansio.multipart import Data
from werkzeug.sansio.multipart import Epilogue
from werkzeug.sansio.multipart import Event
from werkzeug.sansio.multipart import Field
from werkzeug.sansio.multipart import File
from werkzeug.sansio.multipart import MultipartDecoder
from werkzeug.sansio.multipart import NEED_DATA
from werkzeug.sansio.multipart import NeedData
from werkzeug.sansio.multipart import Preamble
from werkzeug.sansio.multipart import SEARCH_EXTRA_LENGTH
from werkzeug.sansio.multipart import State


class OriginalDecoder(MultipartDecoder):
    """receive_data and next_event pasted from the unmodified tree."""

    def receive_data(self, data: bytes | None) -> None:
        if data is None:
            self.complete = True
        elif (
            self.max_form_memory_size is not None
            and len(self.buffer) + len(data) > self.max_form_memory_size
        ):
            # Ensure that data within single event does not exceed limit.
            # Also checked across accumulated events in MultiPartParser.
            raise RequestEntityTooLarge()
        else:
            self.buffer.extend(data)

    def next_event(self) -> Event:
        event: Event = NEED_DATA

        if self.state == State.PREAMBLE:
            match = self.preamble_re.search(self.buffer, self._search_position)
            if match is not None:
                if match.group(1).startswith(b"--"):
                    self.state = State.EPILOGUE
                else:
                    self.state = State.PART
                data = bytes(self.buffer[: match.start()])
                del self.buffer[: match.end()]
                event = Preamble(data=data)
                self._search_position = 0
            else:
                # Update the search start position to be equal to the
                # current buffer length (already searched) minus a
                # safe buffer for part of the search target.
                self._search_position = max(
                    0, len(self.buffer) - len(self.boundary) - SEARCH_EXTRA_LENGTH
                )

        elif self.state == State.PART:
            match = BLANK_LINE_RE.search(self.buffer, self._search_position)
            if match is not None:
                headers = self._parse_headers(self.buffer[: match.start()])
                # The final header ends with a single CRLF, however a
                # blank line indicates the start of the
                # body. Therefore the end is after the first CRLF.
                headers_end = (match.start() + match.end()) // 2
                del self.buffer[:headers_end]

                if "content-disposition" not in headers:
                    raise ValueError("Missing Content-Disposition header")

                disposition, extra = parse_options_header(
                    headers["content-disposition"]
                )
                name = t.cast(str, extra.get("name"))
                filename = extra.get("filename")
                if filename is not None:
                    event = File(
                        filename=filename,
                        headers=headers,
                        name=name,
                    )
                else:
                    event = Field(
                        headers=headers,
                        name=name,
                    )
                self.state = State.DATA_START
                self._search_position = 0
                self._parts_decoded += 1

                if self.max_parts is not None and self._parts_decoded > self.max_parts:
                    raise RequestEntityTooLarge()
            else:
                # Update the search start position to be equal to the
                # current buffer length (already searched) minus a
                # safe buffer for part of the search target.
                self._search_position = max(0, len(self.buffer) - SEARCH_EXTRA_LENGTH)

        elif self.state == State.DATA_START:
            data, del_index, more_data = self._parse_data(self.buffer, start=True)
            del self.buffer[:del_index]
            event = Data(data=data, more_data=more_data)
            if more_data:
                self.state = State.DATA

        elif self.state == State.DATA:
            data, del_index, more_data = self._parse_data(self.buffer, start=False)
            del self.buffer[:del_index]
            if data or not more_data:
                event = Data(data=data, more_data=more_data)

        elif self.state == State.EPILOGUE and self.complete:
            event = Epilogue(data=bytes(self.buffer))
            del self.buffer[:]
            self.state = State.COMPLETE

        if self.complete and isinstance(event, NeedData):
            raise ValueError(f"Invalid form-data cannot parse beyond {self.state}")

        return event


# The refactored class must really be the worktree one and must differ in source.
assert MultipartDecoder.receive_data is not OriginalDecoder.receive_data
assert M.__file__.startswith("/tmp/wt6-C10/"), M.__file__

NLS = [b"\r\n", b"\r\n", b"\r\n", b"\n", b"\r"]
ALPHA = b"abcdefghijklmnopqrstuvwxyz0123456789 \r\n-=;:\"\t\xc3\xa9"


def rand_bytes(rng: random.Random, n: int) -> bytes:
    return bytes(rng.choice(ALPHA) for _ in range(n))


def gen_body(rng: random.Random) -> tuple[bytes, bytes]:
    boundary = rng.choice(
        [b"b", b"boundary", b"----WebKitFormBoundaryAbC123", b"a.b+c", b"xx--yy"]
    )
    nl = rng.choice(NLS)
    out = bytearray()
    if rng.random() < 0.3:
        out += rand_bytes(rng, rng.randrange(0, 30))
        if rng.random() < 0.7:
            out += nl
    nparts = rng.choice([0, 0, 1, 1, 2, 3, 4, 5, 7, 12])
    for i in range(nparts):
        out += b"--" + boundary
        if rng.random() < 0.1:
            out += b"  \t"
        out += nl
        kind = rng.random()
        name = rng.choice(["a", "field", "f%d" % i, "n\xe9", ""])
        if kind < 0.08:
            # missing content-disposition
            out += b"Content-Type: text/plain" + nl
        elif kind < 0.55:
            out += ('Content-Disposition: form-data; name="%s"' % name).encode() + nl
            if rng.random() < 0.3:
                out += b"Content-Type: text/plain; charset=" + rng.choice(
                    [b"utf-8", b"iso-8859-1", b"ascii", b"bogus"]
                ) + nl
        elif kind < 0.6:
            out += ("Content-Disposition: form-data").encode() + nl
        elif kind < 0.65:
            # header continuation
            out += (
                'Content-Disposition: form-data;%s name="%s"'
                % (nl.decode() + " ", name)
            ).encode() + nl
        else:
            fn = rng.choice(["x.txt", "", "a b.bin", "\xe9.png"])
            out += (
                'Content-Disposition: form-data; name="%s"; filename="%s"'
                % (name, fn)
            ).encode() + nl
            if rng.random() < 0.6:
                out += b"Content-Type: application/octet-stream" + nl
            if rng.random() < 0.2:
                out += b"Content-Length: " + rng.choice([b"3", b"x", b"-1"]) + nl
        if rng.random() < 0.04:
            # no blank line: malformed
            pass
        else:
            out += nl
        size = rng.choice([0, 0, 1, 3, 10, 25, 60, 150, 400])
        out += rand_bytes(rng, size)
        if rng.random() < 0.05:
            # embed something boundary-like
            out += b"\r\n--" + boundary[: max(1, len(boundary) // 2)]
        out += nl
    r = rng.random()
    if r < 0.8:
        out += b"--" + boundary + b"--"
        if rng.random() < 0.8:
            out += nl
        if rng.random() < 0.2:
            out += rand_bytes(rng, rng.randrange(0, 20))
    elif r < 0.9:
        out += b"--" + boundary + nl  # dangling part start
    # else: no terminator
    body = bytes(out)
    if rng.random() < 0.1 and body:
        body = body[: rng.randrange(len(body))]  # truncation
    if rng.random() < 0.03:
        body = rand_bytes(rng, rng.randrange(0, 300))  # undelimited input
    return boundary, body


def chunks(rng: random.Random, body: bytes) -> list[bytes]:
    mode = rng.random()
    if mode < 0.25:
        return [body] if body else []
    if mode < 0.5:
        n = rng.choice([1, 2, 3, 7])
    else:
        n = rng.choice([5, 16, 33, 64, 200])
    out = []
    i = 0
    while i < len(body):
        k = rng.randrange(1, n + 1) if mode >= 0.75 else n
        out.append(body[i : i + k])
        i += k
    if rng.random() < 0.1:
        out.insert(rng.randrange(len(out) + 1), b"")  # empty (non-None) chunk
    return out


def state_of(d: MultipartDecoder) -> tuple:
    return (
        d.state,
        bytes(d.buffer),
        d.complete,
        d._search_position,
        d._parts_decoded,
        d.max_parts,
        d.max_form_memory_size,
    )


def ev_repr(e: Event) -> tuple:
    if isinstance(e, (Field, File)):
        return (type(e).__name__, e.name, getattr(e, "filename", None), list(e.headers))
    if isinstance(e, NeedData):
        return ("NeedData",)
    return (type(e).__name__, repr(e))


def drive(cls, boundary, pieces, mfms, mp, keep_going: bool) -> list:
    d = cls(boundary, mfms, max_parts=mp)
    trace: list = []
    for piece in [*pieces, None]:
        try:
            d.receive_data(piece)
            trace.append(("recv", state_of(d)))
        except Exception as e:  # noqa: BLE001
            trace.append(("recv-exc", type(e), e.args, state_of(d)))
            if not keep_going:
                return trace
            continue
        while True:
            try:
                ev = d.next_event()
            except Exception as e:  # noqa: BLE001
                trace.append(("next-exc", type(e), e.args, state_of(d)))
                if not keep_going:
                    return trace
                break
            trace.append(("ev", ev_repr(ev), state_of(d)))
            if isinstance(ev, (Epilogue, NeedData)):
                break
    return trace


def main() -> int:
    rng = random.Random(0xC10_1)
    n = 0
    exc_counts: dict[str, int] = {}
    for _ in range(6000):
        boundary, body = gen_body(rng)
        pieces = chunks(rng, body)
        mfms = rng.choice([None, None, 0, 1, 5, 20, 50, 64, 100, 200, 500, 10_000])
        mp = rng.choice([None, None, 0, 1, 2, 3, 5, 11, 1000])
        keep_going = rng.random() < 0.3
        a = drive(OriginalDecoder, boundary, pieces, mfms, mp, keep_going)
        b = drive(MultipartDecoder, boundary, pieces, mfms, mp, keep_going)
        n += 1
        for item in a:
            if item[0].endswith("exc"):
                exc_counts[item[1].__name__] = exc_counts.get(item[1].__name__, 0) + 1
        if a != b:
            print("FAIL: divergence", boundary, body, pieces, mfms, mp)
            for x, y in zip(a, b):
                if x != y:
                    print(" orig:", x)
                    print(" new :", y)
                    break
            return 1

    # Direct unit comparison of receive_data alone on a grid.
    for blen in range(0, 12):
        for dlen in range(0, 12):
            for lim in [None, *range(0, 25)]:
                res = []
                for cls in (OriginalDecoder, MultipartDecoder):
                    d = cls(b"b", lim)
                    d.buffer.extend(b"x" * blen)
                    try:
                        r = d.receive_data(b"y" * dlen)
                        res.append(("ok", r, state_of(d)))
                    except Exception as e:  # noqa: BLE001
                        res.append(("exc", type(e), e.args, state_of(d)))
                n += 1
                if res[0] != res[1]:
                    print("FAIL receive_data grid", blen, dlen, lim, res)
                    return 1

    print(f"compared {n} cases; exceptions seen in original: {exc_counts}")
    print("PASS")
    return 0


if __name__ == "__main__":
    sys.exit(main())
