"""Differential check for refactoring 1 (urls._make_unquote_part / urls._decode_idna).

Run: cd /tmp/wt12-C15 && PYTHONPATH=/tmp/wt12-C15/src /venv/bin/python /tmp/twin7-C15/1/diff_check.py
"""

from __future__ import annotations

import random
import re
import typing as t
from urllib.parse import quote
from urllib.parse import unquote
from urllib.parse import urlsplit
from urllib.parse import urlunsplit

import werkzeug.urls as new  # registers the "werkzeug.url_quote" error handler

# ---------------------------------------------------------------- original code


def orig_make_unquote_part(name: str, chars: str) -> t.Callable[[str], str]:
    choices = "|".join(f"{ord(c):02X}" for c in sorted(chars))
    pattern = re.compile(f"((?:%(?:{choices}))+)", re.I)

    def _unquote_partial(value: str) -> str:
        parts = iter(pattern.split(value))
        out = []

        for part in parts:
            out.append(unquote(part, "utf-8", "werkzeug.url_quote"))
            out.append(next(parts, ""))

        return "".join(out)

    _unquote_partial.__name__ = f"_unquote_{name}"
    return _unquote_partial


_always_unsafe = bytes((*range(0x21), 0x25, 0x7F)).decode()
orig_unquote_fragment = orig_make_unquote_part("fragment", _always_unsafe)
orig_unquote_query = orig_make_unquote_part("query", _always_unsafe + "&=+#")
orig_unquote_path = orig_make_unquote_part("path", _always_unsafe + "/?#")
orig_unquote_user = orig_make_unquote_part("user", _always_unsafe + ":@/?#")


def orig_decode_idna(domain: str) -> str:
    try:
        data = domain.encode("ascii")
    except UnicodeEncodeError:
        # If the domain is not ASCII, it's decoded already.
        return domain

    try:
        # Try decoding in one shot.
        return data.decode("idna")
    except UnicodeError:
        pass

    # Decode each part separately, leaving invalid parts as punycode.
    parts = []

    for part in data.split(b"."):
        try:
            parts.append(part.decode("idna"))
        except UnicodeError:
            parts.append(part.decode("ascii"))

    return ".".join(parts)


def orig_uri_to_iri(uri: str) -> str:
    parts = urlsplit(uri)
    path = orig_unquote_path(parts.path)
    query = orig_unquote_query(parts.query)
    fragment = orig_unquote_fragment(parts.fragment)

    if parts.hostname:
        netloc = orig_decode_idna(parts.hostname)
    else:
        netloc = ""

    if ":" in netloc:
        netloc = f"[{netloc}]"

    if parts.port:
        netloc = f"{netloc}:{parts.port}"

    if parts.username:
        auth = orig_unquote_user(parts.username)

        if parts.password:
            password = orig_unquote_user(parts.password)
            auth = f"{auth}:{password}"

        netloc = f"{auth}@{netloc}"

    return urlunsplit((parts.scheme, netloc, path, query, fragment))


# -------------------------------------------------------------------- harness


def run(f: t.Callable[..., t.Any], *args: t.Any) -> tuple[str, t.Any]:
    try:
        return "ok", f(*args)
    except Exception as e:  # noqa: B902
        return "exc", type(e)


rng = random.Random(1507)

TEXT = [
    "a", "b", "Z", "0", "9", "-", ".", "_", "~", "/", "?", "#", "&", "=", "+", ":", "@",
    "%", " ", "\t", "\n", "\x00", "\x7f", "!", "$", "'", "(", ")", "*", ",", ";", "[", "]",
    "\xe5", "\xe8", "☃", "€", "\U0001f600", "\ud800", "\udcff", "\xdf", "ı",
    "。", "．",
]
HEX = "0123456789abcdefABCDEF"
ESCAPES = [
    "%20", "%25", "%2F", "%2f", "%3F", "%3f", "%23", "%26", "%3D", "%3d", "%2B", "%2b",
    "%3A", "%3a", "%40", "%00", "%0A", "%7F", "%7f", "%41", "%61", "%7E", "%C3%A5",
    "%c3%a8", "%E2%98%83", "%F0%9F%98%80", "%DF", "%FF", "%C3", "%E2%98", "%C3%28",
    "%ED%A0%80", "%", "%%", "%G1", "%1", "%1G", "%u2603",
]


def gen_component(max_len: int = 12) -> str:
    out = []
    for _ in range(rng.randrange(max_len)):
        r = rng.random()
        if r < 0.45:
            out.append(rng.choice(TEXT))
        elif r < 0.85:
            out.append(rng.choice(ESCAPES))
        else:
            out.append("%" + rng.choice(HEX) + rng.choice(HEX))
    return "".join(out)


LABELS = [
    "example", "com", "net", "localhost", "xn--n3h", "xn--", "xn--a", "xn--zzzzzz",
    "XN--N3H", "xn--bcher-kva", "xn--mnchen-3ya", "xn--9ca", "a" * 63, "a" * 64,
    "", "-", "a-", "-a", "1", "127", "☃", "b\xfccher", "xn--☃", "xn--80ak6aa92e",
    "xn--e1afmkfd", "xn--p1ai", "xn--0", "xn--99999999999", "a_b", "a b", "%41",
    "xn--ls8h", "xn--fa-hia", "fa\xdf", "::1", "2001:db8::1", "\ud800", "x\x00y",
]


def gen_domain() -> str:
    n = rng.randrange(1, 5)
    sep = rng.choice([".", ".", ".", "。", ".."])
    domain = sep.join(rng.choice(LABELS) for _ in range(n))
    if rng.random() < 0.1:
        domain += "."
    if rng.random() < 0.05:
        domain = "".join(rng.choice(TEXT + ["x", "n", "-"]) for _ in range(rng.randrange(10)))
    return domain


def gen_url() -> str:
    scheme = rng.choice(["http", "https", "ws", "ftp", "itms-services", "", "mailto", "x"])
    host = gen_domain()
    if rng.random() < 0.1:
        host = "[" + rng.choice(["::1", "2001:db8::1", "fe80::1%25eth0", "v1.x"]) + "]"
    netloc = host
    if rng.random() < 0.4:
        netloc += ":" + rng.choice(["80", "443", "8080", "0", "", "65535", "65536", "abc", "-1"])
    if rng.random() < 0.4:
        auth = gen_component(5)
        if rng.random() < 0.5:
            auth += ":" + gen_component(5)
        netloc = auth + "@" + netloc
    url = ""
    if scheme:
        url += scheme + ":"
    if rng.random() < 0.9:
        url += "//" + netloc
    if rng.random() < 0.8:
        url += "/" + gen_component()
    if rng.random() < 0.6:
        url += "?" + gen_component()
    if rng.random() < 0.4:
        url += "#" + gen_component()
    return url


pairs = [
    (orig_unquote_fragment, new._unquote_fragment),
    (orig_unquote_query, new._unquote_query),
    (orig_unquote_path, new._unquote_path),
    (orig_unquote_user, new._unquote_user),
]
count = 0
failures = 0

for o, n in pairs:
    if o.__name__ != n.__name__:
        failures += 1
        print("NAME MISMATCH", o.__name__, n.__name__)

# 1. partial unquoting of single components, including a freshly built part
extra_chars = [_always_unsafe + "abc%", "%", "/", _always_unsafe + "\xe5"]
for chars in extra_chars:
    pairs.append((orig_make_unquote_part("x", chars), new._make_unquote_part("x", chars)))

for _ in range(6000):
    value = gen_component(16)
    for o, n in pairs:
        count += 1
        a, b = run(o, value), run(n, value)
        if a != b:
            failures += 1
            print("UNQUOTE MISMATCH", o.__name__, repr(value), a, b)

# exhaustive over all single escapes and all pairs with a neighbouring character
for h1 in range(256):
    for around in ("", "a", "%", "☃"):
        value = f"{around}%{h1:02X}{around}%{h1:02x}"
        for o, n in pairs:
            count += 1
            if run(o, value) != run(n, value):
                failures += 1
                print("UNQUOTE MISMATCH", o.__name__, repr(value))

# 2. _decode_idna
for _ in range(6000):
    domain = gen_domain()
    count += 1
    a, b = run(orig_decode_idna, domain), run(new._decode_idna, domain)
    if a != b:
        failures += 1
        print("IDNA MISMATCH", repr(domain), a, b)

for label in LABELS:
    for other in LABELS:
        for domain in (label, f"{label}.{other}", f"{label}.{other}."):
            count += 1
            if run(orig_decode_idna, domain) != run(new._decode_idna, domain):
                failures += 1
                print("IDNA MISMATCH", repr(domain))

# 3. whole uri_to_iri, and the iri -> uri -> iri round trip through it
for _ in range(8000):
    url = gen_url()
    count += 1
    a, b = run(orig_uri_to_iri, url), run(new.uri_to_iri, url)
    if a != b:
        failures += 1
        print("URI_TO_IRI MISMATCH", repr(url), a, b)

    status, uri = run(new.iri_to_uri, url)
    if status == "ok":
        count += 1
        a, b = run(orig_uri_to_iri, uri), run(new.uri_to_iri, uri)
        if a != b:
            failures += 1
            print("ROUNDTRIP MISMATCH", repr(url), a, b)

print(f"{count} comparisons, {failures} mismatches")
print("PASS" if failures == 0 else "FAIL")
