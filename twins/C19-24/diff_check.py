"""Differential check for refactoring 3 (WSGIRequestHandler.run_wsgi: write / error path).

Run: cd /tmp/wt15-C19 && PYTHONPATH=/tmp/wt15-C19/src /venv/bin/python /tmp/twin10-C19/3/diff_check.py

Both implementations are driven through a socket-less handler whose wfile records
every write()/flush() call; the "drain the socket" selector is stubbed out (same
stub for both) so that a case does not cost 10 ms.
"""
import http.client
import io
import random
import types

from werkzeug import serving
from werkzeug.exceptions import InternalServerError
from werkzeug.serving import connection_dropped_errors
from werkzeug.serving import WSGIRequestHandler


class _StubSelector:
    def register(self, *a, **k):
        pass

    def select(self, timeout=None):
        return []

    def close(self):
        pass


selectors = types.SimpleNamespace(DefaultSelector=_StubSelector, EVENT_READ=1)
serving.selectors = selectors  # same stub for the refactored code


class OrigHandler(WSGIRequestHandler):
    def run_wsgi(self) -> None:
        """Verbatim copy of the ORIGINAL implementation."""
        if self.headers.get("Expect", "").lower().strip() == "100-continue":
            self.wfile.write(b"HTTP/1.1 100 Continue\r\n\r\n")

        self.environ = environ = self.make_environ()
        status_set = None
        headers_set = None
        status_sent = None
        headers_sent = None
        chunk_response = False

        def write(data: bytes) -> None:
            nonlocal status_sent, headers_sent, chunk_response
            assert status_set is not None, "write() before start_response"
            assert headers_set is not None, "write() before start_response"
            if status_sent is None:
                status_sent = status_set
                headers_sent = headers_set
                try:
                    code_str, msg = status_sent.split(None, 1)
                except ValueError:
                    code_str, msg = status_sent, ""
                code = int(code_str)
                self.send_response(code, msg)
                header_keys = set()
                for key, value in headers_sent:
                    self.send_header(key, value)
                    header_keys.add(key.lower())

                if (
                    not (
                        "content-length" in header_keys
                        or environ["REQUEST_METHOD"] == "HEAD"
                        or (100 <= code < 200)
                        or code in {204, 304}
                    )
                    and self.protocol_version >= "HTTP/1.1"
                ):
                    chunk_response = True
                    self.send_header("Transfer-Encoding", "chunked")

                self.send_header("Connection", "close")
                self.end_headers()

            assert isinstance(data, bytes), "applications must write bytes"

            if data:
                if chunk_response:
                    self.wfile.write(hex(len(data))[2:].encode())
                    self.wfile.write(b"\r\n")

                self.wfile.write(data)

                if chunk_response:
                    self.wfile.write(b"\r\n")

            self.wfile.flush()

        def start_response(status, headers, exc_info=None):  # type: ignore
            nonlocal status_set, headers_set
            if exc_info:
                try:
                    if headers_sent:
                        raise exc_info[1].with_traceback(exc_info[2])
                finally:
                    exc_info = None
            elif headers_set:
                raise AssertionError("Headers already set")
            status_set = status
            headers_set = headers
            return write

        def execute(app) -> None:
            application_iter = app(environ, start_response)
            try:
                for data in application_iter:
                    write(data)
                if not headers_sent:
                    write(b"")
                if chunk_response:
                    self.wfile.write(b"0\r\n\r\n")
            finally:
                selector = selectors.DefaultSelector()
                selector.register(self.connection, selectors.EVENT_READ)
                total_size = 0
                total_reads = 0

                while selector.select(timeout=0.01):
                    data = self.rfile.read(10_000_000)
                    total_size += len(data)
                    total_reads += 1

                    if not data or total_size >= 10_000_000_000 or total_reads > 1000:
                        break

                selector.close()

                if hasattr(application_iter, "close"):
                    application_iter.close()

        try:
            execute(self.server.app)
        except connection_dropped_errors as e:
            self.connection_dropped(e, environ)
        except Exception as e:
            if self.server.passthrough_errors:
                raise

            if status_sent is not None and chunk_response:
                self.close_connection = True

            try:
                if status_sent is None:
                    status_set = None
                    headers_set = None
                execute(InternalServerError())
            except Exception:
                pass

            from werkzeug.debug.tbtools import DebugTraceback

            msg = DebugTraceback(e).render_traceback_text()
            self.server.log("error", f"Error on request:\n{msg}")


class RecordingWriter:
    def __init__(self, fail_after):
        self.calls = []
        self.fail_after = fail_after

    def write(self, data):
        if self.fail_after is not None and len(self.calls) >= self.fail_after:
            raise BrokenPipeError("client went away")
        self.calls.append(("write", bytes(data)))
        return len(data)

    def flush(self):
        self.calls.append(("flush",))


class FakeServer:
    ssl_context = None
    multithread = False
    multiprocess = False
    _server_version = "Werkzeug/test"
    server_address = ("127.0.0.1", 5000)

    def __init__(self, app, passthrough):
        self.app = app
        self.passthrough_errors = passthrough
        self.logged = []

    def log(self, type, message, *args):
        # the traceback text has file names / line numbers of the respective copy
        self.logged.append((type, message.splitlines()[0], message.splitlines()[-1]))


class PlainConn:
    pass


STATUSES = [
    "200 OK", "200 OK", "200", "201 Created", "204 No Content", "204", "304 Not Modified", "304",
    "100 Continue", "101 Switching Protocols", "199 Whatever", "404 Not Found", "500 Internal Server Error",
    "200  Two  Spaces", " 200 Lead", "200\tTab", "abc Oops", "", "99 Low", "600 High", "205 Reset",
]
HEADERS = [
    ("Content-Type", "text/plain"), ("Content-Length", "5"), ("content-length", "0"), ("CONTENT-LENGTH", "11"),
    ("X-Foo", "bar"), ("Transfer-Encoding", "chunked"), ("Connection", "keep-alive"), ("Content-Lengthy", "1"),
    ("Set-Cookie", "a=b"), ("Set-Cookie", "c=d"), ("X-Content-Length", "9"),
]
BODIES = [b"", b"hello", b"x", b"a" * 15, b"b" * 16, b"c" * 255, b"d" * 256, b"e" * 4097, b"\r\n", b"0\r\n\r\n"]


class ClosableIter:
    def __init__(self, items, log, raise_at, exc):
        self.items = items
        self.log = log
        self.raise_at = raise_at
        self.exc = exc

    def __iter__(self):
        for i, item in enumerate(self.items):
            if i == self.raise_at:
                raise self.exc
            yield item
        if self.raise_at == len(self.items):
            raise self.exc

    def close(self):
        self.log.append("closed")


def make_app(spec, applog):
    def app(environ, start_response):
        applog.append(("method", environ["REQUEST_METHOD"]))
        if spec["mutate_method"]:
            environ["REQUEST_METHOD"] = spec["mutate_method"]
        if spec["raise_before_start"]:
            raise spec["exc"]
        if spec["no_start"]:
            return [b"never"]
        headers = list(spec["headers"])
        try:
            write = start_response(spec["status"], headers)
        except BaseException as e:  # noqa: B036
            applog.append(("sr1", type(e), str(e)))
            raise
        for d in spec["pre_writes"]:
            write(d)
        if spec["second_start"] == "plain":
            start_response("202 Accepted", [("X-Second", "1")])
        elif spec["second_start"] == "exc_info":
            try:
                raise KeyError("inner")
            except KeyError:
                import sys

                start_response("500 Internal Server Error", [("X-Err", "1")], sys.exc_info())
        items = list(spec["body"])
        if spec["use_closable"]:
            return ClosableIter(items, applog, spec["raise_at"], spec["exc"])
        if spec["raise_at"] is not None:
            return iter(ClosableIter(items, applog, spec["raise_at"], spec["exc"]))
        return items

    return app


def gen_spec(rng):
    nbody = rng.randint(0, 4)
    body = [rng.choice(BODIES) for _ in range(nbody)]
    if rng.random() < 0.05:
        body.insert(rng.randint(0, len(body)), rng.choice(["text", None, bytearray(b"ba"), 5]))
    exc = rng.choice([RuntimeError("boom"), ValueError("bad"), ConnectionResetError("reset"),
                      BrokenPipeError("pipe"), TimeoutError("slow"), AssertionError("a"), KeyError("k")])
    return {
        "status": rng.choice(STATUSES),
        "headers": rng.sample(HEADERS, rng.randint(0, 4)),
        "body": body,
        "pre_writes": [rng.choice(BODIES) for _ in range(rng.choice([0, 0, 0, 1, 2]))],
        "second_start": rng.choice([None] * 8 + ["plain", "exc_info"]),
        "raise_before_start": rng.random() < 0.04,
        "no_start": rng.random() < 0.03,
        "raise_at": rng.choice([None] * 6 + [0, 1, 2, nbody]),
        "use_closable": rng.random() < 0.5,
        "exc": exc,
        "mutate_method": rng.choice([None] * 8 + ["HEAD", "GET"]),
        "method": rng.choice(["GET", "GET", "POST", "HEAD", "HEAD", "head", "OPTIONS"]),
        "protocol": rng.choice(["HTTP/1.1", "HTTP/1.1", "HTTP/1.0", "HTTP/2"]),
        "request_version": rng.choice(["HTTP/1.1", "HTTP/1.0", "HTTP/0.9"]),
        "expect": rng.choice([None, None, None, "100-continue", " 100-Continue "]),
        "passthrough": rng.random() < 0.15,
        "fail_after": rng.choice([None] * 10 + [0, 1, 2, 3, 5]),
    }


def run(cls, spec):
    applog = []
    h = object.__new__(cls)
    h.path = "/p%20q?a=1"
    h.command = spec["method"]
    h.request_version = spec["request_version"]
    h.protocol_version = spec["protocol"]
    h.requestline = f"{spec['method']} /p%20q?a=1 {spec['request_version']}"
    raw = b"Host: localhost\r\n"
    if spec["expect"]:
        raw += b"Expect: " + spec["expect"].encode() + b"\r\n"
    h.headers = http.client.parse_headers(io.BytesIO(raw + b"\r\n"))
    h.client_address = ("10.0.0.1", 4321)
    h.rfile = io.BytesIO(b"")
    h.wfile = RecordingWriter(spec["fail_after"])
    h.connection = PlainConn()
    h.close_connection = False
    h.server = FakeServer(make_app(spec, applog), spec["passthrough"])
    h.date_time_string = lambda timestamp=None: "Thu, 01 Jan 1970 00:00:00 GMT"
    logs = []
    h.log = lambda type, message, *args: logs.append((type, message, args))
    dropped = []
    h.connection_dropped = lambda error, environ=None: dropped.append((type(error), str(error), environ is h.environ))
    try:
        h.run_wsgi()
        outcome = ("ok",)
    except BaseException as e:  # noqa: B036
        outcome = ("exc", type(e), str(e))
    return (outcome, h.wfile.calls, h.close_connection, applog, logs, dropped, h.server.logged)


def main():
    assert OrigHandler.run_wsgi is not WSGIRequestHandler.run_wsgi
    rng = random.Random(19003)
    n = 5000
    mism = chunked = errs = 0
    for _ in range(n):
        state = rng.getstate()
        spec = gen_spec(rng)
        a = run(OrigHandler, spec)
        # rebuild an identical spec (fresh exception instance) for the second run
        rng2 = random.Random()
        rng2.setstate(state)
        b = run(WSGIRequestHandler, gen_spec(rng2))
        wire = b"".join(c[1] for c in a[1] if c[0] == "write")
        chunked += b"Transfer-Encoding: chunked\r\nConnection" in wire
        errs += bool(a[6]) or a[0][0] == "exc"
        if a != b:
            mism += 1
            if mism < 4:
                print("MISMATCH", spec, a, b, sep="\n  ")
    print(f"cases={n} chunked_responses={chunked} error_paths={errs} mismatches={mism}")
    print("PASS" if mism == 0 else "FAIL")


if __name__ == "__main__":
    main()
