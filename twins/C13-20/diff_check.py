"""Differential check for refactoring 2 (sansio.http.parse_cookie loop and
_cookie_unslash_replace).

Compares the worktree's parse_cookie / _cookie_unslash_replace against pasted
copies of the ORIGINAL code on generated cookie headers, including headers
produced by dump_cookie for arbitrary Unicode values.
"""
import random
import re
import sys
import typing as t

from werkzeug import datastructures as ds
from werkzeug import http as H
from werkzeug.sansio import http as S

_o_cookie_re = re.compile(
    r"""
    ([^=;]*)
    (?:\s*=\s*
      (
        "(?:[^\\"]|\\.)*"
      |
        .*?
      )
    )?
    \s*;\s*
    """,
    flags=re.ASCII | re.VERBOSE,
)
_o_cookie_unslash_re = re.compile(rb"\\([0-3][0-7]{2}|.)")


def orig_unslash_replace(m):
    v = m.group(1)

    if len(v) == 1:
        return v

    return int(v, 8).to_bytes(1, "big")


def orig_parse_cookie(cookie=None, cls=None):
    if cls is None:
        cls = t.cast("type[ds.MultiDict[str, str]]", ds.MultiDict)

    if not cookie:
        return cls()

    cookie = f"{cookie};"
    out = []

    for ck, cv in _o_cookie_re.findall(cookie):
        ck = ck.strip()
        cv = cv.strip()

        if not ck:
            continue

        if len(cv) >= 2 and cv[0] == cv[-1] == '"':
            cv = _o_cookie_unslash_re.sub(
                orig_unslash_replace, cv[1:-1].encode()
            ).decode(errors="replace")

        out.append((ck, cv))

    return cls(out)


def run(f, *args, **kwargs):
    try:
        rv = f(*args, **kwargs)
        return ("ok", type(rv), list(rv.items(multi=True)) if hasattr(rv, "items") else rv)
    except BaseException as e:  # noqa: B036
        return ("exc", type(e), str(e))


rng = random.Random(2626)
ATOMS = [
    "a", "b", "k", "=", "=", ";", ";", " ", "\t", '"', '"', "\\", "\\073", "\\054",
    "\\377", "\\400", "\\12", "\\\\", '\\"', ",", "\n", "\r", "\x00", "\x7f", "é",
    " ", " ", "\x1c", "\x85", "€", "\U0001f36a", "\ud800", "v1", "==", '""', "; ",
    " = ", '"a;b"', '"a\\', "x y",
]


def rand_header():
    mode = rng.randrange(5)
    if mode == 0:
        return "".join(rng.choice(ATOMS) for _ in range(rng.randrange(0, 14)))
    if mode == 1:
        parts = []
        for _ in range(rng.randrange(1, 5)):
            k = "".join(rng.choice(ATOMS) for _ in range(rng.randrange(0, 3)))
            v = "".join(rng.choice(ATOMS) for _ in range(rng.randrange(0, 6)))
            q = rng.random()
            if q < 0.4:
                v = f'"{v}"'
            parts.append(rng.choice([f"{k}={v}", f"{k} = {v} ", k, f"{k}="]))
        return rng.choice(["; ", ";", " ;  "]).join(parts)
    if mode == 2:
        return "".join(chr(rng.randrange(0x250)) for _ in range(rng.randrange(0, 12)))
    if mode == 3:
        # real dump_cookie output for arbitrary text
        val = "".join(
            chr(rng.choice([rng.randrange(0x80), rng.randrange(0x800), rng.randrange(0xD800)]))
            for _ in range(rng.randrange(0, 10))
        )
        return H.dump_cookie("k", val, path=None) + rng.choice(["", "; other=1", '; q="x\\"y"'])
    return rng.choice([None, "", ";", "=", "a", "a=", "=b", '"', 'a="', 'a=""', 'a="\\"', "a=b;;c=d", "a=b; a=c"])


class MyDict(ds.MultiDict):
    pass


bad = 0
n = 0
for i in range(12000):
    h = rand_header()
    for kw in ({}, {"cls": MyDict}, {"cls": dict}) if i % 7 == 0 else ({},):
        n += 1
        a = run(orig_parse_cookie, h, **kw)
        b = run(S.parse_cookie, h, **kw)
        if a != b:
            bad += 1
            if bad < 10:
                print("MISMATCH", repr(h), kw, a, b)
    # the WSGI level wrapper (latin1 tunnel) sits on top of the same function
    if h is not None:
        try:
            tunneled = h.encode("latin1").decode(errors="replace")
        except UnicodeEncodeError:
            tunneled = None
        if tunneled is not None:
            n += 1
            a = run(orig_parse_cookie, tunneled)
            b = run(H.parse_cookie, h)
            if a != b:
                bad += 1
                print("MISMATCH(wsgi)", repr(h), a, b)

# the replacement callback on every escape the regex can produce
for first in range(256):
    for tail in (b"", b"00", b"77", b"7", b"08", b"a"):
        data = b"\\" + bytes([first]) + tail
        n += 1
        a = run(lambda d: _o_cookie_unslash_re.sub(orig_unslash_replace, d), data)
        b = run(lambda d: S._cookie_unslash_re.sub(S._cookie_unslash_replace, d), data)
        if a != b:
            bad += 1
            print("MISMATCH(unslash)", data, a, b)

print(f"{n} cases, {bad} mismatches")
print("PASS" if bad == 0 else "FAIL")
sys.exit(0 if bad == 0 else 1)
