"""Differential check for refactoring 3 (Authorization / WWWAuthenticate
from_header and to_header).

Run: cd /tmp/wt6-C06 && PYTHONPATH=/tmp/wt6-C06/src /venv/bin/python /tmp/twin4-C06/3/diff_check.py
"""
from __future__ import annotations

import base64
import random
import string

from werkzeug.datastructures import Authorization
from werkzeug.datastructures import WWWAuthenticate
from werkzeug.http import dump_header
from werkzeug.http import parse_dict_header
from werkzeug.http import quote_header_value


# ---- ORIGINAL implementations (copied from the unmodified tree) ----
def orig_authorization_from_header(cls, value):
    if not value:
        return None

    scheme, _, rest = value.partition(" ")
    scheme = scheme.lower()
    rest = rest.strip()

    if scheme == "basic":
        try:
            username, _, password = base64.b64decode(rest).decode().partition(":")
        except ValueError:
            return None

        return cls(scheme, {"username": username, "password": password})

    if "=" in rest.rstrip("="):
        # = that is not trailing, this is parameters.
        return cls(scheme, parse_dict_header(rest), None)

    # No = or only trailing =, this is a token.
    return cls(scheme, None, rest)


def orig_authorization_to_header(self):
    if self.type == "basic":
        value = base64.b64encode(
            f"{self.username}:{self.password}".encode()
        ).decode("ascii")
        return f"Basic {value}"

    if self.token is not None:
        return f"{self.type.title()} {self.token}"

    return f"{self.type.title()} {dump_header(self.parameters)}"


def orig_www_from_header(cls, value):
    if not value:
        return None

    scheme, _, rest = value.partition(" ")
    scheme = scheme.lower()
    rest = rest.strip()

    if "=" in rest.rstrip("="):
        # = that is not trailing, this is parameters.
        return cls(scheme, parse_dict_header(rest), None)

    # No = or only trailing =, this is a token.
    return cls(scheme, None, rest)


def orig_www_to_header(self):
    if self.token is not None:
        return f"{self.type.title()} {self.token}"

    if self.type == "digest":
        items = []

        for key, value in self.parameters.items():
            if key in {"realm", "domain", "nonce", "opaque", "qop"}:
                value = quote_header_value(value, allow_token=False)
            else:
                value = quote_header_value(value)

            items.append(f"{key}={value}")

        return f"Digest {', '.join(items)}"

    return f"{self.type.title()} {dump_header(self.parameters)}"


# ---- helpers ----
def describe(obj):
    if obj is None:
        return None
    return (type(obj), obj.type, obj.token, list(obj.parameters.items()))


def outcome(fn, *args):
    try:
        rv = fn(*args)
    except BaseException as e:  # noqa: B036
        return ("exc", type(e), str(e))
    if isinstance(rv, (Authorization, WWWAuthenticate)):
        return ("obj", describe(rv))
    return ("val", rv)


ALPHABET = (
    string.ascii_letters
    + string.digits
    + "!#$%&'*+-.^_`|~"
    + ' "\\,;=:/()<>@[]{}?\t'
    + "\u00e9\u20ac"
)
SCHEMES = [
    "Basic", "basic", "BASIC", "Digest", "digest", "DIGEST", "Bearer", "bearer",
    "Negotiate", "custom", "Token", "X-Scheme", "", "\u00c9x", "ba\u017fic", "\u0130",
]
DIGEST_KEYS = [
    "realm", "domain", "nonce", "opaque", "qop", "algorithm", "stale", "uri",
    "username", "response", "cnonce", "nc", "Realm", "QOP", "charset", "userhash",
    "filename*", "x*",
]
SEPS = [" ", " ", " ", "  ", "\t", "", " \t ", "\u00a0"]


def rand_str(rng, lo=0, hi=10):
    return "".join(rng.choice(ALPHABET) for _ in range(rng.randint(lo, hi)))


def rand_param_value(rng):
    r = rng.random()
    if r < 0.1:
        return None
    if r < 0.15:
        return ""
    if r < 0.25:
        return rng.choice(["auth", "auth,auth-int", "MD5", "true", "00000001"])
    if r < 0.3:
        return rng.choice([0, 5, True, 2.5])
    if r < 0.35:
        return "UTF-8''" + rand_str(rng, 0, 5)
    return rand_str(rng)


def rand_params(rng):
    d = {}
    for _ in range(rng.randint(0, 6)):
        r = rng.random()
        if r < 0.8:
            key = rng.choice(DIGEST_KEYS)
        elif r < 0.83:
            key = ""
        else:
            key = rand_str(rng, 1, 5)
        d[key] = rand_param_value(rng)
    return d


def rand_token(rng):
    r = rng.random()
    if r < 0.3:
        return base64.b64encode(rand_str(rng, 0, 12).encode()).decode()
    if r < 0.4:
        return ""
    if r < 0.5:
        return rand_str(rng, 1, 6) + "=" * rng.randint(0, 3)
    return rand_str(rng, 0, 12)


def rand_header(rng):
    scheme = rng.choice(SCHEMES)
    sep = rng.choice(SEPS)
    r = rng.random()
    if r < 0.25:
        # basic-like: base64 of user:pass, sometimes corrupted
        raw = rng.choice(
            [
                f"{rand_str(rng, 0, 6)}:{rand_str(rng, 0, 6)}".encode(),
                rand_str(rng, 0, 8).encode(),
                bytes(rng.randrange(256) for _ in range(rng.randint(0, 8))),
            ]
        )
        rest = base64.b64encode(raw).decode()
        c = rng.random()
        if c < 0.15:
            rest = rest[: rng.randint(0, len(rest))]
        elif c < 0.25:
            rest += rand_str(rng, 1, 3)
        elif c < 0.3:
            rest = rest.rstrip("=")
    elif r < 0.65:
        try:
            rest = dump_header(rand_params(rng))
        except Exception:
            rest = "realm=x"
    elif r < 0.85:
        rest = rand_token(rng)
    else:
        rest = rand_str(rng, 0, 20)
    pad = rng.choice(["", "", " ", "\t"])
    return f"{scheme}{sep}{pad}{rest}{pad}"


def main():
    rng = random.Random(60603)
    n = bad = 0

    def cmp(label, a, b, info):
        nonlocal n, bad
        n += 1
        if a != b:
            bad += 1
            print("MISMATCH", label, repr(info)[:160], a, b)

    fixed = [
        None, "", " ", "Basic", "Basic ", "basic Og==", "Basic dXNlcjpwYXNz", "Basic =",
        "Basic ====", "Basic \u00e9", "Basic dXNlcg", "Bearer abc", "Bearer abc==",
        "Bearer a=b", "Bearer a=b=", "Digest realm=\"x\", nonce=abc", "Digest", " Digest x=1",
        "Digest  realm=x", "x", "x=", "x=y", "a b c", "Token token=\"x\"",
        0, 5, b"Basic Og==", b"", ["Basic", "x"], ("a",), object(),
    ]
    for v in fixed:
        cmp(
            "Authorization.from_header(fixed)",
            outcome(orig_authorization_from_header, Authorization, v),
            outcome(Authorization.from_header, v),
            v,
        )
        cmp(
            "WWWAuthenticate.from_header(fixed)",
            outcome(orig_www_from_header, WWWAuthenticate, v),
            outcome(WWWAuthenticate.from_header, v),
            v,
        )

    # from_header on generated header values, then to_header on what was parsed,
    # then the normal-form round trip
    for _ in range(10000):
        h = rand_header(rng)
        a = outcome(orig_authorization_from_header, Authorization, h)
        b = outcome(Authorization.from_header, h)
        cmp("Authorization.from_header", a, b, h)
        obj = Authorization.from_header(h)
        if obj is not None:
            a = outcome(orig_authorization_to_header, obj)
            b = outcome(obj.to_header)
            cmp("Authorization.to_header(parsed)", a, b, h)
            if b[0] == "val":
                cmp(
                    "Authorization reparse",
                    outcome(orig_authorization_from_header, Authorization, b[1]),
                    outcome(Authorization.from_header, b[1]),
                    b[1],
                )

        a = outcome(orig_www_from_header, WWWAuthenticate, h)
        b = outcome(WWWAuthenticate.from_header, h)
        cmp("WWWAuthenticate.from_header", a, b, h)
        obj = WWWAuthenticate.from_header(h)
        if obj is not None:
            a = outcome(orig_www_to_header, obj)
            b = outcome(obj.to_header)
            cmp("WWWAuthenticate.to_header(parsed)", a, b, h)
            if b[0] == "val":
                cmp(
                    "WWWAuthenticate reparse",
                    outcome(orig_www_from_header, WWWAuthenticate, b[1]),
                    outcome(WWWAuthenticate.from_header, b[1]),
                    b[1],
                )

    # to_header on directly constructed objects (incl. odd types / values)
    type_choices = [s for s in SCHEMES] + [None, 5]
    for _ in range(8000):
        typ = rng.choice(type_choices)
        params = rand_params(rng)
        r = rng.random()
        token = None if r < 0.6 else (rand_token(rng) if r < 0.95 else 7)
        if rng.random() < 0.2:
            params.update(username=rand_str(rng, 0, 6), password=rand_str(rng, 0, 6))

        obj = Authorization(typ, dict(params) if rng.random() < 0.9 else None, token)
        cmp(
            "Authorization.to_header",
            outcome(orig_authorization_to_header, obj),
            outcome(obj.to_header),
            (typ, params, token),
        )
        cmp("Authorization.__str__", outcome(orig_authorization_to_header, obj),
            outcome(str, obj), (typ, params, token))

        try:
            wobj = WWWAuthenticate(typ, dict(params), token)
        except Exception:
            continue
        if rng.random() < 0.1:
            # bypass the lower() normalisation of the type
            wobj._type = rng.choice(["Digest", "DIGEST", None, "digest"])
        cmp(
            "WWWAuthenticate.to_header",
            outcome(orig_www_to_header, wobj),
            outcome(wobj.to_header),
            (typ, params, token),
        )

    # subclasses are returned by from_header
    class SubAuth(Authorization):
        pass

    class SubWWW(WWWAuthenticate):
        pass

    for _ in range(1000):
        h = rand_header(rng)
        cmp("SubAuth.from_header", outcome(orig_authorization_from_header, SubAuth, h),
            outcome(SubAuth.from_header, h), h)
        cmp("SubWWW.from_header", outcome(orig_www_from_header, SubWWW, h),
            outcome(SubWWW.from_header, h), h)

    print(f"{n} comparisons, {bad} mismatches")
    print("PASS" if bad == 0 else "FAIL")


if __name__ == "__main__":
    main()
