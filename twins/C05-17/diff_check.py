"""Differential check for refactoring 2 (sansio Response._clean_status)."""
import random
from http import HTTPStatus

from werkzeug.http import HTTP_STATUS_CODES
from werkzeug.sansio.response import Response as SansResponse
from werkzeug.wrappers.response import Response as WsgiResponse


def orig_clean_status(self, value):
    if isinstance(value, (int, HTTPStatus)):
        status_code = int(value)
    else:
        value = value.strip()

        if not value:
            raise ValueError("Empty status argument")

        code_str, sep, _ = value.partition(" ")

        try:
            status_code = int(code_str)
        except ValueError:
            # only message
            return f"0 {value}", 0

        if sep:
            # code and message
            return value, status_code

    # only code, look up message
    try:
        status = f"{status_code} {HTTP_STATUS_CODES[status_code].upper()}"
    except KeyError:
        status = f"{status_code} UNKNOWN"

    return status, status_code


class IntSub(int):
    pass


class StrSub(str):
    pass


def gen_value(rng):
    k = rng.randrange(14)
    if k == 0:
        return rng.randrange(-50, 1100)
    if k == 1:
        return rng.choice(list(HTTP_STATUS_CODES))
    if k == 2:
        return rng.choice(list(HTTPStatus))
    if k == 3:
        return rng.choice([True, False, IntSub(204), IntSub(777), 10**30, -(10**20)])
    if k == 4:
        return str(rng.randrange(-50, 1100))
    if k == 5:
        return f"{rng.choice(list(HTTP_STATUS_CODES))} {rng.choice(['OK', 'Custom Msg', '', ' ', 'ünï', 'a  b'])}"
    if k == 6:
        ws = rng.choice(["", " ", "  ", "\t", "\n", "\r\n", "\x0b", " ", " "])
        ws2 = rng.choice(["", " ", "  ", "\t", "\n", " "])
        core = rng.choice(["200", "200 OK", "204", "OK", "", "4 0 4", "+200", "-1", "2_0_0", "٢٠٠", "２００", "0x10", "1e2", "200.0"])
        return ws + core + ws2
    if k == 7:
        return rng.choice(["", " ", "\t\n", "wat", "Not Found", "teapot 418", "200\tOK", "200 OK", "200  OK", " 200", "007", "000 zero"])
    if k == 8:
        return rng.choice([None, 2.5, 200.0, b"200 OK", b"200", b"", b"  ", [], (200,), object(), bytearray(b"204")])
    if k == 9:
        return StrSub(rng.choice(["304", "304 Not Modified", " 99 ", "x"]))
    if k == 10:
        alphabet = "0123456789 \t-+_abcXYZ ٣"
        return "".join(rng.choice(alphabet) for _ in range(rng.randrange(0, 8)))
    if k == 11:
        return "9" * rng.randrange(1, 40)
    if k == 12:
        return rng.choice([99, 100, 199, 200, 204, 304, 418, 451, 599, 600, 0])
    return f"{rng.randrange(0, 1000)}{rng.choice([' ', '  ', ' X', '\t', ' é'])}"


def call(fn, value):
    try:
        out = fn(SansResponse(), value)
        return ("ok", out, [type(x).__name__ for x in out])
    except Exception as e:
        return ("exc", type(e).__name__, str(e))


def via_response(cls, value, use_orig):
    """End to end through the status / status_code setters."""
    if use_orig:
        C = type("Orig", (cls,), {"_clean_status": orig_clean_status})
    else:
        C = cls
    res = []
    try:
        r = C(status=value)
        res.append(("ok", r.status, r.status_code, type(r.status_code).__name__))
    except Exception as e:
        res.append(("exc", type(e).__name__, str(e)))
    try:
        r = C()
        r.status_code = value
        res.append(("ok", r.status, r.status_code))
    except Exception as e:
        res.append(("exc", type(e).__name__, str(e)))
    return res


def main():
    rng = random.Random(5)
    n = 30000
    bad = 0
    stats = {}
    for i in range(n):
        v = gen_value(rng)
        a = call(orig_clean_status, v)
        b = call(SansResponse._clean_status, v)
        stats[a[0]] = stats.get(a[0], 0) + 1
        ok = a == b
        if i % 5 == 0:
            ok = ok and via_response(WsgiResponse, v, True) == via_response(WsgiResponse, v, False)
        if not ok:
            bad += 1
            if bad < 5:
                print("MISMATCH", repr(v), a, b)
    # exhaustive over the integer range too
    for code in range(-10, 1200):
        for v in (code, str(code), f" {code} ", f"{code} msg"):
            if call(orig_clean_status, v) != call(SansResponse._clean_status, v):
                bad += 1
                print("MISMATCH", repr(v))
    assert SansResponse._clean_status is not orig_clean_status
    print("cases", n, stats)
    print("PASS" if not bad else f"FAIL ({bad})")


if __name__ == "__main__":
    main()
