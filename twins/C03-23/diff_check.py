"""Differential check for refactoring 2 (StateMachineMatcher.match._match: trailing-slash branch and dynamic-transition loop): the worktree's matcher against the ORIGINAL matcher.py pasted below, on random rule maps and paths; compares StateMachineMatcher.match and MapAdapter.match outcomes (results and exception types/payloads).

Run: cd /tmp/wt15-C03 && PYTHONPATH=/tmp/wt15-C03/src /venv/bin/python /tmp/twin10-C03/2/diff_check.py
"""
N_MAPS = 1200
PATHS_PER_MAP = 12

ORIG_MATCHER_SRC = r'''from __future__ import annotations

import re
import typing as t
from dataclasses import dataclass
from dataclasses import field

from .converters import ValidationError
from .exceptions import NoMatch
from .exceptions import RequestAliasRedirect
from .exceptions import RequestPath
from .rules import Rule
from .rules import RulePart


class SlashRequired(Exception):
    pass


@dataclass
class State:
    """A representation of a rule state.

    This includes the *rules* that correspond to the state and the
    possible *static* and *dynamic* transitions to the next state.
    """

    dynamic: list[tuple[RulePart, State]] = field(default_factory=list)
    rules: list[Rule] = field(default_factory=list)
    static: dict[str, State] = field(default_factory=dict)


class StateMachineMatcher:
    def __init__(self, merge_slashes: bool) -> None:
        self._root = State()
        self.merge_slashes = merge_slashes

    def add(self, rule: Rule) -> None:
        state = self._root
        for part in rule._parts:
            if part.static:
                state.static.setdefault(part.content, State())
                state = state.static[part.content]
            else:
                for test_part, new_state in state.dynamic:
                    if test_part == part:
                        state = new_state
                        break
                else:
                    new_state = State()
                    state.dynamic.append((part, new_state))
                    state = new_state
        state.rules.append(rule)

    def update(self) -> None:
        # For every state the dynamic transitions should be sorted by
        # the weight of the transition
        state = self._root

        def _update_state(state: State) -> None:
            state.dynamic.sort(key=lambda entry: entry[0].weight)
            for new_state in state.static.values():
                _update_state(new_state)
            for _, new_state in state.dynamic:
                _update_state(new_state)

        _update_state(state)

    def match(
        self, domain: str, path: str, method: str, websocket: bool
    ) -> tuple[Rule, t.MutableMapping[str, t.Any]]:
        # To match to a rule we need to start at the root state and
        # try to follow the transitions until we find a match, or find
        # there is no transition to follow.

        have_match_for = set()
        websocket_mismatch = False

        def _match(
            state: State, parts: list[str], values: list[str]
        ) -> tuple[Rule, list[str]] | None:
            # This function is meant to be called recursively, and will attempt
            # to match the head part to the state's transitions.
            nonlocal have_match_for, websocket_mismatch

            # The base case is when all parts have been matched via
            # transitions. Hence if there is a rule with methods &
            # websocket that work return it and the dynamic values
            # extracted.
            if parts == []:
                for rule in state.rules:
                    if rule.methods is not None and method not in rule.methods:
                        have_match_for.update(rule.methods)
                    elif rule.websocket != websocket:
                        websocket_mismatch = True
                    else:
                        return rule, values

                # Test if there is a match with this path with a
                # trailing slash, if so raise an exception to report
                # that matching is possible with an additional slash
                if "" in state.static:
                    for rule in state.static[""].rules:
                        if websocket == rule.websocket and (
                            rule.methods is None or method in rule.methods
                        ):
                            if rule.strict_slashes:
                                raise SlashRequired()
                            else:
                                return rule, values
                        elif (
                            not rule.strict_slashes
                            and rule.methods is not None
                            and method not in rule.methods
                        ):
                            have_match_for.update(rule.methods)
                return None

            part = parts[0]
            # To match this part try the static transitions first
            if part in state.static:
                rv = _match(state.static[part], parts[1:], values)
                if rv is not None:
                    return rv
            # No match via the static transitions, so try the dynamic
            # ones.
            for test_part, new_state in state.dynamic:
                target = part
                remaining = parts[1:]
                # A final part indicates a transition that always
                # consumes the remaining parts i.e. transitions to a
                # final state.
                if test_part.final:
                    target = "/".join(parts)
                    remaining = []
                match = re.compile(test_part.content).match(target)
                if match is not None:
                    if test_part.suffixed:
                        # If a part_isolating=False part has a slash suffix, remove the
                        # suffix from the match and check for the slash redirect next.
                        suffix = match.groups()[-1]
                        if suffix == "/":
                            remaining = [""]

                    converter_groups = sorted(
                        match.groupdict().items(), key=lambda entry: entry[0]
                    )
                    groups = [
                        value
                        for key, value in converter_groups
                        if key[:11] == "__werkzeug_"
                    ]
                    rv = _match(new_state, remaining, values + groups)
                    if rv is not None:
                        return rv

            # If there is no match and the only part left is a
            # trailing slash ("") consider rules that aren't
            # strict-slashes as these should match if there is a final
            # slash part.
            if parts == [""]:
                for rule in state.rules:
                    if rule.strict_slashes:
                        continue
                    if rule.methods is not None and method not in rule.methods:
                        have_match_for.update(rule.methods)
                    elif rule.websocket != websocket:
                        websocket_mismatch = True
                    else:
                        return rule, values

            return None

        try:
            rv = _match(self._root, [domain, *path.split("/")], [])
        except SlashRequired:
            raise RequestPath(f"{path}/") from None

        if self.merge_slashes and rv is None:
            # Try to match again, but with slashes merged
            path = re.sub("/{2,}?", "/", path)
            try:
                rv = _match(self._root, [domain, *path.split("/")], [])
            except SlashRequired:
                raise RequestPath(f"{path}/") from None
            if rv is None or rv[0].merge_slashes is False:
                raise NoMatch(have_match_for, websocket_mismatch)
            else:
                raise RequestPath(f"{path}")
        elif rv is not None:
            rule, values = rv

            result = {}
            for name, value in zip(rule._converters.keys(), values):
                try:
                    value = rule._converters[name].to_python(value)
                except ValidationError:
                    raise NoMatch(have_match_for, websocket_mismatch) from None
                result[str(name)] = value
            if rule.defaults:
                result.update(rule.defaults)

            if rule.alias and rule.map.redirect_defaults:
                raise RequestAliasRedirect(result, rule.endpoint)

            return rule, result

        raise NoMatch(have_match_for, websocket_mismatch)
'''

# ---------------------------------------------------------------- generators
import random
import sys
import types

import werkzeug.routing.map as map_mod
import werkzeug.routing.rules as rules_mod
from werkzeug.exceptions import HTTPException
from werkzeug.routing import Map
from werkzeug.routing.exceptions import NoMatch
from werkzeug.routing.exceptions import RequestAliasRedirect
from werkzeug.routing.exceptions import RequestPath
from werkzeug.routing.exceptions import RequestRedirect

WORDS = ["a", "b", "foo", "bar", "x.y", "a+b", "1", "42", "-3", "1.5", "é", "A"]
VARS = [
    "<{n}>",
    "<string:{n}>",
    "<string(length=2):{n}>",
    "<int:{n}>",
    "<int(signed=True):{n}>",
    "<float:{n}>",
    "<path:{n}>",
    "<any(a,foo,bar):{n}>",
    "<uuid:{n}>",
]
UUID = "12345678-1234-5678-1234-567812345678"
METHODS = [None, ["GET"], ["POST"], ["GET", "POST"], ["PUT", "DELETE"]]


def gen_segment(rng, names):
    kind = rng.random()
    if kind < 0.45:
        return rng.choice(WORDS)
    n = f"v{len(names)}"
    names.append(n)
    var = rng.choice(VARS).format(n=n)
    if kind < 0.8:
        return var
    if kind < 0.9:
        return rng.choice(["p-", "x", "1"]) + var
    n2 = f"v{len(names)}"
    names.append(n2)
    return var + rng.choice(["-", ".", "x"]) + rng.choice(VARS[:6]).format(n=n2)


def gen_rule_spec(rng, idx, host_matching):
    names = []
    segs = [gen_segment(rng, names) for _ in range(rng.randint(0, 3))]
    rule = "/" + "/".join(segs)
    if segs and rng.random() < 0.45:
        rule += "/"
    kw = {"endpoint": f"e{idx}"}
    m = rng.choice(METHODS)
    if m is not None:
        kw["methods"] = m
    r = rng.random()
    if r < 0.2:
        kw["strict_slashes"] = False
    elif r < 0.3:
        kw["strict_slashes"] = True
    r = rng.random()
    if r < 0.15:
        kw["merge_slashes"] = False
    if rng.random() < 0.1:
        kw["websocket"] = True
        kw.pop("methods", None)
    if rng.random() < 0.12:
        kw["defaults"] = {"dflt": idx}
        if rng.random() < 0.5:
            kw["alias"] = True
    if host_matching:
        if rng.random() < 0.6:
            kw["host"] = rng.choice(["example.com", "<sub>.example.com", "api.example.com"])
    elif rng.random() < 0.25:
        kw["subdomain"] = rng.choice(["api", "<sub>", "a.b"])
    return rule, kw


def gen_map_spec(rng):
    host_matching = rng.random() < 0.15
    specs = [gen_rule_spec(rng, i, host_matching) for i in range(rng.randint(1, 8))]
    mkw = {"host_matching": host_matching}
    r = rng.random()
    if r < 0.2:
        mkw["strict_slashes"] = False
    if rng.random() < 0.2:
        mkw["merge_slashes"] = False
    if rng.random() < 0.2:
        mkw["redirect_defaults"] = False
    return specs, mkw


PATH_SEGS = WORDS + ["", "", "ab", "a/b", UUID, "0", "007", "3.14", "p-7", "1-2", "foo.bar", "ax1", "%20"]


def gen_paths(rng, specs, count):
    paths = ["/", "", "//"]
    for _ in range(count):
        if rng.random() < 0.6:
            # derive from one of the rules so that matches are frequent
            rule = rng.choice(specs)[0]
            out = []
            i = 0
            while i < len(rule):
                if rule[i] == "<":
                    j = rule.index(">", i)
                    conv = rule[i + 1 : j]
                    if conv.startswith("int"):
                        out.append(rng.choice(["1", "42", "-3", "007", "x"]))
                    elif conv.startswith("float"):
                        out.append(rng.choice(["1.5", "3.14", "-2.0", "1"]))
                    elif conv.startswith("path"):
                        out.append(rng.choice(["a/b", "foo", "a/b/", "a//b", "x/1/2"]))
                    elif conv.startswith("any"):
                        out.append(rng.choice(["a", "foo", "bar", "zzz"]))
                    elif conv.startswith("uuid"):
                        out.append(rng.choice([UUID, "nope"]))
                    elif conv.startswith("string("):
                        out.append(rng.choice(["ab", "abc", "1"]))
                    else:
                        out.append(rng.choice(["foo", "1", "x.y", "a"]))
                    i = j + 1
                else:
                    out.append(rule[i])
                    i += 1
            p = "".join(out)
            r = rng.random()
            if r < 0.2:
                p = p.rstrip("/")
            elif r < 0.4:
                p = p + "/"
            elif r < 0.5:
                p = p.replace("/", "//", 1)
            elif r < 0.55:
                p = p + "//"
            paths.append(p)
        else:
            n = rng.randint(0, 4)
            paths.append("/" + "/".join(rng.choice(PATH_SEGS) for _ in range(n)))
    return paths


def describe_exc(e):
    d = [type(e).__name__]
    if isinstance(e, NoMatch):
        d += [sorted(e.have_match_for), e.websocket_mismatch]
    elif isinstance(e, RequestPath):
        d += [e.path_info]
    elif isinstance(e, RequestAliasRedirect):
        d += [sorted(e.matched_values.items(), key=repr), e.endpoint]
    elif isinstance(e, RequestRedirect):
        d += [e.new_url, e.code]
    elif isinstance(e, HTTPException):
        d += [e.code, sorted(getattr(e, "valid_methods", None) or [])]
    else:
        d += [repr(e.args)]
    return d


def run_low(m, domain, path, method, websocket):
    try:
        rule, values = m._matcher.match(domain, path, method, websocket)
    except Exception as e:  # noqa: B902
        return ("exc", describe_exc(e))
    return ("ok", rule.rule, rule.endpoint, list(values.items()), [repr(type(v)) for v in values.values()])


def run_high(m, server, subdomain, path, method, websocket):
    try:
        adapter = m.bind(server, subdomain=subdomain, url_scheme="ws" if websocket else "http")
        ep, values = adapter.match(path, method=method, websocket=websocket)
    except Exception as e:  # noqa: B902
        return ("exc", describe_exc(e))
    return ("ok", ep, list(values.items()))


def state_shape(state):
    """Structural dump of a matcher state tree (order-sensitive)."""
    return (
        [(r.rule, r.endpoint) for r in state.rules],
        [(k, state_shape(v)) for k, v in state.static.items()],
        [
            ((p.content, p.final, p.static, p.suffixed, repr(p.weight)), state_shape(s))
            for p, s in state.dynamic
        ],
    )


def drive(build_new, build_old, n_maps, paths_per_map, seed=20240310, extra=None):
    rng = random.Random(seed)
    total = 0
    mism = 0
    outcome_kinds = {}
    for mi in range(n_maps):
        specs, mkw = gen_map_spec(rng)
        res = []
        for build in (build_new, build_old):
            try:
                res.append(("ok", build(specs, mkw)))
            except Exception as e:  # noqa: B902
                res.append(("exc", type(e).__name__, str(e)))
        if res[0][0] != res[1][0] or (res[0][0] == "exc" and res[0] != res[1]):
            mism += 1
            print("MAP BUILD MISMATCH", specs, mkw, res)
            continue
        if res[0][0] == "exc":
            total += 1
            continue
        m_new, m_old = res[0][1], res[1][1]
        # force update (sorting of dynamic transitions) and compare the trees
        m_new.update()
        m_old.update()
        total += 1
        if state_shape(m_new._matcher._root) != state_shape(m_old._matcher._root):
            mism += 1
            print("STATE TREE MISMATCH", specs, mkw)
        if extra is not None:
            t_, m_ = extra(m_new, m_old, specs, mkw)
            total += t_
            mism += m_
        host_matching = mkw["host_matching"]
        for path in gen_paths(rng, specs, paths_per_map):
            method = rng.choice(["GET", "POST", "PUT", "HEAD", "OPTIONS"])
            websocket = rng.random() < 0.12
            if host_matching:
                domain = rng.choice(["example.com", "api.example.com", "x.example.com", "other.org"])
                server, subdomain = domain, None
            else:
                subdomain = rng.choice(["", "", "api", "zz", "a.b"])
                domain = subdomain
                server = "example.com"
            a = run_low(m_new, domain, path, method, websocket)
            b = run_low(m_old, domain, path, method, websocket)
            total += 1
            outcome_kinds[a[0] if a[0] == "ok" else a[1][0]] = outcome_kinds.get(a[0] if a[0] == "ok" else a[1][0], 0) + 1
            if a != b:
                mism += 1
                print("LOW MISMATCH", specs, mkw, (domain, path, method, websocket), a, b)
            a = run_high(m_new, server, subdomain, path, method, websocket)
            b = run_high(m_old, server, subdomain, path, method, websocket)
            total += 1
            k = "hi:" + (a[0] if a[0] == "ok" else a[1][0])
            outcome_kinds[k] = outcome_kinds.get(k, 0) + 1
            if a != b:
                mism += 1
                print("HIGH MISMATCH", specs, mkw, (server, subdomain, path, method, websocket), a, b)
    print("comparisons:", total, "mismatches:", mism)
    print("outcomes:", dict(sorted(outcome_kinds.items())))
    print("PASS" if mism == 0 and total >= 3000 else "FAIL")
    return mism

# ------------------------------------------------- original matcher as module
def load_orig_matcher():
    mod = types.ModuleType("werkzeug.routing._orig_matcher")
    mod.__package__ = "werkzeug.routing"
    sys.modules[mod.__name__] = mod
    exec(compile(ORIG_MATCHER_SRC, "<orig matcher.py>", "exec"), mod.__dict__)
    return mod


ORIG = load_orig_matcher()


def make_rules(specs):
    return [rules_mod.Rule(r, **kw) for r, kw in specs]


def build_new(specs, mkw):
    return Map(make_rules(specs), **mkw)


def build_old(specs, mkw):
    saved = map_mod.StateMachineMatcher
    map_mod.StateMachineMatcher = ORIG.StateMachineMatcher
    try:
        m = Map(make_rules(specs), **mkw)
    finally:
        map_mod.StateMachineMatcher = saved
    assert type(m._matcher) is ORIG.StateMachineMatcher
    return m


if __name__ == "__main__":
    import werkzeug.routing.matcher as new_matcher

    assert new_matcher.StateMachineMatcher is not ORIG.StateMachineMatcher
    assert build_new([("/", {"endpoint": "i"})], {"host_matching": False})._matcher.__class__ is new_matcher.StateMachineMatcher
    sys.exit(1 if drive(build_new, build_old, n_maps=N_MAPS, paths_per_map=PATHS_PER_MAP) else 0)
