"""Differential check for refactoring 3 (test.Cookie._from_response_header and
Client._update_cookies_from_response). Compares the worktree's implementation with
verbatim copies of the originals (as free functions operating on the same classes)."""
import dataclasses
import random
import sys
import warnings
from datetime import datetime, timedelta, timezone

from werkzeug.http import dump_cookie
from werkzeug.http import parse_cookie
from werkzeug.http import parse_date
from werkzeug.test import Client
from werkzeug.test import Cookie


# ---------------------------------------------------------------- original copy
def orig_from_response_header(cls, server_name, path, header):
    header, _, parameters_str = header.partition(";")
    key, _, value = header.partition("=")
    decoded_key, decoded_value = next(parse_cookie(header).items())
    params = {}

    for item in parameters_str.split(";"):
        k, sep, v = item.partition("=")
        params[k.strip().lower()] = v.strip() if sep else None

    return cls(
        key=key.strip(),
        value=value.strip(),
        decoded_key=decoded_key,
        decoded_value=decoded_value,
        expires=parse_date(params.get("expires")),
        max_age=int(params["max-age"] or 0) if "max-age" in params else None,
        domain=params.get("domain") or server_name,
        origin_only="domain" not in params,
        path=params.get("path") or path.rpartition("/")[0] or "/",
        secure="secure" in params,
        http_only="httponly" in params,
        same_site=params.get("samesite"),
    )


def orig_update_cookies_from_response(self, server_name, path, headers):
    if self._cookies is None:
        return

    for header in headers:
        cookie = orig_from_response_header(Cookie, server_name, path, header)

        if cookie._should_delete:
            self._cookies.pop(cookie._storage_key, None)
        else:
            self._cookies[cookie._storage_key] = cookie


# ------------------------------------------------------------------- generators
rnd = random.Random(131303)


def app(environ, start_response):
    start_response("200 OK", [])
    return [b""]


def rand_char():
    r = rnd.random()
    if r < 0.4:
        return rnd.choice('";,\\ \t\r\n\x00\x1f\x7f=\'%')
    if r < 0.6:
        return rnd.choice("abcXYZ0123789")
    if r < 0.8:
        return chr(rnd.randrange(0, 0x100))
    if r < 0.95:
        return chr(rnd.randrange(0x100, 0x3000))
    return chr(rnd.randrange(0x10000, 0x110000))


def rand_text(maxlen=10):
    return "".join(rand_char() for _ in range(rnd.randrange(0, maxlen)))


def pick(*choices):
    c = rnd.choice(choices)
    return c() if callable(c) else c


def rand_dumped():
    kw = {"max_size": 0}
    if rnd.random() < 0.6:
        kw["max_age"] = pick(None, 0, 0, 1, 3600, -5, timedelta(days=1), timedelta(0))
    if rnd.random() < 0.5:
        kw["expires"] = pick(None, 0, 0, 1, 1700000000, "garbage", "", "Thu, 01 Jan 1970 00:00:00 GMT",
                             datetime(2030, 1, 2, 3, 4, 5, tzinfo=timezone.utc), "a=b")
    if rnd.random() < 0.5:
        kw["path"] = pick(None, "/", "", "/a", "/a/b/", "/é x", "/a=b")
    if rnd.random() < 0.5:
        kw["domain"] = pick(None, "", "example.com", ".example.com", "sub.example.com:80",
                            "localhost", "bücher.de")
    kw["secure"] = rnd.random() < 0.3
    kw["httponly"] = rnd.random() < 0.3
    if rnd.random() < 0.4:
        kw["samesite"] = pick(None, "strict", "Lax", "none")
    kw["partitioned"] = rnd.random() < 0.2
    key = pick("k", "a", "b", "sess", lambda: rand_text(4) or "k", "ké")
    return dump_cookie(key, rand_text(12), **kw)


RAW = [
    ";", ";", "; ", "=", "=", " ", "\t", '"', "\\", ",", "k", "a", "b", "v", "x=y",
    "Max-Age", "max-age", "MAX-AGE ", "Max-Age=0", "Max-Age=", "Max-Age=abc", "Max-Age=1.5",
    "Max-Age=-0", "Max-Age= 00 ", "Max-Age=١", "Max-Age=1_0", "max-age=5",
    "Expires", "Expires=", "Expires=Thu, 01 Jan 1970 00:00:00 GMT", "expires=0",
    "Expires=Wed, 21 Oct 2015 07:28:00 GMT", "Expires=Thu, 01 Jan 1970 00:00:00 +0100",
    "Expires=junk", "Expires=Thu, 01 Jan 1970 00:00:00 -0000",
    "Domain", "Domain=", "Domain=example.com", "domain=.x", " Domain = a.b ",
    "Path", "Path=", "Path=/", "Path=/a/b", "path= /x ", "Path=a=b",
    "Secure", "secure", "Secure=1", "HttpOnly", "httponly=", "SameSite=Lax", "SameSite",
    "samesite=weird", "Partitioned", "é", "\\073", '"a;b"', "k=v", 'k="v"', 'k="a\\"b"',
    "İ", "ſecure", "K",
]


def rand_raw():
    return "".join(
        rnd.choice(RAW) + rnd.choice(["", "; ", ";", "="]) for _ in range(rnd.randrange(0, 8))
    )


def cookie_snapshot(c):
    return (type(c), dataclasses.asdict(c), c._storage_key, c._should_delete, c._to_request_header())


def call(f, *args):
    with warnings.catch_warnings(record=True) as w:
        warnings.simplefilter("always")
        try:
            rv = f(*args)
            out = ("ok", cookie_snapshot(rv) if isinstance(rv, Cookie) else rv)
        except Exception as e:  # noqa: BLE001
            out = ("exc", type(e), str(e))
    return out, [(x.category, str(x.message)) for x in w]


def jar_snapshot(client):
    if client._cookies is None:
        return None
    return [(k, cookie_snapshot(v)) for k, v in client._cookies.items()]


class SubCookie(Cookie):
    pass


def main():
    headers = [rand_dumped() for _ in range(12000)] + [rand_raw() for _ in range(20000)]
    headers += ["", ";", "=", "k", "k=", "=v", "k=v", "k=v;", "k=v;;", "k=v; ;", "k=v;=", "k=v;=x"]
    servers = ["localhost", "example.com", "a.b.c", ""]
    paths = ["/", "", "/a", "/a/b", "/a/b/", "noslash", "//"]

    n = n_exc = n_delete = 0
    for header in headers:
        sn, p = rnd.choice(servers), rnd.choice(paths)
        cls = SubCookie if rnd.random() < 0.1 else Cookie
        a = call(orig_from_response_header, cls, sn, p, header)
        b = call(cls._from_response_header, sn, p, header)
        n += 1
        if a != b:
            print("FAIL from_response_header", repr(header), sn, p, a, b)
            return 1
        if a[0][0] == "exc":
            n_exc += 1
        elif a[0][1][3]:
            n_delete += 1
    # non-str header -> same exception
    for bad in (None, b"k=v; Path=/", 5):
        a = call(orig_from_response_header, Cookie, "localhost", "/", bad)
        b = call(Cookie._from_response_header, "localhost", "/", bad)
        if a != b:
            print("FAIL bad", bad, a, b)
            return 1

    # jar updates: sequences of headers applied to two clients
    valid = [h for h in headers if call(orig_from_response_header, Cookie, "x", "/", h)[0][0] == "ok"]
    n_seq = 0
    for _ in range(3000):
        use_cookies = rnd.random() > 0.05
        c_orig = Client(app, use_cookies=use_cookies)
        c_new = Client(app, use_cookies=use_cookies)
        for _ in range(rnd.randrange(1, 4)):
            sn, p = rnd.choice(servers), rnd.choice(paths)
            pool = valid if rnd.random() < 0.9 else headers
            batch = [rnd.choice(pool) for _ in range(rnd.randrange(0, 6))]
            # raise the chance that set + delete hit the same storage key
            if rnd.random() < 0.5:
                batch.append(dump_cookie("k", rand_text(5), max_size=0))
            if rnd.random() < 0.4:
                batch.append(dump_cookie("k", "", max_age=0, max_size=0))
            rnd.shuffle(batch)
            a = call(orig_update_cookies_from_response, c_orig, sn, p, batch)
            b = call(c_new._update_cookies_from_response, sn, p, batch)
            if a != b or jar_snapshot(c_orig) != jar_snapshot(c_new):
                print("FAIL jar", batch, a, b, jar_snapshot(c_orig), jar_snapshot(c_new))
                return 1
            n_seq += 1

    # property sanity on the refactored code: value round trips through the client jar
    for _ in range(3000):
        v = rand_text(12)
        try:
            hdr = dump_cookie("k", v, max_size=0)
        except UnicodeEncodeError:
            continue
        c = Cookie._from_response_header("localhost", "/", hdr)
        assert c.decoded_value == v and c.decoded_key == "k", (v, hdr, c)
        assert parse_cookie(c._to_request_header()).get("k") == v

    print(f"headers={n} exceptions={n_exc} deleting={n_delete} jar_batches={n_seq}")
    print("PASS")
    return 0


if __name__ == "__main__":
    sys.exit(main())
