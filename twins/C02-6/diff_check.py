"""Differential check for refactoring 3 (test.EnvironBuilder.get_environ).

Compares the refactored EnvironBuilder.get_environ (imported from the worktree)
against a pasted copy of the ORIGINAL method on generated builders (forms,
files, query args, explicit input streams, headers, overrides), then checks the
parsed Request.form / files / args built from both environs.
Run: cd /tmp/wt9-C02 && PYTHONPATH=/tmp/wt9-C02/src /venv/bin/python /tmp/twin5-C02/3/diff_check.py
"""
from __future__ import annotations

import random
import sys
from collections import defaultdict
from io import BytesIO
from urllib.parse import unquote

import werkzeug
import werkzeug.test as wtest
from werkzeug._internal import _wsgi_encoding_dance
from werkzeug.datastructures import CombinedMultiDict
from werkzeug.datastructures import FileStorage
from werkzeug.datastructures import Headers
from werkzeug.datastructures import MultiDict
from werkzeug.test import EnvironBuilder
from werkzeug.urls import _urlencode
from werkzeug.wrappers import Request

assert werkzeug.__file__.startswith("/tmp/wt9-C02/"), werkzeug.__file__

_real_sem = wtest.stream_encode_multipart
_BOUNDARY = ["bnd"]


def stream_encode_multipart(data):
    # deterministic boundary so that both implementations are comparable
    return _real_sem(data, boundary=_BOUNDARY[0])


wtest.stream_encode_multipart = stream_encode_multipart  # used by the refactored method


# ---------------------------------------------------------------- ORIGINAL
def orig_get_environ(self):
    input_stream = self.input_stream
    content_length = self.content_length

    mimetype = self.mimetype
    content_type = self.content_type

    if input_stream is not None:
        start_pos = input_stream.tell()
        input_stream.seek(0, 2)
        end_pos = input_stream.tell()
        input_stream.seek(start_pos)
        content_length = end_pos - start_pos
    elif mimetype == "multipart/form-data":
        input_stream, content_length, boundary = stream_encode_multipart(
            CombinedMultiDict([self.form, self.files])
        )
        content_type = f'{mimetype}; boundary="{boundary}"'
    elif mimetype == "application/x-www-form-urlencoded":
        form_encoded = _urlencode(self.form).encode("ascii")
        content_length = len(form_encoded)
        input_stream = BytesIO(form_encoded)
    else:
        input_stream = BytesIO()

    result = {}
    if self.environ_base:
        result.update(self.environ_base)

    def _path_encode(x: str) -> str:
        return _wsgi_encoding_dance(unquote(x))

    raw_uri = _wsgi_encoding_dance(self.request_uri)
    result.update(
        {
            "REQUEST_METHOD": self.method,
            "SCRIPT_NAME": _path_encode(self.script_root),
            "PATH_INFO": _path_encode(self.path),
            "QUERY_STRING": _wsgi_encoding_dance(self.query_string),
            # Non-standard, added by mod_wsgi, uWSGI
            "REQUEST_URI": raw_uri,
            # Non-standard, added by gunicorn
            "RAW_URI": raw_uri,
            "SERVER_NAME": self.server_name,
            "SERVER_PORT": str(self.server_port),
            "HTTP_HOST": self.host,
            "SERVER_PROTOCOL": self.server_protocol,
            "wsgi.version": self.wsgi_version,
            "wsgi.url_scheme": self.url_scheme,
            "wsgi.input": input_stream,
            "wsgi.errors": self.errors_stream,
            "wsgi.multithread": self.multithread,
            "wsgi.multiprocess": self.multiprocess,
            "wsgi.run_once": self.run_once,
        }
    )

    headers = self.headers.copy()
    # Don't send these as headers, they're part of the environ.
    headers.remove("Content-Type")
    headers.remove("Content-Length")

    if content_type is not None:
        result["CONTENT_TYPE"] = content_type

    if content_length is not None:
        result["CONTENT_LENGTH"] = str(content_length)

    combined_headers = defaultdict(list)

    for key, value in headers.to_wsgi_list():
        combined_headers[f"HTTP_{key.upper().replace('-', '_')}"].append(value)

    for key, values in combined_headers.items():
        result[key] = ", ".join(values)

    if self.environ_overrides:
        result.update(self.environ_overrides)

    return result


# ---------------------------------------------------------------- generators
UNI = "aZ09 _-.;=*'%/,:&+?#é€ßжш中\U0001f600​\x7f\t"
UNI_Q = UNI + '"\\\r\n'
EXTS = ["", ".txt", ".png", ".json", ".bin"]


def text(r, lo=0, hi=8, alpha=UNI):
    return "".join(r.choice(alpha) for _ in range(r.randint(lo, hi)))


def payload(r, boundary):
    b = boundary.encode()
    atoms = [b"\r", b"\n", b"\r\n", b"--", b"-", b"--" + b, b"\r\n--" + b[:-1], b"a", b"\x00", b"\xff", b" "]
    return b"".join(r.choice(atoms) for _ in range(r.randint(0, 10)))


class OddStream:
    """seekable stream whose seek() returns None (like older SpooledTemporaryFile)"""

    def __init__(self, data, pos):
        self._b = BytesIO(data)
        self._b.seek(pos)
        self.log = []

    def tell(self):
        self.log.append("tell")
        return self._b.tell()

    def seek(self, *a):
        self.log.append(("seek",) + a)
        self._b.seek(*a)

    def read(self, *a):
        return self._b.read(*a)

    def close(self):
        pass


def describe(r):
    d = {"boundary": r.choice(["bnd", "x", "----WebKitFormBoundary7MA4YWxk", "AaB03x" * 4])}
    d["path"] = r.choice(["/", "/a b", "/é/%E2%82%AC", "/p?x=1&y=%20z", "/q?" + text(r, 0, 6), "", "/%zz", "/a#frag"])
    d["base_url"] = r.choice([None, None, "http://example.org:8080/root/", "https://ex.com/sc%20ript", "http://localhost/é"])
    d["method"] = r.choice(["GET", "POST", "PUT"])
    mode = r.choice(["form", "form", "files", "files", "stream", "oddstream", "bytes", "str", "none", "json", "query"])
    d["mode"] = mode
    fields = [(text(r, 0, 6), text(r, 0, 10, UNI_Q)) for _ in range(r.randint(0, 4))]
    if r.random() < 0.3 and fields:
        fields.append((fields[0][0], text(r, 0, 4)))  # repeated key
    d["fields"] = fields
    d["files"] = [(text(r, 0, 6), payload(r, d["boundary"]), text(r, 1, 6) + r.choice(EXTS), r.choice([None, "text/plain", "application/x-foo"])) for _ in range(r.randint(1, 3))]
    d["order_seed"] = r.randint(0, 10**9)
    d["stream_data"] = payload(r, "zz") * r.randint(0, 3)
    d["stream_pos"] = r.randint(0, 5)
    d["query"] = r.choice([None, None, [(text(r, 0, 5), text(r, 0, 8, UNI_Q)) for _ in range(r.randint(0, 4))], "a=1&b=%C3%A9&&c", "é=€"])
    if d["query"] is not None and "?" in d["path"]:
        d["query"] = None
    hdrs = []
    for _ in range(r.randint(0, 4)):
        hdrs.append((r.choice(["X-Foo", "x-foo", "X_Foo", "Accept", "Cookie", "Host", "Content-Type", "Content-Length", "content-md5", "X-Bar-Baz"]),
                     r.choice(["1", "a, b", "text/plain; charset=utf-8", "multipart/form-data", "é", "", "42"])))
    d["headers"] = hdrs if r.random() < 0.6 else None
    d["content_type"] = r.choice([None, None, None, "multipart/form-data", "application/x-www-form-urlencoded", "text/plain", "application/x-www-form-urlencoded; charset=utf-8"])
    d["content_length"] = r.choice([None, None, None, 0, 7, 1000])
    d["environ_base"] = r.choice([None, None, {"REMOTE_ADDR": "1.2.3.4", "wsgi.input": "base", "HTTP_X_FOO": "base"}, {}])
    d["environ_overrides"] = r.choice([None, None, {"REQUEST_METHOD": "PATCH", "HTTP_X_BAR_BAZ": "ov", "custom": 1}, {}])
    d["multithread"] = r.random() < 0.3
    d["url_scheme"] = r.choice([None, None, "https"])
    return d


def build(d):
    kw = {}
    mode = d["mode"]
    opened = []
    if mode == "form":
        md = MultiDict()
        for k, v in d["fields"]:
            md.add(k, v)
        kw["data"] = md
    elif mode == "files":
        rr = random.Random(d["order_seed"])
        order = [("f", x) for x in d["fields"]] + [("u", x) for x in d["files"]]
        rr.shuffle(order)
        md = MultiDict()
        for kind, x in order:
            if kind == "f":
                md.add(x[0], x[1])
            else:
                md.add(x[0], FileStorage(BytesIO(x[1]), filename=x[2], content_type=x[3]))
        kw["data"] = md
    elif mode == "stream":
        s = BytesIO(d["stream_data"])
        s.seek(min(d["stream_pos"], len(d["stream_data"])))
        kw["input_stream"] = s
    elif mode == "oddstream":
        s = OddStream(d["stream_data"], min(d["stream_pos"], len(d["stream_data"])))
        opened.append(s)
        kw["input_stream"] = s
    elif mode == "bytes":
        kw["data"] = d["stream_data"]
    elif mode == "str":
        kw["data"] = text(random.Random(d["order_seed"]), 0, 10)
    elif mode == "json":
        kw["json"] = {"a": [1, "é"], "b": d["fields"]}
    elif mode == "query":
        pass
    if d["query"] is not None:
        if isinstance(d["query"], list):
            md = MultiDict()
            for k, v in d["query"]:
                md.add(k, v)
            kw["query_string"] = md
        else:
            kw["query_string"] = d["query"]
    if d["headers"] is not None:
        kw["headers"] = Headers(d["headers"])
    if d["content_type"] is not None and mode != "json":
        kw["content_type"] = d["content_type"]
    if d["content_length"] is not None:
        kw["content_length"] = d["content_length"]
    if d["environ_base"] is not None:
        kw["environ_base"] = dict(d["environ_base"])
    if d["environ_overrides"] is not None:
        kw["environ_overrides"] = dict(d["environ_overrides"])
    if d["url_scheme"] is not None and d["base_url"] is None:
        kw["url_scheme"] = d["url_scheme"]
    kw["multithread"] = d["multithread"]
    return EnvironBuilder(path=d["path"], base_url=d["base_url"], method=d["method"], **kw), opened


def snapshot(env):
    """environ as an ordered, comparable structure + parsed request data"""
    items = []
    for k, v in env.items():
        if k == "wsgi.input" and hasattr(v, "read"):
            pos = v.tell()
            body = v.read()
            v.seek(pos)
            items.append((k, type(v).__name__, pos, body))
        elif k == "wsgi.errors":
            items.append((k, v is sys.stderr))
        else:
            items.append((k, type(v).__name__, v))
    parsed = None
    if hasattr(env.get("wsgi.input"), "read"):
        try:
            req = Request(env)
            parsed = (
                list(req.args.items(multi=True)),
                list(req.form.items(multi=True)),
                [(k, f.read(), f.filename, f.content_type, list(f.headers)) for k, f in req.files.items(multi=True)],
            )
        except Exception as e:  # noqa: B902
            parsed = ("exc", type(e).__name__)
    return items, parsed


def run(fn, d):
    _BOUNDARY[0] = d["boundary"]
    try:
        builder, opened = build(d)
    except Exception as e:  # noqa: B902
        return ("build-exc", type(e).__name__)
    try:
        env = fn(builder)
        out = ("ok",) + snapshot(env) + ([o.log for o in opened],)
    except Exception as e:  # noqa: B902
        out = ("exc", type(e).__name__, str(e))
    try:
        builder.close()
    except Exception:  # noqa: B902
        pass
    return out


rng = random.Random(20260504)
N = 6000
bad = 0
kinds = defaultdict(int)
identity = 0
for i in range(N):
    d = describe(rng)
    a = run(orig_get_environ, d)
    b = run(EnvironBuilder.get_environ, d)
    kinds[(d["mode"], a[0])] += 1
    if a != b:
        bad += 1
        if bad < 10:
            print("MISMATCH", d, "\n  ", a, "\n  ", b)
    elif a[0] == "ok" and d["mode"] in ("form", "files") and isinstance(a[2], tuple) and a[2][1] == d["fields"]:
        identity += 1

print(dict(kinds))
print(f"compared {N} builders, {identity} form/files cases whose parsed fields equal the input, mismatches={bad}")
print("PASS" if bad == 0 else "FAIL")
sys.exit(0 if bad == 0 else 1)
