"""Differential check for refactoring 2 (werkzeug.sansio.http.parse_cookie).

Run: cd /tmp/wt9-C13 && PYTHONPATH=/tmp/wt9-C13/src /venv/bin/python /tmp/twin5-C13/2/diff_check.py
The ORIGINAL parse_cookie body is pasted below and executed in the module
namespace of werkzeug.sansio.http (shares _cookie_re, _cookie_unslash_re,
_cookie_unslash_replace and ds). Outputs (type of container, ordered multi
items) and exception type/message are compared on generated Cookie headers,
on dump_cookie output for random Unicode values (round trip), with several
container classes, and through werkzeug.http.parse_cookie / Request.cookies.
"""
from __future__ import annotations

import random
import sys
import types
import warnings

import werkzeug.sansio.http as S
from werkzeug import http as H
from werkzeug.datastructures import ImmutableMultiDict
from werkzeug.datastructures import MultiDict
from werkzeug.datastructures import OrderedMultiDict
from werkzeug.wrappers import Request

ORIG_SRC = '''
def parse_cookie_orig(cookie=None, cls=None):
    if cls is None:
        cls = t.cast("type[ds.MultiDict[str, str]]", ds.MultiDict)

    if not cookie:
        return cls()

    cookie = f"{cookie};"
    out = []

    for ck, cv in _cookie_re.findall(cookie):
        ck = ck.strip()
        cv = cv.strip()

        if not ck:
            continue

        if len(cv) >= 2 and cv[0] == cv[-1] == '"':
            # Work with bytes here, since a UTF-8 character could be multiple bytes.
            cv = _cookie_unslash_re.sub(
                _cookie_unslash_replace, cv[1:-1].encode()
            ).decode(errors="replace")

        out.append((ck, cv))

    return cls(out)
'''
_ns: dict = {}
exec(compile(ORIG_SRC, "<orig>", "exec"), _ns)
parse_cookie_orig = types.FunctionType(
    _ns["parse_cookie_orig"].__code__,
    S.__dict__,
    "parse_cookie_orig",
    _ns["parse_cookie_orig"].__defaults__,
)
parse_cookie_new = S.parse_cookie

rnd = random.Random(0xC13 + 2)

ATOMS = [
    '"', '"', '""', '\\', '\\"', '\\\\', "\\073", "\\054", "\\377", "\\400", "\\12",
    "\\303\\251", "\\342\\202\\254", "\\200", "\\0", ";", ";", "; ", " ;", "=", "=",
    " = ", ",", " ", "\t", "\n", "\r", "\x0b", "\x0c", "\x00", "\x1f", "\x7f", "\x80",
    "\xa0", " ", "　", "a", "b", "key", "val", "é", "€", "\U0001f36a",
    "\ud800", "\udcff", "$Version", "Path=/", "0", "7",
]


def rand_header():
    n = rnd.randrange(0, 14)
    return "".join(rnd.choice(ATOMS) for _ in range(n))


def rand_value(maxlen=10):
    out = []
    mode = rnd.random()
    for _ in range(rnd.randrange(0, maxlen)):
        if mode < 0.5:
            out.append(rnd.choice('";,\\ \t\n\x00\x7f\x80=é€a0/'))
        else:
            out.append(chr(rnd.choice([rnd.randrange(0x100), rnd.randrange(0x3000), rnd.randrange(0x110000)])))
    return "".join(out)


def snapshot(rv):
    if isinstance(rv, MultiDict):
        return (type(rv), list(rv.items(multi=True)))
    if isinstance(rv, dict):
        return (type(rv), list(rv.items()))
    return (type(rv), rv)


def call(fn, *a, **kw):
    with warnings.catch_warnings():
        warnings.simplefilter("ignore")
        try:
            return ("ok", snapshot(fn(*a, **kw)))
        except BaseException as e:  # noqa: B036
            return ("exc", type(e), str(e))


class Recorder(list):
    """A cls that records exactly what it is constructed with."""

    def __init__(self, *args):
        super().__init__([(type(a), list(a)) for a in args])


CLASSES = [None, MultiDict, dict, OrderedMultiDict, ImmutableMultiDict, Recorder, list]


def main():
    bad = 0
    total = 0

    def compare(cookie, cls, label):
        nonlocal bad, total
        total += 1
        with warnings.catch_warnings():
            warnings.simplefilter("ignore")
            o = call(parse_cookie_orig, cookie, cls) if cls is not None else call(parse_cookie_orig, cookie)
            n = call(parse_cookie_new, cookie, cls) if cls is not None else call(parse_cookie_new, cookie)
        if o != n:
            bad += 1
            if bad < 10:
                print("MISMATCH", label, repr(cookie), cls, "\n  orig:", o, "\n  new :", n)

    # 1. random grammar-ish headers
    for _ in range(30000):
        compare(rand_header(), rnd.choice(CLASSES), "rand")

    # 2. edge inputs
    for c in [None, "", ";", ";;", "=", "=;", "a", "a=", '"', 'a="', 'a=""', 'a="\\"', 'a="b";c="d"', 'a="b" ; c', " a = b ; c = \"d e\" "]:
        for cls in CLASSES:
            compare(c, cls, "edge")

    # 3. round trip: every dump_cookie output parses the same, and gives back the value
    for _ in range(10000):
        v = rand_value()
        k = rnd.choice(["k", "sid", "a b", "x.y"])
        try:
            hdr = H.dump_cookie(k, v, path=None).encode("latin1").decode("latin1")
        except UnicodeError:
            continue
        compare(hdr, None, "roundtrip")
        o = parse_cookie_orig(hdr)
        n = parse_cookie_new(hdr)
        total += 1
        if o.get(k) != n.get(k) or n.get(k) != v:
            bad += 1
            print("ROUNDTRIP MISMATCH", repr(v), repr(hdr), o, n)
        # multiple cookies joined as a client would
        v2 = rand_value()
        try:
            hdr2 = hdr + "; " + H.dump_cookie("z", v2, path=None)
        except UnicodeError:
            continue
        compare(hdr2, None, "roundtrip2")

    # 4. every single code point / every byte escape inside quotes
    for cp in list(range(0x0, 0x500)) + [0x2028, 0x2029, 0x3000, 0xFEFF, 0xFFFF, 0x10000, 0x10FFFF, 0xD800]:
        ch = chr(cp)
        for tmpl in ('a="{}"', "a={}", 'a="x{}', 'a={}"', '{}=b', 'a="\\{}"', ' a = "{}" ;{}'):
            compare(tmpl.replace("{}", ch), None, "cp")
    for b in range(0o1000):
        compare('a="\\%03o"' % b, None, "octal")
        compare('a="\\%o"' % b, None, "octal-short")

    # 5. via the wrappers that call into it
    S_orig = S.parse_cookie
    for _ in range(3000):
        h = rand_header()
        try:
            h.encode("latin1")
        except UnicodeError:
            h = h.encode("utf-8", "replace").decode("latin1")
        total += 1
        env = {"HTTP_COOKIE": h, "REQUEST_METHOD": "GET", "wsgi.url_scheme": "http", "SERVER_NAME": "x", "SERVER_PORT": "80"}
        n1 = call(H.parse_cookie, env)
        n2 = call(lambda e: Request(e).cookies, dict(env))
        S.parse_cookie = parse_cookie_orig
        try:
            o1 = call(H.parse_cookie, env)
            o2 = call(lambda e: Request(e).cookies, dict(env))
        finally:
            S.parse_cookie = S_orig
        if o1 != n1 or o2 != n2:
            bad += 1
            print("WRAPPER MISMATCH", repr(h), o1, n1, o2, n2)

    print(f"comparisons={total} mismatches={bad}")
    print("PASS" if bad == 0 else "FAIL")
    return 0 if bad == 0 else 1


if __name__ == "__main__":
    sys.exit(main())
