"""Differential check for refactoring 2 (sansio.http.is_resource_modified).

Compares the refactored function from the worktree against a copy of the
ORIGINAL implementation on generated validator / header combinations, and
additionally drives Response.make_conditional end-to-end against statuses
computed with the original function.
"""
import random
from datetime import datetime, timedelta, timezone

from werkzeug._internal import _dt_as_utc
from werkzeug.http import generate_etag, http_date, parse_date, parse_etags
from werkzeug.http import parse_if_range_header, unquote_etag
from werkzeug.sansio.http import is_resource_modified as new_fn


def orig_fn(
    http_range=None,
    http_if_range=None,
    http_if_modified_since=None,
    http_if_none_match=None,
    http_if_match=None,
    etag=None,
    data=None,
    last_modified=None,
    ignore_if_range=True,
):
    if etag is None and data is not None:
        etag = generate_etag(data)
    elif data is not None:
        raise TypeError("both data and etag given")

    unmodified = False
    if isinstance(last_modified, str):
        last_modified = parse_date(last_modified)

    if last_modified is not None:
        last_modified = _dt_as_utc(last_modified.replace(microsecond=0))

    if_range = None
    if not ignore_if_range and http_range is not None:
        if_range = parse_if_range_header(http_if_range)

    if if_range is not None and if_range.date is not None:
        modified_since = if_range.date
    else:
        modified_since = parse_date(http_if_modified_since)

    if modified_since and last_modified and last_modified <= modified_since:
        unmodified = True

    if etag:
        etag, _ = unquote_etag(etag)

        if if_range is not None and if_range.etag is not None:
            unmodified = parse_etags(if_range.etag).contains(etag)
        else:
            if_none_match = parse_etags(http_if_none_match)
            if if_none_match:
                unmodified = if_none_match.contains_weak(etag)

            if_match = parse_etags(http_if_match)
            if if_match:
                unmodified = not if_match.contains(etag)

    return not unmodified


def run(fn, kw):
    try:
        r = fn(**kw)
        return ("ok", type(r), r)
    except Exception as e:  # noqa: BLE001
        return ("exc", type(e))


rnd = random.Random(2211)
base = datetime(2024, 5, 17, 12, 30, 15, tzinfo=timezone.utc)
dts = [base + timedelta(seconds=s) for s in (-86400, -2, -1, 0, 1, 2, 86400)]
dts += [base.replace(microsecond=m) for m in (1, 500000, 999999)]
dts += [base.replace(tzinfo=None), base.replace(tzinfo=None, microsecond=7),
        base.astimezone(timezone(timedelta(hours=2)))]
date_hdrs = [None, "", "garbage", "Fri, 17 May 2024 12:30:15", "17 May 2024"] + [
    http_date(d) for d in dts
]
tags = ["abc", "xyz", "", "a b", 'q"uote', "W/abc", "*"]


def etag_list_header():
    k = rnd.random()
    if k < 0.2:
        return None
    if k < 0.27:
        return "*"
    if k < 0.32:
        return rnd.choice(["", " ", ",", "garbage", '"unterminated', "W/", 'W/""'])
    parts = []
    for _ in range(rnd.randint(1, 3)):
        t = rnd.choice(tags)
        style = rnd.random()
        if style < 0.45:
            parts.append(f'"{t}"')
        elif style < 0.8:
            parts.append(f'W/"{t}"')
        elif style < 0.9:
            parts.append(f'w/"{t}"')
        else:
            parts.append(t)
    if rnd.random() < 0.08:
        parts.append("*")
    return rnd.choice([", ", ",", " , "]).join(parts)


def resp_etag():
    k = rnd.random()
    if k < 0.2:
        return None
    t = rnd.choice(tags)
    return rnd.choice([t, f'"{t}"', f'W/"{t}"', f'w/"{t}"', f' "{t}" '])


def if_range_header():
    k = rnd.random()
    if k < 0.25:
        return None
    if k < 0.6:
        return rnd.choice(date_hdrs)
    t = rnd.choice(tags)
    return rnd.choice([f'"{t}"', f'W/"{t}"', t, "*"])


def last_mod():
    k = rnd.random()
    if k < 0.2:
        return None
    if k < 0.7:
        return rnd.choice(dts)
    return rnd.choice(date_hdrs)


cases = []
for _ in range(40000):
    kw = dict(
        http_range=rnd.choice([None, "bytes=0-5", "", "junk"]),
        http_if_range=if_range_header(),
        http_if_modified_since=rnd.choice(date_hdrs),
        http_if_none_match=etag_list_header(),
        http_if_match=etag_list_header(),
        etag=resp_etag(),
        data=None,
        last_modified=last_mod(),
        ignore_if_range=rnd.random() < 0.5,
    )
    k = rnd.random()
    if k < 0.08:
        kw["data"] = rnd.choice([b"", b"abc", b"hello world"])
        if rnd.random() < 0.7:
            kw["etag"] = None
            # make matches against generated etag possible
            g = generate_etag(kw["data"])
            if rnd.random() < 0.5:
                kw["http_if_none_match"] = rnd.choice([g, f'W/{g}', f'{g}, "abc"'])
            if rnd.random() < 0.3:
                kw["http_if_match"] = rnd.choice([g, f'W/{g}', '"abc"'])
    elif k < 0.1:
        # out-of-domain values: exception types / order must still agree
        bad = rnd.choice([b"bytes", 5, ["x"]])
        kw[rnd.choice(["http_if_none_match", "http_if_match", "http_if_range",
                       "http_if_modified_since", "etag", "last_modified"])] = bad
    cases.append(kw)

bad = 0
seen = {}
for kw in cases:
    a, b = run(orig_fn, kw), run(new_fn, kw)
    seen[a[:2] + a[2:]] = seen.get(a[:2] + a[2:], 0) + 1
    if a != b:
        bad += 1
        if bad < 10:
            print("MISMATCH", kw, a, b)
print(f"{len(cases)} direct calls; outcome histogram: {seen}; mismatches: {bad}")

# ---- end-to-end through Response.make_conditional -------------------------
from werkzeug.test import EnvironBuilder
from werkzeug.wrappers import Response
from werkzeug.exceptions import RequestedRangeNotSatisfiable

e2e = 0
for _ in range(6000):
    hdrs = {}
    inm, im, ims, ir = (etag_list_header(), etag_list_header(),
                        rnd.choice(date_hdrs), if_range_header())
    rng = rnd.choice([None, "bytes=0-3", "bytes=2-", "bytes=-4", "bytes=50-"])
    for k, v in (("If-None-Match", inm), ("If-Match", im), ("If-Modified-Since", ims),
                 ("If-Range", ir), ("Range", rng)):
        if v is not None and rnd.random() < 0.6:
            hdrs[k] = v
    method = rnd.choice(["GET", "GET", "HEAD", "POST"])
    env = EnvironBuilder(method=method, headers=hdrs).get_environ()
    body = b"0123456789abcdef"
    resp = Response(body)
    et = resp_etag()
    if et is not None and et.strip():
        resp.headers["ETag"] = et
    lm = rnd.choice(dts + [None])
    if lm is not None:
        resp.last_modified = lm
    # expected outcome computed with the ORIGINAL function
    def orig_env(etag=None, data=None, last_modified=None, ignore_if_range=True):
        return orig_fn(
            http_range=env.get("HTTP_RANGE"), http_if_range=env.get("HTTP_IF_RANGE"),
            http_if_modified_since=env.get("HTTP_IF_MODIFIED_SINCE"),
            http_if_none_match=env.get("HTTP_IF_NONE_MATCH"),
            http_if_match=env.get("HTTP_IF_MATCH"),
            etag=etag, data=data, last_modified=last_modified,
            ignore_if_range=ignore_if_range)
    exp = None
    if method in ("GET", "HEAD"):
        range_ok = ("HTTP_IF_RANGE" not in env or not orig_env(
            resp.headers.get("etag"), None, resp.headers.get("last-modified"),
            ignore_if_range=False)) and "HTTP_RANGE" in env
        modified = orig_env(resp.headers.get("etag"), None,
                            resp.headers.get("last-modified"))
        exp = (range_ok, modified)
    try:
        resp.make_conditional(env, accept_ranges=True, complete_length=len(body))
        got = (resp.status_code, b"".join(resp.iter_encoded()) if resp.status_code in (200, 206) else b"")
    except RequestedRangeNotSatisfiable:
        got = (416, b"")
    if exp is None:
        ok = got == (200, body)
    else:
        range_ok, modified = exp
        if got[0] == 416:
            ok = range_ok and rng == "bytes=50-"
        elif got[0] == 206:
            ok = range_ok
        elif got[0] in (304, 412):
            has_if_match = bool(parse_etags(env.get("HTTP_IF_MATCH")))
            ok = (not range_ok) and not modified and (got[0] == 412) == has_if_match
        else:
            ok = (not range_ok) and modified and got == (200, body)
    e2e += 1
    if not ok:
        bad += 1
        if bad < 10:
            print("E2E MISMATCH", method, hdrs, et, lm, exp, got)
print(f"{e2e} end-to-end make_conditional checks")
print("PASS" if bad == 0 else "FAIL")
