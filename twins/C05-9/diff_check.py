"""Differential check for refactoring 3 (Headers.setlist / __setitem__ / update).

Run: cd /tmp/wt9-C05 && PYTHONPATH=/tmp/wt9-C05/src /venv/bin/python /tmp/twin5-C05/3/diff_check.py
"""
import collections.abc as cabc
import random
from types import MappingProxyType

from werkzeug.datastructures import Headers
from werkzeug.datastructures import MultiDict
from werkzeug.datastructures.headers import _str_header_value


# ---- ORIGINAL implementations (verbatim from the unmodified tree) ----
class OrigHeaders(Headers):
    def setlist(self, key, values):
        if values:
            values_iter = iter(values)
            self.set(key, next(values_iter))

            for value in values_iter:
                self.add(key, value)
        else:
            self.remove(key)

    def __setitem__(self, key, value):
        """Like :meth:`set` but also supports index/slice based setting."""
        if isinstance(key, str):
            self.set(key, value)
        elif isinstance(key, int):
            self._list[key] = value[0], _str_header_value(value[1])
        else:
            self._list[key] = [(k, _str_header_value(v)) for k, v in value]

    def update(self, arg=None, /, **kwargs):
        if arg is not None:
            if isinstance(arg, (Headers, MultiDict)):
                for key in arg.keys():
                    self.setlist(key, arg.getlist(key))
            elif isinstance(arg, cabc.Mapping):
                for key, value in arg.items():
                    if isinstance(value, (list, tuple, set)):
                        self.setlist(key, value)
                    else:
                        self.set(key, value)
            else:
                for key, value in arg:
                    self.set(key, value)

        for key, value in kwargs.items():
            if isinstance(value, (list, tuple, set)):
                self.setlist(key, value)
            else:
                self.set(key, value)


assert "_set_one_or_many" in Headers.__dict__, "refactoring 3 not applied"

KEYS = [
    "Location", "location", "Content-Length", "content-length", "Content-Type",
    "X-Foo", "x-foo", "X-Bar", "Set-Cookie", "Vary", "",
]  # fmt: skip
KW_KEYS = ["location", "x_foo", "X_Bar", "content_type", "vary"]
SCALARS = [
    "a", "", "text/plain", "foo\nbar", "foo\rbar", "ok\r\nSet-Cookie: evil=1",
    0, 12, 3.5, None, b"bytes", b"by\ntes", "üñï", True,
]  # fmt: skip


def rscalar(r):
    return r.choice(SCALARS)


def rmulti(r):
    """A value for mapping/kwargs style update: scalar or list/tuple/set/other."""
    k = r.random()
    vals = [rscalar(r) for _ in range(r.randint(0, 3))]
    if k < 0.35:
        return rscalar(r)
    if k < 0.55:
        return vals
    if k < 0.7:
        return tuple(vals)
    if k < 0.8:
        try:
            return set(vals)
        except TypeError:
            return vals
    if k < 0.87:
        try:
            return frozenset(vals)  # NOT list/tuple/set -> goes through set()
        except TypeError:
            return vals
    if k < 0.93:
        return ("gen", vals)  # replaced by a fresh generator per run
    return {"d": 1}


class OneShot:
    """Generator-like one-shot iterator with an address-free repr (a real
    generator's repr contains its id, which would differ between the runs)."""

    def __init__(self, items):
        self._it = iter(list(items))

    def __iter__(self):
        return self

    def __next__(self):
        return next(self._it)

    def __repr__(self):
        return "<OneShot>"


def realize(v):
    if isinstance(v, tuple) and len(v) == 2 and v[0] == "gen" and isinstance(v[1], list):
        return OneShot(v[1])
    return v


def rpairs(r, lo=0, hi=4):
    return [(r.choice(KEYS), rscalar(r)) for _ in range(r.randint(lo, hi))]


def make_ops(r):
    ops = []
    for _ in range(r.randint(1, 5)):
        kind = r.choice(
            ["setlist", "setlist", "item_str", "item_int", "item_slice", "item_odd",
             "upd_headers", "upd_md", "upd_dict", "upd_proxy", "upd_pairs", "upd_kwargs",
             "upd_bad", "ior", "or", "setlistdefault"]
        )  # fmt: skip
        if kind in ("setlist", "setlistdefault"):
            v = r.choice(
                [
                    [rscalar(r) for _ in range(r.randint(0, 4))],
                    tuple(rscalar(r) for _ in range(r.randint(0, 3))),
                    ("gen", [rscalar(r) for _ in range(r.randint(0, 3))]),
                    "str-values",
                    "",
                    None,
                    0,
                    5,
                ]
            )
            ops.append((kind, r.choice(KEYS), v))
        elif kind == "item_str":
            ops.append((kind, r.choice(KEYS), rscalar(r)))
        elif kind == "item_int":
            v = r.choice(
                [
                    (r.choice(KEYS), rscalar(r)),
                    [r.choice(KEYS), rscalar(r)],
                    (r.choice(KEYS), rscalar(r), "extra"),
                    (r.choice(KEYS),),
                    "ab",
                    "a\n",
                    5,
                ]
            )
            ops.append((kind, r.randint(-6, 6), v))
        elif kind == "item_slice":
            sl = slice(
                r.choice([None, 0, 1, 2, -1, -2]),
                r.choice([None, 0, 1, 3, -1]),
                r.choice([None, None, 1, 2, -1]),
            )
            v = r.choice(
                [
                    rpairs(r),
                    rpairs(r, 1, 2) + [("X-Three", "a", "b")],
                    ("gen", rpairs(r)),
                    ["ab", "c\n"],
                    5,
                ]
            )
            ops.append((kind, sl, v))
        elif kind == "item_odd":
            ops.append((kind, r.choice([None, 1.5, b"x-foo", True]), r.choice([rpairs(r), (r.choice(KEYS), rscalar(r))])))
        elif kind in ("upd_headers", "upd_md"):
            ops.append((kind, [(k, v) for k, v in rpairs(r, 0, 5)], None))
        elif kind in ("upd_dict", "upd_proxy", "or", "ior"):
            ops.append((kind, {r.choice(KEYS): rmulti(r) for _ in range(r.randint(0, 4))}, None))
        elif kind == "upd_pairs":
            v = r.choice([rpairs(r), rpairs(r, 1, 2) + [("a", "b", "c")], ("gen", rpairs(r)), ["ab", "cd\n"[:2]], 7])
            ops.append((kind, v, None))
        elif kind == "upd_kwargs":
            ops.append(
                (
                    kind,
                    r.choice([None, rpairs(r, 0, 2), {r.choice(KEYS): rmulti(r)}]),
                    {r.choice(KW_KEYS): rmulti(r) for _ in range(r.randint(1, 3))},
                )
            )
        else:  # upd_bad
            ops.append((kind, r.choice([5, 1.5, object, "abc", "ab"]), None))
    return ops


def apply_op(cls, h, op):
    kind, a, b = op
    a = realize(a)
    if kind == "setlist":
        return h.setlist(a, realize(b))
    if kind == "setlistdefault":
        return h.setlistdefault(a, realize(b))
    if kind in ("item_str", "item_int", "item_slice", "item_odd"):
        h[a] = realize(b)
        return None
    if kind == "upd_headers":
        src = Headers()
        src._list.extend((k, str(v)) for k, v in a)
        return h.update(src)
    if kind == "upd_md":
        return h.update(MultiDict(a))
    if kind == "upd_dict":
        return h.update({k: realize(v) for k, v in a.items()})
    if kind == "upd_proxy":
        return h.update(MappingProxyType({k: realize(v) for k, v in a.items()}))
    if kind == "upd_pairs":
        return h.update(a)
    if kind == "upd_kwargs":
        kw = {k: realize(v) for k, v in b.items()}
        if isinstance(a, dict):
            a = {k: realize(v) for k, v in a.items()}
        return h.update(a, **kw)
    if kind == "upd_bad":
        return h.update(a)
    if kind == "ior":
        h |= {k: realize(v) for k, v in a.items()}
        return None
    if kind == "or":
        new = h | {k: realize(v) for k, v in a.items()}
        return (type(new) is cls, list(new._list))
    raise AssertionError(kind)


def run(cls, init, ops):
    h = cls()
    h._list.extend(init)
    log = []
    for op in ops:
        try:
            log.append(("ok", apply_op(cls, h, op)))
        except Exception as e:  # noqa: BLE001
            log.append(("exc", type(e).__name__, str(e)))
        log.append(list(h._list))
    return log


def main():
    rnd = random.Random(30505)
    n = 0
    stats = {"ok": 0, "exc": 0}
    for _ in range(25000):
        init = [(rnd.choice(KEYS), str(rnd.choice(["a", "b", 1, ""]))) for _ in range(rnd.randint(0, 6))]
        ops = make_ops(rnd)
        a = run(OrigHeaders, init, ops)
        b = run(Headers, init, ops)
        if a != b:
            print("MISMATCH", init, ops)
            print(" orig:", a)
            print(" new :", b)
            raise SystemExit(1)
        for e in a:
            if isinstance(e, tuple) and e and e[0] in stats:
                stats[e[0]] += 1
        n += 1
    print(f"PASS ({n} cases; op outcomes {stats})")


if __name__ == "__main__":
    main()
