# same __future__ import as werkzeug/routing/rules.py, so that compile() in the pasted
# original inherits the same compiler flags (co_flags) as in the library module
from __future__ import annotations

# --- shared scenario generator (pasted into every diff_check.py) ---
import random
import uuid as _uuid
from urllib.parse import urlsplit, unquote

from werkzeug.routing import Map, Rule, Submount, Subdomain
from werkzeug.datastructures import MultiDict

ALPHABET = list("abcXYZ019 ;?#%&=+@:,!$'()*~-_.") + ["é", "ü", "中", "\U0001f600", "Ж"]


def rand_text(rng, lo=1, hi=8):
    return "".join(rng.choice(ALPHABET) for _ in range(rng.randint(lo, hi)))


def rand_path(rng):
    segs = [rand_text(rng, 1, 5) for _ in range(rng.randint(1, 4))]
    return "/".join(segs)


def make_map(rng, idx):
    host_matching = idx % 5 == 4
    host = "example.org" if host_matching else None

    def R(rule, **kw):
        if host_matching:
            kw.setdefault("host", rng.choice(["example.org", "other.example.org", "<hh>.example.net"]))
        return Rule(rule, **kw)

    rules = [
        R("/", endpoint="index"),
        R("/s/<string:v>", endpoint="s"),
        R("/sl/<string(length=3):v>", endpoint="sl"),
        R("/sm/<string(minlength=2,maxlength=5):v>", endpoint="sm"),
        R("/i/<int:v>", endpoint="i"),
        R("/is/<int(signed=True):v>", endpoint="is"),
        R("/if/<int(fixed_digits=4):v>", endpoint="if"),
        R("/im/<int(min=3,max=500):v>", endpoint="im"),
        R("/f/<float:v>", endpoint="f"),
        R("/fs/<float(signed=True):v>", endpoint="fs"),
        R("/a/<any(about,help,'foo bar',\"x;y\"):v>", endpoint="a"),
        R("/u/<uuid:v>", endpoint="u"),
        R("/p/<path:v>", endpoint="p"),
        R("/pe/<path:v>/edit", endpoint="pe"),
        R("/two/<int:a>/x/<string:b>", endpoint="two"),
        # defaults: two rules for one endpoint
        R("/d/", endpoint="d", defaults={"page": 1}),
        R("/d/page/<int:page>", endpoint="d"),
        R("/dd/<int:v>/", endpoint="dd", defaults={"v": 7}),
        # methods
        R("/m/get/<v>", endpoint="m", methods=["GET"]),
        R("/m/post/<v>", endpoint="m", methods=["POST"]),
        # alias / build_only
        R("/al/<v>", endpoint="al"),
        R("/al2/<v>", endpoint="al", alias=True),
        R("/bo/<v>", endpoint="bo", build_only=True),
        R("/ws/<v>", endpoint="ws", websocket=True),
        R("/lit é;x/<v>", endpoint="lit"),
        Submount("/sub", [Rule("/x/<string:v>", endpoint="subx"), Rule("/y/<path:v>", endpoint="suby")]),
    ]
    if not host_matching:
        rules.append(Subdomain("api", [Rule("/k/<int:v>", endpoint="k"), Rule("/ks/<v>", endpoint="ks")]))
        rules.append(Rule("/sd/<v>", endpoint="sd", subdomain="<sub>"))
        rules.append(Rule("/multi/<v>", endpoint="multi", subdomain="a"))
        rules.append(Rule("/multi2/<v>", endpoint="multi", subdomain="b"))
    else:
        rules.append(Rule("/hm/<v>", endpoint="hm", host="other.example.org"))
        rules.append(Rule("/hm2/<v>", endpoint="hm", host="example.org"))
        rules.append(Rule("/hn/<v>", endpoint="hn", host="x.example.net"))
        rules.append(Rule("/hn2/<v>", endpoint="hn", host="y.example.net"))
    kw = dict(host_matching=host_matching, sort_parameters=idx % 2 == 0)
    if idx % 3 == 0:
        kw["strict_slashes"] = False
    return Map(rules, **kw)


ENDPOINTS = [
    "index", "s", "sl", "sm", "i", "is", "if", "im", "f", "fs", "a", "u", "p", "pe",
    "two", "d", "dd", "m", "al", "bo", "ws", "lit", "subx", "suby", "k", "ks", "sd",
    "multi", "hm", "hn", "missing",
]


def rand_value(rng, ep):
    r = rng.random()
    if r < 0.06:
        return rng.choice([None, "", "a/b", -5, 3.5, "zz", object, [1, 2], ("x",), float("nan"), 1e30, True])
    if ep in ("s", "m", "al", "bo", "ws", "lit", "subx", "ks", "sd", "multi", "hm", "hn"):
        return rand_text(rng)
    if ep == "sl":
        return rand_text(rng, 3, 3) if rng.random() < 0.8 else rand_text(rng, 1, 5)
    if ep == "sm":
        return rand_text(rng, 2, 5) if rng.random() < 0.8 else rand_text(rng, 1, 8)
    if ep in ("i", "if", "k", "dd"):
        return rng.choice([0, 1, 7, 42, 9999, 12345, rng.randint(0, 10**9), str(rng.randint(0, 99))])
    if ep == "is":
        return rng.randint(-10**6, 10**6)
    if ep == "im":
        return rng.randint(0, 600)
    if ep == "f":
        return rng.choice([0.0, 1.5, 3.25, round(rng.uniform(0, 1000), 3), 7])
    if ep == "fs":
        return round(rng.uniform(-1000, 1000), 4)
    if ep == "a":
        return rng.choice(["about", "help", "foo bar", "x;y", "nope"])
    if ep == "u":
        return _uuid.UUID(int=rng.getrandbits(128)) if rng.random() < 0.9 else str(_uuid.UUID(int=rng.getrandbits(128))).upper()
    if ep in ("p", "pe", "suby"):
        return rand_path(rng)
    return rand_text(rng)


def rand_values(rng, ep):
    vals = {}
    if ep == "two":
        vals = {"a": rng.randint(0, 1000), "b": rand_text(rng)}
    elif ep == "d":
        c = rng.random()
        if c < 0.3:
            vals = {}
        elif c < 0.6:
            vals = {"page": 1}
        else:
            vals = {"page": rng.choice([1, 2, 30, "1", 1.0, True])}
    elif ep == "dd":
        vals = {} if rng.random() < 0.3 else {"v": rng.choice([7, 8, "7", 7.0])}
    elif ep in ("index", "missing"):
        vals = {}
    else:
        vals = {"v": rand_value(rng, ep)}
    if ep == "sd":
        vals["sub"] = rng.choice(["www", "api", "x-y", "ü"])
    if rng.random() < 0.1 and vals:
        vals.pop(rng.choice(sorted(vals)))
    # extra query values
    if rng.random() < 0.4:
        for _ in range(rng.randint(1, 3)):
            k = rng.choice(["q", "z", "b c", "é", "hh", "n"])
            vals[k] = rng.choice([rand_text(rng), 5, None, [rand_text(rng), 3], (1, 2), "", 2.5, True])
    if "hh" not in vals and rng.random() < 0.5:
        vals["hh"] = rng.choice(["x", "y", "www"])
    if rng.random() < 0.1:
        return MultiDict([(k, v) for k, v in vals.items() if v is not None])
    return vals


def norm(x):
    if isinstance(x, float) and x != x:
        return "nan"
    if isinstance(x, dict):
        return {k: norm(v) for k, v in x.items()}
    return x


def run_scenarios(n_maps=10, per_map=450, seed=20260104):
    """Return a list of printable outcome records."""
    rng = random.Random(seed)
    out = []
    for mi in range(n_maps):
        m = make_map(rng, mi)
        script = ["/", "/app", "/app/"][mi % 3]
        server = "example.org"
        sub = [None, "", "api", "a", "b"][mi % 5] if not m.host_matching else None
        ad = m.bind(server, script_name=script, subdomain=sub, default_method=["GET", "POST", "GET"][mi % 3])
        for _ in range(per_map):
            ep = rng.choice(ENDPOINTS)
            vals = rand_values(rng, ep)
            method = rng.choice([None, None, "GET", "POST", "PUT"])
            fe = rng.random() < 0.4
            au = rng.random() < 0.8
            rec = [mi, ep, repr(sorted(vals.items(), key=lambda kv: str(kv[0])) if not isinstance(vals, MultiDict) else sorted(vals.items(multi=True), key=lambda kv: str(kv[0]))), method, fe, au]
            try:
                url = ad.build(ep, vals, method=method, force_external=fe, append_unknown=au)
                rec.append(("url", url))
            except Exception as e:  # noqa: BLE001
                rec.append(("exc", type(e).__name__))
                out.append(rec)
                continue
            # partial build too (gives websocket flag + domain part)
            try:
                rec.append(("pb", ad._partial_build(ep, vals, method, au)))
            except Exception as e:  # noqa: BLE001
                rec.append(("pbexc", type(e).__name__))
            # match what a server would deliver
            parts = urlsplit(url)
            path = unquote(parts.path)
            root = script.rstrip("/")
            if root and path.startswith(root):
                path = path[len(root):]
            netloc = parts.netloc
            try:
                if m.host_matching:
                    a2 = m.bind(netloc or server, script_name=script)
                elif netloc:
                    sd = netloc[: -len(server)].rstrip(".") if netloc.endswith(server) else ""
                    a2 = m.bind(server, script_name=script, subdomain=sd)
                else:
                    a2 = ad
                for meth in ("GET", "POST"):
                    try:
                        mep, mvals = a2.match(path, method=meth, query_args=parts.query, websocket=(ep == "ws"))
                        rec.append(("match", meth, mep, repr(norm(mvals))))
                        try:
                            rec.append(("rebuild", a2.build(mep, mvals, method=meth, force_external=fe)))
                        except Exception as e:  # noqa: BLE001
                            rec.append(("rebuildexc", type(e).__name__))
                    except Exception as e:  # noqa: BLE001
                        rec.append(("matchexc", meth, type(e).__name__, getattr(e, "new_url", None)))
            except Exception as e:  # noqa: BLE001
                rec.append(("bindexc", type(e).__name__))
            out.append(rec)
    return out


# --- ORIGINAL implementations (copied from the unmodified tree) ---
import ast
from urllib.parse import quote

from werkzeug.routing import rules as _rules_mod
from werkzeug.routing.converters import (
    ValidationError,
    NumberConverter,
    IntegerConverter,
    FloatConverter,
)
from werkzeug.routing.rules import (
    _prefix_names,
    _CALL_CONVERTER_CODE_FMT,
    _IF_KWARGS_URL_ENCODE_AST,
    _URL_ENCODE_AST_NAMES,
)


def _orig_compile_builder(self, append_unknown=True):
    defaults = self.defaults or {}
    dom_ops = []
    url_ops = []

    opl = dom_ops
    for is_dynamic, data in self._trace:
        if data == "|" and opl is dom_ops:
            opl = url_ops
            continue
        # this seems like a silly case to ever come up but:
        # if a default is given for a value that appears in the rule,
        # resolve it to a constant ahead of time
        if is_dynamic and data in defaults:
            data = self._converters[data].to_url(defaults[data])
            opl.append((False, data))
        elif not is_dynamic:
            # safe = https://url.spec.whatwg.org/#url-path-segment-string
            opl.append((False, quote(data, safe="!$&'()*+,/:;=@")))
        else:
            opl.append((True, data))

    def _convert(elem):
        ret = _prefix_names(_CALL_CONVERTER_CODE_FMT.format(elem=elem), ast.Call)
        ret.args = [ast.Name(elem, ast.Load())]
        return ret

    def _parts(ops):
        parts = [
            _convert(elem) if is_dynamic else ast.Constant(elem)
            for is_dynamic, elem in ops
        ]
        parts = parts or [ast.Constant("")]
        # constant fold
        ret = [parts[0]]
        for p in parts[1:]:
            if isinstance(p, ast.Constant) and isinstance(ret[-1], ast.Constant):
                ret[-1] = ast.Constant(ret[-1].value + p.value)
            else:
                ret.append(p)
        return ret

    dom_parts = _parts(dom_ops)
    url_parts = _parts(url_ops)
    if not append_unknown:
        body = []
    else:
        body = [_IF_KWARGS_URL_ENCODE_AST]
        url_parts.extend(_URL_ENCODE_AST_NAMES)

    def _join(parts):
        if len(parts) == 1:  # shortcut
            return parts[0]
        return ast.JoinedStr(parts)

    body.append(
        ast.Return(ast.Tuple([_join(dom_parts), _join(url_parts)], ast.Load()))
    )

    pargs = [
        elem
        for is_dynamic, elem in dom_ops + url_ops
        if is_dynamic and elem not in defaults
    ]
    kargs = [str(k) for k in defaults]

    func_ast = _prefix_names("def _(): pass", ast.FunctionDef)
    func_ast.name = f"<builder:{self.rule!r}>"
    func_ast.args.args.append(ast.arg(".self", None))
    for arg in pargs + kargs:
        func_ast.args.args.append(ast.arg(arg, None))
    func_ast.args.kwarg = ast.arg(".kwargs", None)
    for _ in kargs:
        func_ast.args.defaults.append(ast.Constant(""))
    func_ast.body = body

    module = ast.parse("")
    module.body = [func_ast]

    for node in ast.walk(module):
        if "lineno" in node._attributes:
            node.lineno = 1
        if "end_lineno" in node._attributes:
            node.end_lineno = node.lineno
        if "col_offset" in node._attributes:
            node.col_offset = 0
        if "end_col_offset" in node._attributes:
            node.end_col_offset = node.col_offset

    code = compile(module, "<werkzeug routing>", "exec")
    return self._get_func_code(code, func_ast.name)


def _orig_to_python(self, value):
    if self.fixed_digits and len(value) != self.fixed_digits:
        raise ValidationError()
    value_num = self.num_convert(value)
    if (self.min is not None and value_num < self.min) or (
        self.max is not None and value_num > self.max
    ):
        raise ValidationError()
    return value_num


def _code_sig(f):
    c = f.__code__
    return (
        c.co_code, c.co_consts, c.co_names, c.co_varnames, c.co_argcount,
        c.co_flags, c.co_name, f.__defaults__, f.__kwdefaults__,
    )


def builder_checks():
    """Compiled builder functions must be byte-for-byte identical."""
    rng = random.Random(5)
    n = bad = 0
    extra = [
        Rule("/e1/<int:a>/<b>/<path:c>", endpoint="e1", defaults={"b": "x y;?"}),
        Rule("/e2/<a>|<b>", endpoint="e2"),
        Rule("/e3/<float:a>", endpoint="e3", defaults={"a": 1.5, "zz": 3}, subdomain="<s>"),
        Rule("/e4/<int(fixed_digits=3):a>/é ;/", endpoint="e4", defaults={"a": 7}),
        Rule("/e5/<a>", endpoint="e5", subdomain="<a>", defaults={"a": "k"}),
        Rule("/e6", endpoint="e6", host="<h>.x|y", defaults={"h": "q"}),
    ]
    for mi in range(10):
        m = make_map(rng, mi)
        if mi in (0, 4):
            for r in extra:
                m.add(r.empty())
        for rule in m.iter_rules():
            for au in (False, True):
                n += 1
                a = _code_sig(type(rule)._compile_builder(rule, au))
                b = _code_sig(_orig_compile_builder(rule, au))
                if a != b:
                    bad += 1
                    if bad <= 5:
                        print("BUILDER DIFF", rule, au)
    return n, bad


def to_python_checks(n=6000, seed=11):
    rng = random.Random(seed)
    m = Map()
    convs = []
    for mn in (None, 0, 3, -5, 2.5):
        for mx in (None, 0, 10, 500, 7.25):
            for signed in (False, True):
                convs.append(IntegerConverter(m, min=mn, max=mx, signed=signed))
                convs.append(IntegerConverter(m, fixed_digits=3, min=mn, max=mx, signed=signed))
                convs.append(FloatConverter(m, min=mn, max=mx, signed=signed))
    # incomparable bounds -> TypeError must surface identically
    convs.append(IntegerConverter(m, min="3", max=10))
    convs.append(IntegerConverter(m, min=3, max="10"))
    bad = 0

    def call(f, *a):
        try:
            r = f(*a)
            return ("ok", type(r).__name__, repr(r))
        except Exception as e:  # noqa: BLE001
            return ("exc", type(e).__name__)

    for _ in range(n):
        c = rng.choice(convs)
        s = rng.choice([
            str(rng.randint(-20, 600)), f"{rng.randint(0, 999):03d}",
            f"{rng.uniform(-10, 600):.3f}", "abc", "", "-", "1e3", "٣", " 7", "nan", "inf", "-0",
        ])
        if call(type(c).to_python, c, s) != call(_orig_to_python, c, s):
            bad += 1
            if bad <= 5:
                print("TO_PYTHON DIFF", type(c).__name__, vars(c), repr(s))
    return n, bad


def main():
    refactored = run_scenarios()
    saved = (_rules_mod.Rule._compile_builder, NumberConverter.to_python)
    _rules_mod.Rule._compile_builder = _orig_compile_builder
    NumberConverter.to_python = _orig_to_python
    try:
        original = run_scenarios()
    finally:
        _rules_mod.Rule._compile_builder, NumberConverter.to_python = saved

    assert len(original) == len(refactored) and len(original) >= 4000
    bad = [(a, b) for a, b in zip(original, refactored) if a != b]
    for a, b in bad[:5]:
        print("DIFF\n  orig:", a, "\n  new: ", b)
    print(f"{len(original)} scenarios compared, {len(bad)} differences")
    nb, bbad = builder_checks()
    print(f"{nb} compiled builders compared (bytecode/consts/signature), {bbad} differences")
    nt, tbad = to_python_checks()
    print(f"{nt} NumberConverter.to_python calls compared, {tbad} differences")
    print("PASS" if not (bad or bbad or tbad) else "FAIL")


if __name__ == "__main__":
    main()
