"""Differential check for refactoring 2 (sansio.http.is_resource_modified)."""
from __future__ import annotations

import random
from datetime import datetime, timedelta, timezone

from werkzeug._internal import _dt_as_utc
from werkzeug.http import generate_etag, http_date, parse_date, parse_etags
from werkzeug.http import parse_if_range_header, unquote_etag
from werkzeug.sansio.http import is_resource_modified as new_irm
from werkzeug.test import EnvironBuilder
from werkzeug.wrappers import Response


def orig_irm(
    http_range=None,
    http_if_range=None,
    http_if_modified_since=None,
    http_if_none_match=None,
    http_if_match=None,
    etag=None,
    data=None,
    last_modified=None,
    ignore_if_range=True,
):
    if etag is None and data is not None:
        etag = generate_etag(data)
    elif data is not None:
        raise TypeError("both data and etag given")

    unmodified = False
    if isinstance(last_modified, str):
        last_modified = parse_date(last_modified)

    if last_modified is not None:
        last_modified = _dt_as_utc(last_modified.replace(microsecond=0))

    if_range = None
    if not ignore_if_range and http_range is not None:
        if_range = parse_if_range_header(http_if_range)

    if if_range is not None and if_range.date is not None:
        modified_since = if_range.date
    else:
        modified_since = parse_date(http_if_modified_since)

    if modified_since and last_modified and last_modified <= modified_since:
        unmodified = True

    if etag:
        etag, _ = unquote_etag(etag)

        if if_range is not None and if_range.etag is not None:
            unmodified = parse_etags(if_range.etag).contains(etag)
        else:
            if_none_match = parse_etags(http_if_none_match)
            if if_none_match:
                unmodified = if_none_match.contains_weak(etag)

            if_match = parse_etags(http_if_match)
            if if_match:
                unmodified = not if_match.contains(etag)

    return not unmodified


rnd = random.Random(2222)
BASE = datetime(2024, 3, 5, 12, 0, 0, tzinfo=timezone.utc)
TAGS = ["abc", "xyz", "", "a b", "W/x"]


def q(tag):
    return rnd.choice(['"%s"', 'W/"%s"', "%s", 'w/"%s"']) % tag


def gen_date_header():
    k = rnd.random()
    if k < 0.15:
        return None
    if k < 0.25:
        return rnd.choice(["", "garbage", "0", "Tue, 99 Foo 2024", '"abc"'])
    return http_date(BASE + timedelta(seconds=rnd.choice([-86400, -2, -1, 0, 0, 1, 2, 86400])))


def gen_etags_header():
    k = rnd.random()
    if k < 0.3:
        return None
    if k < 0.4:
        return rnd.choice(["", "*", " * ", ",", "W/", '""'])
    return ", ".join(q(rnd.choice(TAGS)) for _ in range(rnd.choice([1, 1, 2, 3])))


def gen_if_range():
    k = rnd.random()
    if k < 0.25:
        return None
    if k < 0.6:
        return gen_date_header()
    return rnd.choice([q(rnd.choice(TAGS)), "*", "", "abc"])


def gen_last_modified():
    k = rnd.random()
    if k < 0.2:
        return None
    dt = BASE + timedelta(seconds=rnd.choice([-86400, -1, 0, 0, 1, 86400]),
                          microseconds=rnd.choice([0, 0, 1, 999999]))
    if k < 0.4:
        return http_date(dt)
    if k < 0.45:
        return rnd.choice(["", "junk"])
    if k < 0.7:
        return dt.replace(tzinfo=None)
    if k < 0.8:
        return dt.astimezone(timezone(timedelta(hours=5)))
    return dt


def gen_kwargs():
    kw = dict(
        http_range=rnd.choice([None, None, "bytes=0-4", "", "junk"]),
        http_if_range=gen_if_range(),
        http_if_modified_since=gen_date_header(),
        http_if_none_match=gen_etags_header(),
        http_if_match=gen_etags_header(),
        etag=rnd.choice([None, None, "", "abc", '"abc"', 'W/"abc"', "xyz", '"a b"', "W/x"]),
        data=rnd.choice([None, None, None, None, b"", b"hello"]),
        last_modified=gen_last_modified(),
        ignore_if_range=rnd.choice([True, False]),
    )
    return kw


def run(fn, kw):
    try:
        r = fn(**kw)
        return ("ok", r, type(r).__name__)
    except Exception as e:  # noqa: BLE001
        return ("exc", type(e).__name__)


total = bad = 0
seen = {}
for _ in range(80000):
    kw = gen_kwargs()
    a, b = run(orig_irm, kw), run(new_irm, kw)
    seen[a[:2]] = seen.get(a[:2], 0) + 1
    total += 1
    if a != b:
        bad += 1
        if bad < 10:
            print("MISMATCH", kw, a, b)

# End-to-end: status codes / headers through Response.make_conditional are
# compared with what the original function dictates.
from werkzeug import http as whttp
from werkzeug.wrappers import response as wresp

e2e = 0
statuses = {}
for _ in range(4000):
    headers = {}
    for name, g in (("If-None-Match", gen_etags_header), ("If-Match", gen_etags_header),
                    ("If-Modified-Since", gen_date_header), ("If-Range", gen_if_range)):
        v = g()
        if v is not None:
            headers[name] = v
    rng = rnd.choice([None, "bytes=0-4", "bytes=2-", "bytes=-3", "bytes=50-", "x"])
    if rng is not None:
        headers["Range"] = rng
    method = rnd.choice(["GET", "GET", "HEAD", "POST"])
    env = EnvironBuilder(method=method, headers=headers).get_environ()
    etag = rnd.choice([None, "abc", "xyz"])
    lm = gen_last_modified()
    if isinstance(lm, str):
        lm = None

    def build():
        r = Response(b"0123456789")
        if etag:
            r.set_etag(etag, weak=rnd_weak)
        if lm is not None:
            r.last_modified = lm
        return r

    rnd_weak = rnd.choice([True, False])
    results = []
    for fn in (orig_irm, new_irm):
        saved = whttp._sansio_http.is_resource_modified
        whttp._sansio_http.is_resource_modified = fn
        try:
            r = build()
            try:
                r.make_conditional(env, accept_ranges=True, complete_length=10)
                hdrs = sorted((k, v) for k, v in r.headers if k != "Date")
                results.append((r.status_code, hdrs, b"".join(r.iter_encoded()) if r.status_code in (200, 206) else None))
            except Exception as e:  # noqa: BLE001
                results.append(("exc", type(e).__name__))
        finally:
            whttp._sansio_http.is_resource_modified = saved
    e2e += 1
    statuses[results[0][0]] = statuses.get(results[0][0], 0) + 1
    if results[0] != results[1]:
        bad += 1
        if bad < 10:
            print("E2E MISMATCH", method, headers, etag, lm, results)

print(f"{total} direct cases {seen}, {e2e} end-to-end cases {statuses}, {bad} mismatches")
print("PASS" if bad == 0 else "FAIL")
