"""Differential check for property C03 (URL matching).

Compares the refactored ``StateMachineMatcher.match`` in the worktree with a
verbatim copy of the ORIGINAL implementation (``ORIG_MATCH`` below) on a few
tens of thousands of generated (map, path, method, websocket) inputs, both at
matcher level and through ``MapAdapter.match``.  Prints PASS only if all
results and raised exceptions (type + attributes) are identical.

Run: cd /tmp/wt14-C03 && PYTHONPATH=/tmp/wt14-C03/src /venv/bin/python diff_check.py
"""
from __future__ import annotations

import re
import typing as t

from werkzeug.routing.converters import ValidationError
from werkzeug.routing.exceptions import NoMatch
from werkzeug.routing.exceptions import RequestAliasRedirect
from werkzeug.routing.exceptions import RequestPath
from werkzeug.routing.matcher import SlashRequired
from werkzeug.routing.matcher import State
from werkzeug.routing.rules import Rule


# ---- verbatim copy of the original StateMachineMatcher.match -------------
def ORIG_MATCH(
    self, domain: str, path: str, method: str, websocket: bool
) -> tuple[Rule, t.MutableMapping[str, t.Any]]:
    # To match to a rule we need to start at the root state and
    # try to follow the transitions until we find a match, or find
    # there is no transition to follow.

    have_match_for = set()
    websocket_mismatch = False

    def _match(
        state: State, parts: list[str], values: list[str]
    ) -> tuple[Rule, list[str]] | None:
        # This function is meant to be called recursively, and will attempt
        # to match the head part to the state's transitions.
        nonlocal have_match_for, websocket_mismatch

        # The base case is when all parts have been matched via
        # transitions. Hence if there is a rule with methods &
        # websocket that work return it and the dynamic values
        # extracted.
        if parts == []:
            for rule in state.rules:
                if rule.methods is not None and method not in rule.methods:
                    have_match_for.update(rule.methods)
                elif rule.websocket != websocket:
                    websocket_mismatch = True
                else:
                    return rule, values

            # Test if there is a match with this path with a
            # trailing slash, if so raise an exception to report
            # that matching is possible with an additional slash
            if "" in state.static:
                for rule in state.static[""].rules:
                    if websocket == rule.websocket and (
                        rule.methods is None or method in rule.methods
                    ):
                        if rule.strict_slashes:
                            raise SlashRequired()
                        else:
                            return rule, values
                    elif (
                        not rule.strict_slashes
                        and rule.methods is not None
                        and method not in rule.methods
                    ):
                        have_match_for.update(rule.methods)
            return None

        part = parts[0]
        # To match this part try the static transitions first
        if part in state.static:
            rv = _match(state.static[part], parts[1:], values)
            if rv is not None:
                return rv
        # No match via the static transitions, so try the dynamic
        # ones.
        for test_part, new_state in state.dynamic:
            target = part
            remaining = parts[1:]
            # A final part indicates a transition that always
            # consumes the remaining parts i.e. transitions to a
            # final state.
            if test_part.final:
                target = "/".join(parts)
                remaining = []
            match = re.compile(test_part.content).match(target)
            if match is not None:
                if test_part.suffixed:
                    # If a part_isolating=False part has a slash suffix, remove the
                    # suffix from the match and check for the slash redirect next.
                    suffix = match.groups()[-1]
                    if suffix == "/":
                        remaining = [""]

                converter_groups = sorted(
                    match.groupdict().items(), key=lambda entry: entry[0]
                )
                groups = [
                    value
                    for key, value in converter_groups
                    if key[:11] == "__werkzeug_"
                ]
                rv = _match(new_state, remaining, values + groups)
                if rv is not None:
                    return rv

        # If there is no match and the only part left is a
        # trailing slash ("") consider rules that aren't
        # strict-slashes as these should match if there is a final
        # slash part.
        if parts == [""]:
            for rule in state.rules:
                if rule.strict_slashes:
                    continue
                if rule.methods is not None and method not in rule.methods:
                    have_match_for.update(rule.methods)
                elif rule.websocket != websocket:
                    websocket_mismatch = True
                else:
                    return rule, values

        return None

    try:
        rv = _match(self._root, [domain, *path.split("/")], [])
    except SlashRequired:
        raise RequestPath(f"{path}/") from None

    if self.merge_slashes and rv is None:
        # Try to match again, but with slashes merged
        path = re.sub("/{2,}?", "/", path)
        try:
            rv = _match(self._root, [domain, *path.split("/")], [])
        except SlashRequired:
            raise RequestPath(f"{path}/") from None
        if rv is None or rv[0].merge_slashes is False:
            raise NoMatch(have_match_for, websocket_mismatch)
        else:
            raise RequestPath(f"{path}")
    elif rv is not None:
        rule, values = rv

        result = {}
        for name, value in zip(rule._converters.keys(), values):
            try:
                value = rule._converters[name].to_python(value)
            except ValidationError:
                raise NoMatch(have_match_for, websocket_mismatch) from None
            result[str(name)] = value
        if rule.defaults:
            result.update(rule.defaults)

        if rule.alias and rule.map.redirect_defaults:
            raise RequestAliasRedirect(result, rule.endpoint)

        return rule, result

    raise NoMatch(have_match_for, websocket_mismatch)


# --------------------------------------------------------------------------
# harness
# --------------------------------------------------------------------------
import itertools
import random
import sys

from werkzeug.exceptions import HTTPException
from werkzeug.routing import Map, Rule, Submount, Subdomain
from werkzeug.routing.matcher import StateMachineMatcher

REFACTORED_MATCH = StateMachineMatcher.match

SEGS = ["a", "b", "ab", "1", "12", "-3", "1.5", "x.y", "", "a b", "é", "0", "foo"]
RULE_POOL = [
    "/", "/a", "/a/", "/b", "/a/b", "/a/b/", "/<x>", "/<x>/", "/<int:x>", "/<int:x>/",
    "/<float:x>", "/<path:x>", "/<path:x>/", "/a/<x>", "/a/<int:x>", "/a/<path:x>",
    "/<x>/b", "/<int:x>/b", "/<x>/<y>", "/<int:x>/<y>/", "/<x>/<int:y>",
    "/<path:x>/b", "/<path:x>/b/", "/a/<x>/b/", "/<any(a,b,ab):x>", "/<any(a,b):x>/",
    "/<uuid:x>", "/<string(length=2):x>", "/<string(minlength=2):x>/",
    "/<int(min=5):x>", "/<int(max=5):x>/", "/<int(signed=True):x>", "/<float(signed=True):x>",
    "/a<x>", "/a<int:x>/", "/<x>.<y>", "/<x>-<int:y>", "/<x>b", "/a/<x>.txt",
    "/<path:x>.txt", "/<path:x>/<int:y>", "/<path:x>/<y>/", "/<path:x>/edit",
    "/a//b", "/a//<x>", "//a", "/a//", "/<x>//<y>", "/foo/<path:x>", "/foo", "/foo/",
    "/<int:x>/<int:y>", "/<x>/<path:y>", "/<x>/<path:y>/",
]
METHOD_SETS = [None, None, ["GET"], ["POST"], ["GET", "POST"], ["PUT"], ["DELETE", "GET"]]
REQ_METHODS = ["GET", "POST", "PUT", "HEAD", "DELETE", "OPTIONS"]


def make_map(rng):
    n = rng.randint(1, 9)
    rules = []
    for i in range(n):
        s = rng.choice(RULE_POOL)
        kw = {}
        ws = rng.random() < 0.12
        if ws:
            kw["websocket"] = True
            if rng.random() < 0.3:
                kw["methods"] = ["GET"]
        else:
            m = rng.choice(METHOD_SETS)
            if m is not None:
                kw["methods"] = m
        r = rng.random()
        if r < 0.2:
            kw["strict_slashes"] = False
        elif r < 0.3:
            kw["strict_slashes"] = True
        r = rng.random()
        if r < 0.15:
            kw["merge_slashes"] = False
        elif r < 0.25:
            kw["merge_slashes"] = True
        if rng.random() < 0.12 and "<" in s:
            # defaults for a name not in the rule
            kw["defaults"] = {"extra": rng.choice([1, "d"])}
        if rng.random() < 0.06:
            kw["alias"] = True
        if rng.random() < 0.08:
            kw["subdomain"] = rng.choice(["sub", "<sd>"])
        rule = Rule(s, endpoint=f"e{i}", **kw)
        if rng.random() < 0.08:
            rule = Submount(rng.choice(["/a", "/p", "/<pre>"]), [rule])
        rules.append(rule)
    rng.shuffle(rules)
    mkw = {}
    if rng.random() < 0.3:
        mkw["merge_slashes"] = False
    if rng.random() < 0.3:
        mkw["strict_slashes"] = False
    if rng.random() < 0.2:
        mkw["redirect_defaults"] = False
    if rng.random() < 0.1:
        mkw["host_matching"] = False
    return Map(rules, **mkw)


VAR_RE = __import__("re").compile(r"<[^>]+>")


def fill(rng, m):
    spec = m.group(0)
    if "int" in spec:
        return rng.choice(["1", "12", "7", "0", "-3", "x"])
    if "float" in spec:
        return rng.choice(["1.5", "-2.5", "3", "x"])
    if "path" in spec:
        return rng.choice(["a", "a/b", "x/y/z", "a//b", "1/2", "foo/a/b"])
    if "uuid" in spec:
        return "00000000-0000-0000-0000-000000000000"
    if "any" in spec:
        return rng.choice(["a", "b", "ab", "c"])
    return rng.choice(SEGS[:9] + ["foo", "xy"])


def make_path(rng, rule_strings=()):
    r = rng.random()
    if rule_strings and r < 0.6:
        p = VAR_RE.sub(lambda m: fill(rng, m), rng.choice(rule_strings))
        r2 = rng.random()
        if r2 < 0.2:
            p = p[:-1] if p.endswith("/") and len(p) > 1 else p + "/"
        elif r2 < 0.35:
            p = p.replace("/", "//", rng.randint(1, 2))
        elif r2 < 0.4:
            p += "//"
        elif r2 < 0.45:
            i = rng.randrange(len(p))
            p = p[:i] + "/" + p[i:]
        return p
    if r < 0.05:
        return rng.choice(["", "/", "//", "///", "a", "/a//", "//a//b//"])
    k = rng.randint(1, 4)
    segs = [rng.choice(SEGS) for _ in range(k)]
    p = "/" + "/".join(segs)
    if rng.random() < 0.3:
        p += "/"
    if rng.random() < 0.1:
        p = p.replace("/", "//", rng.randint(1, 2))
    if rng.random() < 0.1:
        p += rng.choice([".txt", "-7", "/edit", "b"])
    if rng.random() < 0.03:
        p = "00000000-0000-0000-0000-000000000000".join(["/", rng.choice(["", "/"])])
    return p


def outcome(fn):
    try:
        rule, values = fn()
    except Exception as e:  # noqa: B902
        d = {k: v for k, v in vars(e).items() if k not in ("response",)}
        for k, v in list(d.items()):
            if isinstance(v, set):
                d[k] = ("set", tuple(sorted(v)))
            elif isinstance(v, dict):
                d[k] = ("dict", tuple((k2, type(v2).__name__, repr(v2)) for k2, v2 in v.items()))
        return ("raise", type(e).__module__, type(e).__name__, repr(e.args), repr(sorted(d.items(), key=lambda kv: kv[0])))
    return (
        "ok",
        id(rule) if not isinstance(rule, str) else rule,
        getattr(rule, "rule", None),
        getattr(rule, "endpoint", rule),
        type(values).__name__,
        tuple((k, type(v).__name__, repr(v)) for k, v in values.items()),
    )


def main():
    rng = random.Random(20261003)
    n_cases = 0
    mismatches = 0
    kinds = {}
    for mi in range(700):
        m = make_map(rng)
        m.update()
        matcher = m._matcher
        rule_strings = [r.rule for r in m.iter_rules()]
        adapter = m.bind("example.org", "/", subdomain=rng.choice(["", "", "", "sub", "zz"]))
        for _ in range(22):
            path = make_path(rng, rule_strings)
            method = rng.choice(REQ_METHODS)
            ws = rng.random() < 0.15
            domain = rng.choice(["", "", "", "sub", "zz"])
            # 1. matcher level
            a = outcome(lambda: ORIG_MATCH(matcher, domain, path, method, ws))
            b = outcome(lambda: REFACTORED_MATCH(matcher, domain, path, method, ws))
            n_cases += 1
            kinds[a[0] + ":" + (a[2] if a[0] == "raise" else "")] = kinds.get(a[0] + ":" + (a[2] if a[0] == "raise" else ""), 0) + 1
            if a != b:
                mismatches += 1
                if mismatches <= 10:
                    print("MISMATCH matcher", [r.rule for r in m.iter_rules()], (domain, path, method, ws), a, b)
            # 2. adapter level (public API), swapping the method on the class
            def call():
                return adapter.match(path, method=method, websocket=ws, return_rule=True)
            StateMachineMatcher.match = ORIG_MATCH
            try:
                a2 = outcome(call)
            finally:
                StateMachineMatcher.match = REFACTORED_MATCH
            b2 = outcome(call)
            n_cases += 1
            if a2 != b2:
                mismatches += 1
                if mismatches <= 10:
                    print("MISMATCH adapter", [r.rule for r in m.iter_rules()], (path, method, ws), a2, b2)
    print("cases:", n_cases, "outcome kinds (matcher level):", kinds)
    if mismatches:
        print("FAIL", mismatches)
        sys.exit(1)
    print("PASS")


if __name__ == "__main__":
    main()
