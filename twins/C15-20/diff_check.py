"""Differential check: refactored werkzeug.urls (from the worktree) vs. a pasted
copy of the ORIGINAL implementation.  Prints PASS only if every output and every
raised exception type is identical."""
from __future__ import annotations

import codecs
import random
import re
import sys
import typing as t
import urllib.parse
from urllib.parse import quote
from urllib.parse import unquote
from urllib.parse import urlsplit
from urllib.parse import urlunsplit

import werkzeug.urls as new  # refactored; also registers the codec error handler

assert new.__file__.startswith("/tmp/wt14-C15/"), new.__file__

# ---------------------------------------------------------------- ORIGINAL copy


def _orig_make_unquote_part(name: str, chars: str) -> t.Callable[[str], str]:
    choices = "|".join(f"{ord(c):02X}" for c in sorted(chars))
    pattern = re.compile(f"((?:%(?:{choices}))+)", re.I)

    def _unquote_partial(value: str) -> str:
        parts = iter(pattern.split(value))
        out = []

        for part in parts:
            out.append(unquote(part, "utf-8", "werkzeug.url_quote"))
            out.append(next(parts, ""))

        return "".join(out)

    _unquote_partial.__name__ = f"_unquote_{name}"
    return _unquote_partial


_always_unsafe = bytes((*range(0x21), 0x25, 0x7F)).decode()
_o_unquote_fragment = _orig_make_unquote_part("fragment", _always_unsafe)
_o_unquote_query = _orig_make_unquote_part("query", _always_unsafe + "&=+#")
_o_unquote_path = _orig_make_unquote_part("path", _always_unsafe + "/?#")
_o_unquote_user = _orig_make_unquote_part("user", _always_unsafe + ":@/?#")


def orig_uri_to_iri(uri: str) -> str:
    parts = urlsplit(uri)
    path = _o_unquote_path(parts.path)
    query = _o_unquote_query(parts.query)
    fragment = _o_unquote_fragment(parts.fragment)

    if parts.hostname:
        netloc = orig_decode_idna(parts.hostname)
    else:
        netloc = ""

    if ":" in netloc:
        netloc = f"[{netloc}]"

    if parts.port:
        netloc = f"{netloc}:{parts.port}"

    if parts.username:
        auth = _o_unquote_user(parts.username)

        if parts.password:
            password = _o_unquote_user(parts.password)
            auth = f"{auth}:{password}"

        netloc = f"{auth}@{netloc}"

    return urlunsplit((parts.scheme, netloc, path, query, fragment))


def orig_iri_to_uri(iri: str) -> str:
    parts = urlsplit(iri)
    path = quote(parts.path, safe="%!$&'()*+,/:;=@")
    query = quote(parts.query, safe="%!$&'()*+,/:;=?@")
    fragment = quote(parts.fragment, safe="%!#$&'()*+,/:;=?@")

    if parts.hostname:
        netloc = parts.hostname.encode("idna").decode("ascii")
    else:
        netloc = ""

    if ":" in netloc:
        netloc = f"[{netloc}]"

    if parts.port:
        netloc = f"{netloc}:{parts.port}"

    if parts.username:
        auth = quote(parts.username, safe="%!$&'()*+,;=")

        if parts.password:
            password = quote(parts.password, safe="%!$&'()*+,;=")
            auth = f"{auth}:{password}"

        netloc = f"{auth}@{netloc}"

    return urlunsplit((parts.scheme, netloc, path, query, fragment))


def orig_decode_idna(domain: str) -> str:
    try:
        data = domain.encode("ascii")
    except UnicodeEncodeError:
        return domain

    try:
        return data.decode("idna")
    except UnicodeError:
        pass

    parts = []

    for part in data.split(b"."):
        try:
            parts.append(part.decode("idna"))
        except UnicodeError:
            parts.append(part.decode("ascii"))

    return ".".join(parts)


# ---------------------------------------------------------------- generators

rnd = random.Random(0xC15)

LABELS = [
    "example", "xn--n3h", "xn--", "xn--a", "xn--zzzzzz-", "XN--N3H", "xn--80ak6aa92e",
    "☃", "bücher", "пример", "ß", "İ",
    "a" * 63, "a" * 64, "xn--" + "a" * 70, "", "-", "a_b", "a b", "%41", "%C3%A5",
    "xn--☃", "。", "a。b", "．", "localhost", "1", "127", "\ud800",
    "xn--bcher-kva", "xn--maana-pta", "mañana", "‍", "a­", "EXAMPLE",
    "xn--p1ai", "xn--0", "xn--999999999", "\x7f", "\x00", "a%", "a@b", "[", "]",
]
IP6 = ["[::1]", "[2001:db8::1]", "[fe80::1%25eth0]", "[::ffff:1.2.3.4]", "[v1.a]", "[::1", "::1]", "[]", "[xn--n3h]"]
PORTS = ["", ":", ":0", ":80", ":8080", ":65535", ":65536", ":-1", ":abc", ":١", ":08", ": 80", ":80 "]
SCHEMES = ["http://", "https://", "//", "", "ftp://", "itms-services://", "mailto:", "file:///", "HTTP://", "x-y.z+1://", "☃://", "ws://"]
USERS = ["", "user@", "user:pass@", "us%40er:p%3Ass@", "üser:päss@", ":pass@", "user:@", "@", "a:b:c@",
         "u%2Fs%3F:%23%25@", "%ff:%FE@", "us er@", "a@b@", "\ud800@", "%zz@"]
PIECES = ["", "/", "a", "påth", "%C3%A5", "%c3%a5", "%2F", "%2f", "%3F", "%23", "%25", "%26", "%3D", "%2B", "%20",
          "%FF", "%DF", "%E2%98", "%E2%98%83", "%", "%G1", "%1", "%%", " ", "+", "&", "=", "k=v", "☃", "\U0001f600",
          "\ud800", "\udcff", ";", ":", "@", "!", "$", "'", "(", ")", "*", ",", "[", "]", "{", "}", "|", "\\", "^", "`",
          "<", ">", '"', "\t", "\n", "\r", "\x00", "\x7f", "\x80", "\xa0", "..", ".", "//", "~", "-", "_", "%7E", "%41",
          "%00", "%0A", "%7F", "%3A", "%40", "%C0%80", "%ED%A0%80", "%F4%90%80%80", "é", "é"]
ALPHABET = "".join(PIECES) + "".join(LABELS) + "abcxyzXN0123456789.-:/?#@[]%"


def gen_host() -> str:
    k = rnd.random()
    if k < 0.15:
        return rnd.choice(IP6)
    if k < 0.2:
        return ".".join(str(rnd.randrange(0, 300)) for _ in range(4))
    n = rnd.choice([0, 1, 1, 2, 2, 3, 3, 4])
    host = ".".join(rnd.choice(LABELS) for _ in range(n))
    if rnd.random() < 0.1:
        host += "."
    return host


def gen_part(maxn: int = 5) -> str:
    return "".join(rnd.choice(PIECES) for _ in range(rnd.randrange(0, maxn)))


def gen_url() -> str:
    k = rnd.random()
    if k < 0.08:
        return "".join(rnd.choice(ALPHABET) for _ in range(rnd.randrange(0, 25)))
    url = rnd.choice(SCHEMES) + rnd.choice(USERS) + gen_host() + rnd.choice(PORTS)
    if rnd.random() < 0.8:
        url += "/" + gen_part()
    if rnd.random() < 0.5:
        url += "?" + gen_part()
    if rnd.random() < 0.4:
        url += "#" + gen_part()
    return url


def gen_domain() -> str:
    k = rnd.random()
    if k < 0.1:
        return "".join(rnd.choice(ALPHABET) for _ in range(rnd.randrange(0, 20)))
    return gen_host()


def outcome(f: t.Callable[[str], str], arg: str) -> tuple[str, t.Any]:
    try:
        return ("ok", f(arg))
    except Exception as e:  # compare exception *types* (and message text too)
        return ("exc", (type(e), str(e)))


def run(n_urls: int = 12000, n_domains: int = 6000) -> None:
    failures = 0
    n = 0
    excs = 0
    urls = [gen_url() for _ in range(n_urls)]
    # second-step inputs exercise idempotence / round trip space as well
    extra = []
    for u in urls[:4000]:
        for f in (orig_iri_to_uri, orig_uri_to_iri):
            r = outcome(f, u)
            if r[0] == "ok":
                extra.append(r[1])
    for u in urls + extra:
        for fo, fn in ((orig_uri_to_iri, new.uri_to_iri), (orig_iri_to_uri, new.iri_to_uri)):
            a, b = outcome(fo, u), outcome(fn, u)
            n += 1
            excs += a[0] == "exc"
            if a != b:
                failures += 1
                if failures < 10:
                    print("MISMATCH", fo.__name__, ascii(u), a, b)
    for _ in range(n_domains):
        d = gen_domain()
        a, b = outcome(orig_decode_idna, d), outcome(new._decode_idna, d)
        n += 1
        excs += a[0] == "exc"
        if a != b:
            failures += 1
            if failures < 10:
                print("MISMATCH _decode_idna", ascii(d), a, b)
    print(f"{n} comparisons, {excs} raised in original, {failures} mismatches")
    print("PASS" if failures == 0 else "FAIL")
    sys.exit(0 if failures == 0 else 1)


if __name__ == "__main__":
    run()
