"""Differential check for refactoring 1 (get_input_stream / sansio get_content_length).

Run: cd /tmp/wt15-C09 && PYTHONPATH=/tmp/wt15-C09/src /venv/bin/python /tmp/twin10-C09/1/diff_check.py
"""
import io
import itertools
import random
import typing as t

from werkzeug import wsgi
from werkzeug._internal import _plain_int
from werkzeug.exceptions import RequestEntityTooLarge
from werkzeug.sansio import utils as sansio_utils
from werkzeug.wsgi import LimitedStream


# ---- ORIGINAL implementations (copied from the unmodified tree) ----
def orig_sansio_get_content_length(http_content_length=None, http_transfer_encoding=None):
    if http_transfer_encoding == "chunked" or http_content_length is None:
        return None

    try:
        return max(0, _plain_int(http_content_length))
    except ValueError:
        return 0


def orig_get_content_length(environ):
    return orig_sansio_get_content_length(
        http_content_length=environ.get("CONTENT_LENGTH"),
        http_transfer_encoding=environ.get("HTTP_TRANSFER_ENCODING"),
    )


def orig_get_input_stream(environ, safe_fallback=True, max_content_length=None):
    stream = t.cast(t.IO[bytes], environ["wsgi.input"])
    content_length = orig_get_content_length(environ)

    if content_length is not None and max_content_length is not None:
        if content_length > max_content_length:
            raise RequestEntityTooLarge()

    if "wsgi.input_terminated" in environ:
        if max_content_length is not None:
            return t.cast(
                t.IO[bytes], LimitedStream(stream, max_content_length, is_max=True)
            )

        return stream

    if content_length is None:
        return io.BytesIO() if safe_fallback else stream

    return t.cast(t.IO[bytes], LimitedStream(stream, content_length))


# ---- input space ----
MISSING = object()
CLS = [MISSING, None, "", "0", "1", "5", "12", "-3", "abc", " 7", "7 ", "+5", "1_0",
       "١٢", "5.0", "0x10", "99999999999", "007", "-0"]
TES = [MISSING, None, "chunked", "Chunked", "gzip", "gzip, chunked", ""]
TERMS = [MISSING, True, False, None]
MAXES = [None, 0, 1, 3, 5, 12, 100]
FALLBACKS = [True, False, 0, 1]
BODIES = [b"", b"abc", b"hello\nworld\n", b"x" * 40]


def consume(fn, kind, rng):
    try:
        if kind == 0:
            return ("ok", fn.read())
        if kind == 1:
            out = []
            while True:
                c = fn.read(rng.choice([1, 2, 5, 64]))
                if not c:
                    break
                out.append(c)
            return ("ok", out)
        if kind == 2:
            return ("ok", fn.readlines())
        out = []
        for _ in range(100):
            line = fn.readline(rng.choice([-1, 3, 100]))
            if not line:
                break
            out.append(line)
        return ("ok", out)
    except Exception as e:  # noqa: B902
        return ("exc", type(e).__name__, getattr(e, "code", None))


def describe(func, environ, raw, kwargs, kind, seed):
    try:
        s = func(environ, **kwargs)
    except Exception as e:  # noqa: B902
        return ("raise", type(e).__name__, getattr(e, "code", None))
    d = [type(s).__name__, s is raw]
    if isinstance(s, LimitedStream):
        d += [s.limit, s._limit_is_max, s._stream is raw, s._pos]
    d.append(consume(s, kind, random.Random(seed)))
    d.append(raw.tell())
    return tuple(d)


def main():
    n = 0
    bad = 0
    # sansio get_content_length directly
    for cl in CLS:
        for te in TES:
            kw = {}
            if cl is not MISSING:
                kw["http_content_length"] = cl
            if te is not MISSING:
                kw["http_transfer_encoding"] = te
            a = orig_sansio_get_content_length(**kw)
            b = sansio_utils.get_content_length(**kw)
            n += 1
            if a != b or type(a) is not type(b):
                bad += 1
                print("MISMATCH sansio", kw, a, b)
    rng = random.Random(9)
    combos = list(itertools.product(CLS, TES, TERMS, MAXES, FALLBACKS))
    rng.shuffle(combos)
    for i, (cl, te, term, mx, fb) in enumerate(combos):
        body = BODIES[i % len(BODIES)]
        kind = i % 4
        for pass_kwargs in (True, False) if (mx is None and fb is True) else (True,):
            res = []
            for func in (orig_get_input_stream, wsgi.get_input_stream):
                raw = io.BytesIO(body)
                environ = {"wsgi.input": raw}
                if i % 97 == 0:
                    del environ["wsgi.input"]
                if cl is not MISSING:
                    environ["CONTENT_LENGTH"] = cl
                if te is not MISSING:
                    environ["HTTP_TRANSFER_ENCODING"] = te
                if term is not MISSING:
                    environ["wsgi.input_terminated"] = term
                kwargs = (
                    {"safe_fallback": fb, "max_content_length": mx}
                    if pass_kwargs
                    else {}
                )
                res.append(describe(func, environ, raw, kwargs, kind, i))
            n += 1
            if res[0] != res[1]:
                bad += 1
                print("MISMATCH", cl, te, term, mx, fb, res)
    print(f"{n} cases, {bad} mismatches")
    print("PASS" if bad == 0 else "FAIL")


if __name__ == "__main__":
    main()
