"""Differential check for refactoring 3 (DebuggedApplication.__call__ / pin_auth).

Two DebuggedApplication instances with identical configuration are driven with
the same random request sequences: one uses the refactored methods from the
worktree, the other one overrides ``__call__`` and ``pin_auth`` with the
ORIGINAL implementations pasted below.  After every request the complete
response (status, headers, body or raised exception type), the failure
counter, the recorded sleeps, the list of evaluated commands and the calls to
the gate methods are compared.

Run: cd /tmp/wt3-C20 && PYTHONPATH=/tmp/wt3-C20/src /venv/bin/python /tmp/twin-C20/3/diff_check.py
"""
from __future__ import annotations

import json
import random
import re
import typing as t

import werkzeug.debug as wd
from werkzeug.debug import DebuggedApplication
from werkzeug.debug import hash_pin
from werkzeug.debug import PIN_TIME
from werkzeug.exceptions import SecurityError
from werkzeug.test import Client
from werkzeug.wrappers import Request
from werkzeug.wrappers import Response


class Clock:
    def __init__(self):
        self.now = 1_700_000_000.25
        self.sleeps = []

    def time(self):
        return self.now

    def sleep(self, s):
        self.sleeps.append(s)


clock = Clock()
wd.time = clock  # both variants share one deterministic clock object
time = clock
assert wd.Request is Request and wd.Response is Response


# ---------------------------------------------------------------- ORIGINAL
class OrigApp(DebuggedApplication):
    def pin_auth(self, request):
        """Authenticates with the pin."""
        if not self.check_host_trust(request.environ):
            return SecurityError()  # type: ignore[return-value]

        exhausted = False
        auth = False
        trust = self.check_pin_trust(request.environ)
        pin = t.cast(str, self.pin)

        bad_cookie = False
        if trust is None:
            self._fail_pin_auth()
            bad_cookie = True

        # If we're trusted, we're authenticated.
        elif trust:
            auth = True

        # If we failed too many times, then we're locked out.
        elif self._failed_pin_auth.value > 10:
            exhausted = True

        # Otherwise go through pin based authentication
        else:
            entered_pin = request.args["pin"]

            if entered_pin.strip().replace("-", "") == pin.replace("-", ""):
                self._failed_pin_auth.value = 0
                auth = True
            else:
                self._fail_pin_auth()

        rv = Response(
            json.dumps({"auth": auth, "exhausted": exhausted}),
            mimetype="application/json",
        )
        if auth:
            rv.set_cookie(
                self.pin_cookie_name,
                f"{int(time.time())}|{hash_pin(pin)}",
                httponly=True,
                samesite="Strict",
                secure=request.is_secure,
            )
        elif bad_cookie:
            rv.delete_cookie(self.pin_cookie_name)
        return rv

    def __call__(self, environ, start_response):
        """Dispatch the requests."""
        request = Request(environ)
        response = self.debug_application
        if request.args.get("__debugger__") == "yes":
            cmd = request.args.get("cmd")
            arg = request.args.get("f")
            secret = request.args.get("s")
            frame = self.frames.get(request.args.get("frm", type=int))  # type: ignore
            if cmd == "resource" and arg:
                response = self.get_resource(request, arg)  # type: ignore
            elif cmd == "pinauth" and secret == self.secret:
                response = self.pin_auth(request)  # type: ignore
            elif cmd == "printpin" and secret == self.secret:
                response = self.log_pin_request(request)  # type: ignore
            elif (
                self.evalex
                and cmd is not None
                and frame is not None
                and self.secret == secret
                and self.check_pin_trust(environ)
            ):
                response = self.execute_command(request, cmd, frame)  # type: ignore
        elif (
            self.evalex
            and self.console_path is not None
            and request.path == self.console_path
        ):
            response = self.display_console(request)  # type: ignore
        return response(environ, start_response)


# ---------------------------------------------------------------- harness
def traced(cls):
    """Subclass recording every call of the gate methods (order matters)."""

    class Traced(cls):
        def __init__(self, *a, **kw):
            self.trace = []
            super().__init__(*a, **kw)

        def check_pin_trust(self, environ):
            rv = super().check_pin_trust(environ)
            self.trace.append(("check_pin_trust", rv))
            return rv

        def check_host_trust(self, environ):
            rv = super().check_host_trust(environ)
            self.trace.append(("check_host_trust", rv))
            return rv

        def _fail_pin_auth(self):
            self.trace.append(("_fail_pin_auth", self._failed_pin_auth.value))
            return super()._fail_pin_auth()

        def get_resource(self, request, filename):
            self.trace.append(("get_resource", filename))
            return super().get_resource(request, filename)

        def log_pin_request(self, request):
            self.trace.append(("log_pin_request",))
            return super().log_pin_request(request)

        def execute_command(self, request, command, frame):
            self.trace.append(("execute_command", command))
            return super().execute_command(request, command, frame)

        def display_console(self, request):
            self.trace.append(("display_console",))
            return super().display_console(request)

    return Traced


class FakeFrame:
    def __init__(self):
        self.evaluated = []

    def eval(self, code):
        self.evaluated.append(code)
        return f"EVAL<{code}>"


def inner_app(environ, start_response):
    if environ["PATH_INFO"] == "/boom":
        raise RuntimeError("boom")
    start_response("200 OK", [("Content-Type", "text/plain")])
    return [b"inner"]


CONFIGS = [
    dict(evalex=True, pin="123-456-789", console_path="/console"),
    dict(evalex=False, pin="123-456-789", console_path="/console"),
    dict(evalex=True, pin=None, console_path="/console"),
    dict(evalex=True, pin="12-34", console_path=None),
    dict(evalex=True, pin="", console_path="/"),
]


def make(cls, cfg):
    app = cls(inner_app, evalex=cfg["evalex"], console_path=cfg["console_path"], pin_security=True, pin_logging=False)
    app._pin = cfg["pin"]
    app._pin_cookie = "__wzdtest"
    app.secret = "S3CRET"
    app.frames[7] = FakeFrame()
    return app


def main():
    n = 0
    mism = []
    outcome_kinds = set()

    NewT, OldT = traced(DebuggedApplication), traced(OrigApp)

    for ci, cfg in enumerate(CONFIGS):
        pin = cfg["pin"]
        for seed in range(8):
            r = random.Random(1000 * ci + seed)
            clock.now = 1_700_000_000.25
            new, old = make(NewT, cfg), make(OldT, cfg)

            def good_cookie(off=0):
                return f"{int(clock.now) - off}|{hash_pin(pin)}"

            for step in range(250):
                host = r.choice(["localhost", "localhost", "localhost", "localhost:5000", "127.0.0.1", "x.localhost", "evil.com", "evillocalhost", "127.0.0.1.evil.com", None, "bücher"])
                kind = r.choice(["pinauth", "pinauth", "pinauth", "eval", "eval", "console", "printpin", "resource", "plain", "weird"])
                secret = r.choice(["S3CRET", "S3CRET", "S3CRET", "S3CRET", "bad", "", None])
                cookie = r.choice([None, None, good_cookie(), good_cookie(), good_cookie(PIN_TIME + 5), good_cookie(PIN_TIME), f"{int(clock.now)}|deadbeef0000", "junk", "5|", "|"])
                entered = r.choice([pin, pin, (pin or "").replace("-", ""), f" {pin} ", "000", "wrong", "", "-", None])
                dbg = r.choice(["yes", "yes", "yes", "yes", "yes", "no", "YES", None])
                path = r.choice(["/", "/", "/x", "/boom"]) if kind != "console" else r.choice(["/console", "/console/", "/"])
                qs: dict[str, t.Any] = {"__debugger__": dbg}
                if kind == "pinauth":
                    qs.update(cmd="pinauth", s=secret, pin=entered)
                elif kind == "printpin":
                    qs.update(cmd="printpin", s=secret)
                elif kind == "eval":
                    qs.update(cmd=r.choice(["1+1", "2*3", "pinauth", "printpin", "resource", "", None]), frm=r.choice(["7", "7", "7", "8", "0", "x", None]), s=secret, pin=entered)
                elif kind == "resource":
                    qs.update(cmd="resource", f=r.choice(["style.css", "debugger.js", "nope.txt", "../__init__.py", "", None]), s=secret, frm=r.choice(["7", None]))
                elif kind == "weird":
                    qs.update(cmd=r.choice(["pinauth", "printpin", "resource", "x"]), f=r.choice(["style.css", None]), s=secret, frm=r.choice(["7", "8", None]), pin=entered)
                elif kind == "console":
                    if r.random() < 0.7:
                        qs = {}
                qs = {k: v for k, v in qs.items() if v is not None}
                headers = {}
                if host is not None:
                    headers["Host"] = host
                if cookie is not None:
                    headers["Cookie"] = f"__wzdtest={cookie}"
                base_url = r.choice(["http://localhost/", "https://localhost/"])

                def req(app):
                    app.trace.clear()
                    sleeps_before = len(clock.sleeps)
                    client = Client(app, use_cookies=False)
                    try:
                        resp = client.get(path, query_string=qs, headers=headers, base_url=base_url)
                        body = resp.get_data()
                        hdrs = sorted(resp.headers.to_wsgi_list())
                        if resp.status_code == 500:
                            # traceback page embeds id(frame) memory addresses
                            body = re.sub(rb"\d{9,}", b"<ID>", body)
                            hdrs = [h for h in hdrs if h[0] != "Content-Length"]
                        out = ("resp", resp.status, hdrs, body)
                    except Exception as e:
                        out = ("exc", type(e).__name__, str(e))
                    return (
                        out,
                        app._failed_pin_auth.value,
                        tuple(clock.sleeps[sleeps_before:]),
                        tuple(app.frames[7].evaluated),
                        tuple(app.trace),
                        sorted(k for k in app.frames if isinstance(k, int) and k in (0, 7)),
                    )

                a, b = req(old), req(new)
                n += 1
                if a != b:
                    mism.append(((cfg, seed, step, kind, host, secret, cookie, entered, qs), a, b))
                outcome_kinds.add((kind, a[0][0], a[0][1], bool(a[3]), a[1] > 10))

                if r.random() < 0.08:
                    clock.now += 100_000.5
                if r.random() < 0.03:
                    v = r.choice([0, 5, 9, 10, 11, 12, 255])
                    old._failed_pin_auth.value = new._failed_pin_auth.value = v

    # the runs must have actually exercised the interesting outcomes
    need = [
        any(k[0] == "eval" and k[3] for k in outcome_kinds),  # code evaluated
        any(k[0] == "pinauth" and k[4] for k in outcome_kinds),  # locked out
        any(k[1] == "exc" for k in outcome_kinds),  # missing pin arg
        any(str(k[2]).startswith("400") for k in outcome_kinds),  # SecurityError
    ]
    print(f"compared {n} requests, {len(mism)} mismatches, {len(outcome_kinds)} distinct outcome kinds, coverage={need}")
    for m in mism[:5]:
        print("MISMATCH", m)
    print("PASS" if not mism and n > 3000 and all(need) else "FAIL")


if __name__ == "__main__":
    main()
