"""Differential check for refactoring 3 (werkzeug.urls.iri_to_uri / uri_to_iri).

Run: cd /tmp/wt9-C15 && PYTHONPATH=/tmp/wt9-C15/src /venv/bin/python /tmp/twin5-C15/3/diff_check.py
"""

from __future__ import annotations

import random
from urllib.parse import quote
from urllib.parse import urlsplit
from urllib.parse import urlunsplit

from werkzeug import urls
from werkzeug.sansio.utils import get_current_url
from werkzeug.urls import _decode_idna
from werkzeug.urls import _unquote_fragment
from werkzeug.urls import _unquote_path
from werkzeug.urls import _unquote_query
from werkzeug.urls import _unquote_user


# --- ORIGINAL implementations (copied verbatim from the unmodified tree) ---
def orig_uri_to_iri(uri: str) -> str:
    parts = urlsplit(uri)
    path = _unquote_path(parts.path)
    query = _unquote_query(parts.query)
    fragment = _unquote_fragment(parts.fragment)

    if parts.hostname:
        netloc = _decode_idna(parts.hostname)
    else:
        netloc = ""

    if ":" in netloc:
        netloc = f"[{netloc}]"

    if parts.port:
        netloc = f"{netloc}:{parts.port}"

    if parts.username:
        auth = _unquote_user(parts.username)

        if parts.password:
            password = _unquote_user(parts.password)
            auth = f"{auth}:{password}"

        netloc = f"{auth}@{netloc}"

    return urlunsplit((parts.scheme, netloc, path, query, fragment))


def orig_iri_to_uri(iri: str) -> str:
    parts = urlsplit(iri)
    # safe = https://url.spec.whatwg.org/#url-path-segment-string
    # as well as percent for things that are already quoted
    path = quote(parts.path, safe="%!$&'()*+,/:;=@")
    query = quote(parts.query, safe="%!$&'()*+,/:;=?@")
    fragment = quote(parts.fragment, safe="%!#$&'()*+,/:;=?@")

    if parts.hostname:
        netloc = parts.hostname.encode("idna").decode("ascii")
    else:
        netloc = ""

    if ":" in netloc:
        netloc = f"[{netloc}]"

    if parts.port:
        netloc = f"{netloc}:{parts.port}"

    if parts.username:
        auth = quote(parts.username, safe="%!$&'()*+,;=")

        if parts.password:
            password = quote(parts.password, safe="%!$&'()*+,;=")
            auth = f"{auth}:{password}"

        netloc = f"{auth}@{netloc}"

    return urlunsplit((parts.scheme, netloc, path, query, fragment))


rng = random.Random(150153)

ALPHABETS = [
    "abcXYZ019",
    "-._~!$&'()*+,;=",
    ":@/?#[]",
    "%25%2F%3a%40%C3%A9%FF%zz%E2%98%83%",
    " \t\n\x00\x7f\\^`{|}<>\"",
    "\xe9\xff\xdf\x80",
    "☃中\U0001f600ıſ",
    "\ud800",
]


def rand_text(maxlen=8, minlen=0):
    n = rng.randint(minlen, maxlen)
    alph = "".join(rng.sample(ALPHABETS, rng.randint(1, 4)))
    return "".join(rng.choice(alph) for _ in range(n))


SCHEMES = ["http", "https", "ws", "ftp", "itms-services", "mailto", "file", "x-custom", "", "HTTP"]
HOSTS = [
    "localhost",
    "example.org",
    "EXAMPLE.org",
    "☃.net",
    "xn--n3h.net",
    "b\xfccher.example",
    "xn--bcher-kva.example",
    "xn--zz-.invalid.xn--n3h",
    "xn--.bad",
    "a..b",
    ".",
    "a" * 64 + ".com",
    "☃" * 70 + ".com",
    "[::1]",
    "[2001:db8::1]",
    "[v1.x]",
    "[::1",
    "::1",
    "127.0.0.1",
    "",
    "faß.de",
    "ﬁ.example",
    "ex ample.org",
    "ex%41mple.org",
]
PORTS = ["", "", "", ":80", ":0", ":443", ":8080", ":65535", ":65536", ":99999", ":-1", ":abc", ":", ":08", ":٣"]


def rand_userinfo():
    r = rng.random()
    if r < 0.45:
        return ""
    user = rng.choice(["user", "", "ü", "a%40b", "us er", "%FF", rand_text(5)])
    if r < 0.7:
        return user + "@"
    pw = rng.choice(["pw", "", "p:w", "p@w", "☃", "%3A", "%zz", rand_text(5)])
    return f"{user}:{pw}@"


def rand_url():
    r = rng.random()
    if r < 0.05:
        return rand_text(20)
    scheme = rng.choice(SCHEMES)
    host = rng.choice(HOSTS) if rng.random() < 0.8 else rand_text(8)
    netloc = rand_userinfo() + host + rng.choice(PORTS)
    path = ""
    if rng.random() < 0.8:
        path = "/" + "/".join(rand_text(6) for _ in range(rng.randint(0, 3)))
    url = ""
    if scheme:
        url += scheme + ":"
    if rng.random() < 0.9:
        url += "//" + netloc
    url += path
    if rng.random() < 0.5:
        url += "?" + rand_text(10)
    if rng.random() < 0.3:
        url += "#" + rand_text(6)
    return url


def run(fn, arg):
    try:
        return ("ok", fn(arg))
    except Exception as exc:  # noqa: BLE001
        return ("exc", type(exc), str(exc))


def main():
    n = mismatches = 0
    outcomes = {"ok": 0, "exc": 0}

    def check(new, old, arg):
        nonlocal n, mismatches
        a = run(old, arg)
        b = run(new, arg)
        n += 1
        outcomes[a[0]] += 1
        if a != b:
            mismatches += 1
            if mismatches < 10:
                print("MISMATCH", new.__name__, repr(arg), a, b)
        return b

    fixed = [
        "http://☃.net/p\xe5th?q=\xe8ry%DF",
        "http://xn--n3h.net/p%C3%A5th?q=%C3%A8ry%DF",
        "http://user:p%40ss@[::1]:8080/a%2Fb?x=%26#%23",
        "itms-services://?action=download-manifest&url=https://x/y",
        "http://ü:pä@☃.net:80/",
        "http://:pw@host/",
        "http://user:@host/",
        "http://@host/",
        "//host:0/",
        "",
    ]

    for i in range(12000):
        url = fixed[i] if i < len(fixed) else rand_url()
        r1 = check(urls.iri_to_uri, orig_iri_to_uri, url)
        r2 = check(urls.uri_to_iri, orig_uri_to_iri, url)

        # second step of each direction and the cross round trip
        for r in (r1, r2):
            if r[0] == "ok":
                check(urls.iri_to_uri, orig_iri_to_uri, r[1])
                check(urls.uri_to_iri, orig_uri_to_iri, r[1])

    # URL reconstruction goes through uri_to_iri
    for _ in range(2000):
        args = (
            rng.choice(["http", "https", "ws", ""]),
            rng.choice(HOSTS) + rng.choice(PORTS),
            rng.choice([None, "", "/" + rand_text(5)]),
            rng.choice([None, "", "/" + rand_text(5)]),
            rng.choice([None, b"", b"a=%FF&b=\xe2\x98\x83", rand_text(5).encode("utf-8", "replace")]),
        )
        saved = urls.uri_to_iri
        import werkzeug.sansio.utils as su

        b = run(lambda a: get_current_url(*a), args)
        su.uri_to_iri = orig_uri_to_iri
        try:
            a = run(lambda a: get_current_url(*a), args)
        finally:
            su.uri_to_iri = saved
        n += 1
        if a != b:
            mismatches += 1
            print("MISMATCH get_current_url", args, a, b)

    print(f"checked {n} cases ({outcomes}), {mismatches} mismatches")
    print("PASS" if mismatches == 0 else "FAIL")


if __name__ == "__main__":
    main()
