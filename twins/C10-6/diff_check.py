"""Differential check for refactoring 3 (C10).

Compares the refactored wsgi.get_input_stream and
formparser.FormDataParser._parse_urlencoded from the worktree against verbatim
copies of the ORIGINAL implementations, on generated WSGI environs / bodies /
limits, both function-level and end-to-end through Request.form / Request.files.

Run: cd /tmp/wt6-C10 && PYTHONPATH=/tmp/wt6-C10/src /venv/bin/python /tmp/twin4-C10/3/diff_check.py
"""
from __future__ import annotations

import io
import itertools
import random
import sys
import typing as t
from urllib.parse import parse_qsl

from werkzeug import formparser as F
from werkzeug import wsgi as W
from werkzeug.exceptions import RequestEntityTooLarge
from werkzeug.formparser import FormDataParser
from werkzeug.wrappers import Request
from werkzeug.wsgi import get_content_length
from werkzeug.wsgi import LimitedStream

assert W.__file__.startswith("/tmp/wt6-C10/"), W.__file__
assert F.__file__.startswith("/tmp/wt6-C10/"), F.__file__

new_get_input_stream = W.get_input_stream
new_parse_urlencoded = FormDataParser._parse_urlencoded


# ---------------------------------------------------------------- originals
def orig_get_input_stream(
    environ,
    safe_fallback: bool = True,
    max_content_length: int | None = None,
) -> t.IO[bytes]:
    stream = t.cast(t.IO[bytes], environ["wsgi.input"])
    content_length = get_content_length(environ)

    if content_length is not None and max_content_length is not None:
        if content_length > max_content_length:
            raise RequestEntityTooLarge()

    # A WSGI server can set this to indicate that it terminates the input stream. In
    # that case the stream is safe without wrapping, or can enforce a max length.
    if "wsgi.input_terminated" in environ:
        if max_content_length is not None:
            # If this is moved above, it can cause the stream to hang if a read attempt
            # is made when the client sends no data. For example, the development server
            # does not handle buffering except for chunked encoding.
            return t.cast(
                t.IO[bytes], LimitedStream(stream, max_content_length, is_max=True)
            )

        return stream

    # No limit given, return an empty stream unless the user explicitly allows the
    # potentially infinite stream. An infinite stream is dangerous if it's not expected,
    # as it can tie up a worker indefinitely.
    if content_length is None:
        return io.BytesIO() if safe_fallback else stream

    return t.cast(t.IO[bytes], LimitedStream(stream, content_length))


def orig_parse_urlencoded(
    self,
    stream: t.IO[bytes],
    mimetype: str,
    content_length: int | None,
    options: dict[str, str],
):
    if (
        self.max_form_memory_size is not None
        and content_length is not None
        and content_length > self.max_form_memory_size
    ):
        raise RequestEntityTooLarge()

    items = parse_qsl(
        stream.read().decode(),
        keep_blank_values=True,
        errors="werkzeug.url_quote",
    )
    return stream, self.cls(items), self.cls()


# ------------------------------------------------------------------ helpers
class ReadOnlyStream:
    """A stream exposing only read() (exercises LimitedStream's read() path)."""

    def __init__(self, body: bytes) -> None:
        self._io = io.BytesIO(body)
        self.calls: list[int] = []

    def read(self, size: int = -1) -> bytes:
        self.calls.append(size)
        return self._io.read(size)


CL_VALUES = [None, "", "0", "1", "5", "17", "100", "4096", "abc", "-1", "+3", " 7", "1_0", "99999999999"]
TE_VALUES = [None, "chunked", "gzip", "Chunked", ""]
TERM_VALUES = ["absent", True, False, None]
MAX_VALUES = [None, 0, 1, 4, 5, 16, 17, 18, 100, 5000]


def describe_stream(rv, raw) -> tuple:
    if rv is raw:
        kind: tuple = ("raw",)
    elif isinstance(rv, LimitedStream):
        kind = ("limited", rv.limit, rv._limit_is_max, rv._stream is raw, rv._pos)
    elif isinstance(rv, io.BytesIO):
        kind = ("bytesio", rv.getvalue())
    else:
        kind = ("other", type(rv))
    return kind


def consume(rv, how: int) -> tuple:
    out = []
    try:
        if how == 0:
            out.append(rv.read())
        elif how == 1:
            while True:
                d = rv.read(3)
                out.append(d)
                if not d:
                    break
            # one more read past the end (on_exhausted for is_max streams)
            out.append(rv.read(1))
        else:
            out.append(rv.read(7))
            out.append(rv.read())
            out.append(rv.read())
    except Exception as e:  # noqa: BLE001
        out.append(("exc", type(e), e.args))
    return tuple(out)


def call_gis(fn, body, cl, te, term, safe_fallback, mcl, readonly, how, drop_input):
    raw = ReadOnlyStream(body) if readonly else io.BytesIO(body)
    environ: dict[str, t.Any] = {"wsgi.input": raw}
    if drop_input:
        del environ["wsgi.input"]
    if cl is not None:
        environ["CONTENT_LENGTH"] = cl
    if te is not None:
        environ["HTTP_TRANSFER_ENCODING"] = te
    if term != "absent":
        environ["wsgi.input_terminated"] = term
    before = dict(environ)
    try:
        rv = fn(environ, safe_fallback=safe_fallback, max_content_length=mcl)
    except Exception as e:  # noqa: BLE001
        return ("exc", type(e), e.args, environ == before)
    desc = describe_stream(rv, raw)
    data = consume(rv, how)
    pos = raw._io.tell() if readonly else raw.tell()
    return ("ok", desc, data, pos, environ == before, getattr(raw, "calls", None))


def check_get_input_stream(rng: random.Random) -> int:
    n = 0
    # exhaustive grid over the configuration space with a fixed body ...
    body = b"a=1&b=2&c=%C3%A9xyz"  # 19 bytes
    for cl, te, term, sf, mcl, ro in itertools.product(
        CL_VALUES, TE_VALUES, TERM_VALUES, [True, False], MAX_VALUES, [False, True]
    ):
        how = n % 3
        a = call_gis(orig_get_input_stream, body, cl, te, term, sf, mcl, ro, how, False)
        b = call_gis(new_get_input_stream, body, cl, te, term, sf, mcl, ro, how, False)
        n += 1
        if a != b:
            print("FAIL get_input_stream grid", cl, te, term, sf, mcl, ro, a, b)
            return -1
    # ... plus random bodies / lengths around the limits
    for _ in range(4000):
        blen = rng.choice([0, 1, 4, 5, 6, 16, 17, 18, 50, 300])
        body = bytes(rng.randrange(256) for _ in range(blen))
        cl = rng.choice([None, None, str(blen), str(max(0, blen - 1)), str(blen + 1), *CL_VALUES])
        mcl = rng.choice([None, blen, blen - 1 if blen else 0, blen + 1, *MAX_VALUES])
        args = (
            body,
            cl,
            rng.choice(TE_VALUES),
            rng.choice(TERM_VALUES),
            rng.random() < 0.5,
            mcl,
            rng.random() < 0.3,
            rng.randrange(3),
            rng.random() < 0.02,
        )
        a = call_gis(orig_get_input_stream, *args)
        b = call_gis(new_get_input_stream, *args)
        n += 1
        if a != b:
            print("FAIL get_input_stream random", args, a, b)
            return -1
    return n


def call_urlencoded(fn, body, content_length, mfms, cls):
    raw = io.BytesIO(body)
    p = FormDataParser(max_form_memory_size=mfms, cls=cls)
    try:
        stream, form, files = fn(p, raw, "application/x-www-form-urlencoded", content_length, {})
    except Exception as e:  # noqa: BLE001
        return ("exc", type(e), e.args, raw.tell())
    return (
        "ok",
        stream is raw,
        type(form),
        list(form.items(multi=True)) if cls is None else list(form.items()),
        type(files),
        len(files),
        raw.tell(),
    )


QS_ALPHA = b"abcXYZ019&&==%+;._-\xc3\xa9\xff %41%C3%A9%zz"


def gen_qs(rng: random.Random) -> bytes:
    return bytes(rng.choice(QS_ALPHA) for _ in range(rng.choice([0, 1, 3, 8, 20, 60, 200])))


def check_urlencoded(rng: random.Random) -> int:
    n = 0
    for _ in range(4000):
        body = gen_qs(rng)
        cl = rng.choice([None, len(body), 0, len(body) + 1, max(0, len(body) - 1), 10**9])
        mfms = rng.choice([None, 0, 1, len(body), len(body) + 1, max(0, len(body) - 1), 50, 500_000])
        cls = rng.choice([None, dict])
        a = call_urlencoded(orig_parse_urlencoded, body, cl, mfms, cls)
        b = call_urlencoded(new_parse_urlencoded, body, cl, mfms, cls)
        n += 1
        if a != b:
            print("FAIL _parse_urlencoded", body, cl, mfms, a, b)
            return -1
    # small exhaustive grid on the guard itself
    for cl in [None, *range(0, 12)]:
        for mfms in [None, *range(0, 12)]:
            a = call_urlencoded(orig_parse_urlencoded, b"k=v&k2=v2", cl, mfms, None)
            b = call_urlencoded(new_parse_urlencoded, b"k=v&k2=v2", cl, mfms, None)
            n += 1
            if a != b:
                print("FAIL _parse_urlencoded grid", cl, mfms, a, b)
                return -1
    return n


# --------------------------------------------------------------- end to end
def multipart_body(rng: random.Random) -> tuple[bytes, str]:
    boundary = "bnd%d" % rng.randrange(1000)
    out = bytearray()
    for i in range(rng.choice([0, 1, 2, 3, 6])):
        out += b"--" + boundary.encode() + b"\r\n"
        if rng.random() < 0.6:
            out += b'Content-Disposition: form-data; name="f%d"\r\n\r\n' % i
        else:
            out += (
                b'Content-Disposition: form-data; name="u%d"; filename="x%d.bin"\r\n'
                b"Content-Type: application/octet-stream\r\n\r\n" % (i, i)
            )
        out += bytes(rng.choice(b"abcdef \n") for _ in range(rng.choice([0, 3, 30, 120])))
        out += b"\r\n"
    out += b"--" + boundary.encode() + b"--\r\n"
    return bytes(out), "multipart/form-data; boundary=" + boundary


def end_to_end_case(rng: random.Random) -> dict:
    if rng.random() < 0.5:
        body, ctype = gen_qs(rng), "application/x-www-form-urlencoded"
    else:
        body, ctype = multipart_body(rng)
    blen = len(body)
    return {
        "body": body,
        "ctype": rng.choice([ctype, ctype, ctype, "text/plain"]),
        "cl": rng.choice([None, str(blen), str(blen), str(blen + 2), str(max(0, blen - 2)), "x"]),
        "te": rng.choice([None, None, "chunked"]),
        "term": rng.choice(["absent", "absent", True]),
        "mcl": rng.choice([None, None, 0, blen, blen + 1, max(0, blen - 1), 10, 100_000]),
        "mfms": rng.choice(["default", None, 0, blen, max(0, blen - 1), 10, 40, 100_000]),
        "mfp": rng.choice(["default", None, 0, 1, 2, 5, 1000]),
    }


def run_end_to_end(case: dict) -> tuple:
    environ: dict[str, t.Any] = {
        "REQUEST_METHOD": "POST",
        "wsgi.input": io.BytesIO(case["body"]),
        "CONTENT_TYPE": case["ctype"],
        "wsgi.url_scheme": "http",
        "SERVER_NAME": "localhost",
        "SERVER_PORT": "80",
        "PATH_INFO": "/",
    }
    if case["cl"] is not None:
        environ["CONTENT_LENGTH"] = case["cl"]
    if case["te"] is not None:
        environ["HTTP_TRANSFER_ENCODING"] = case["te"]
    if case["term"] != "absent":
        environ["wsgi.input_terminated"] = case["term"]
    req = Request(environ)
    req.max_content_length = case["mcl"]
    if case["mfms"] != "default":
        req.max_form_memory_size = case["mfms"]
    if case["mfp"] != "default":
        req.max_form_parts = case["mfp"]
    try:
        form = list(req.form.items(multi=True))
        files = [
            (k, v.filename, v.content_type, v.stream.read())
            for k, v in req.files.items(multi=True)
        ]
        rest = req.stream.read()
    except Exception as e:  # noqa: BLE001
        return ("exc", type(e), e.args, environ["wsgi.input"].tell())
    return ("ok", form, files, rest, environ["wsgi.input"].tell())


def check_end_to_end(rng: random.Random) -> int:
    cases = [end_to_end_case(rng) for _ in range(4000)]
    new_results = [run_end_to_end(c) for c in cases]
    # Swap in the ORIGINAL implementations everywhere they are referenced.
    saved = (W.get_input_stream, F.get_input_stream, FormDataParser._parse_urlencoded)
    import werkzeug.wrappers.request as R

    saved_r = getattr(R, "get_input_stream", None)
    W.get_input_stream = orig_get_input_stream
    F.get_input_stream = orig_get_input_stream
    if saved_r is not None:
        R.get_input_stream = orig_get_input_stream
    FormDataParser._parse_urlencoded = orig_parse_urlencoded
    try:
        old_results = [run_end_to_end(c) for c in cases]
    finally:
        W.get_input_stream, F.get_input_stream, FormDataParser._parse_urlencoded = saved
        if saved_r is not None:
            R.get_input_stream = saved_r
    for c, a, b in zip(cases, old_results, new_results):
        if a != b:
            print("FAIL end-to-end", c, a, b)
            return -1
    oks = sum(1 for r in old_results if r[0] == "ok")
    tl = sum(1 for r in old_results if r[0] == "exc" and r[1] is RequestEntityTooLarge)
    print(f"end-to-end: {len(cases)} cases, {oks} ok, {tl} RequestEntityTooLarge")
    return len(cases)


def main() -> int:
    rng = random.Random(0xC10_3)
    total = 0
    for fn in (check_get_input_stream, check_urlencoded, check_end_to_end):
        n = fn(rng)
        if n < 0:
            return 1
        print(f"{fn.__name__}: {n} cases identical")
        total += n
    print(f"compared {total} cases")
    print("PASS")
    return 0


if __name__ == "__main__":
    sys.exit(main())
