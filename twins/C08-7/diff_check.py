"""Differential check for refactoring 1 (CombinedMultiDict read-through).

Run as:
    cd /tmp/wt9-C08 && PYTHONPATH=/tmp/wt9-C08/src /venv/bin/python /tmp/twin5-C08/1/diff_check.py

Strategy: a deterministic (seeded) scenario generator is run twice in the same
process -- once against the refactored methods that live in the worktree and
once after monkeypatching the ORIGINAL method bodies (pasted below verbatim)
onto ``CombinedMultiDict``.  Every observation (result repr or exception type
+ args) of both runs is compared.  Prints PASS only if all are identical.
"""

from __future__ import annotations

import copy
import pickle
import random
import sys

from werkzeug import exceptions
from werkzeug.datastructures import CombinedMultiDict
from werkzeug.datastructures import ImmutableMultiDict
from werkzeug.datastructures import MultiDict

# --------------------------------------------------------------------------
# ORIGINAL implementations (verbatim from the unmodified tree)
# --------------------------------------------------------------------------


def orig_get(self, key, default=None, type=None):
    for d in self.dicts:
        if key in d:
            if type is not None:
                try:
                    return type(d[key])
                except (ValueError, TypeError):
                    continue
            return d[key]
    return default


def orig_getlist(self, key, type=None):
    rv = []
    for d in self.dicts:
        rv.extend(d.getlist(key, type))  # type: ignore[arg-type]
    return rv


def orig__keys_impl(self):
    """This function exists so __len__ can be implemented more efficiently,
    saving one list creation from an iterator.
    """
    return set(k for d in self.dicts for k in d)


def orig_items(self, multi=False):
    found = set()
    for d in self.dicts:
        for key, value in d.items(multi):
            if multi:
                yield key, value
            elif key not in found:
                found.add(key)
                yield key, value


def orig___contains__(self, key):
    for d in self.dicts:
        if key in d:
            return True
    return False


ORIGINALS = {
    "get": orig_get,
    "getlist": orig_getlist,
    "_keys_impl": orig__keys_impl,
    "items": orig_items,
    "__contains__": orig___contains__,
}

# --------------------------------------------------------------------------
# scenario generator
# --------------------------------------------------------------------------

KEYS = ["a", "b", "c", "A", "", 1, 2, None, ("t", 1), 1.0, True, "x-y"]
BAD_KEYS = [[], {}, set()]  # unhashable
VALUES = ["1", "2", "x", "", " 7 ", "3.5", 0, 1, -4, None, 2.5, ("v",), b"9"]


class CountingBool:
    """truthiness object that records how often it is asked"""

    def __init__(self, value):
        self.value = value
        self.calls = 0

    def __bool__(self):
        self.calls += 1
        return self.value

    def __repr__(self):
        return f"CountingBool({self.value})"


class RaisingBool:
    def __bool__(self):
        raise RuntimeError("no truth value")

    def __repr__(self):
        return "RaisingBool()"


def conv_keyerror(v):
    raise KeyError(v)


def conv_brk(v):
    raise exceptions.BadRequestKeyError(v)


def conv_value(v):
    if v in ("x", "", None):
        raise ValueError(v)
    return ("conv", v)


def conv_type(v):
    if not isinstance(v, str):
        raise TypeError(v)
    return v.upper()


def conv_runtime(v):
    if v == "x":
        raise RuntimeError("boom")
    return v


TYPES = [None, int, float, str, conv_value, conv_type, conv_keyerror, conv_brk,
         conv_runtime, len]
DEFAULTS = [None, "dflt", 0, [], ("d",)]


def observe(fn):
    try:
        rv = fn()
    except BaseException as e:  # noqa: B902
        return ("EXC", type(e).__name__, repr(e.args))
    return ("OK", type(rv).__name__, repr(rv))


def stable_set(s):
    return sorted((repr(x) for x in s))


def make_dict(rng):
    n = rng.randrange(0, 6)
    pairs = [(rng.choice(KEYS), rng.choice(VALUES)) for _ in range(n)]
    kind = rng.randrange(6)
    if kind == 0:
        return ImmutableMultiDict(pairs)
    if kind == 1:
        # mapping constructor with list values
        m = {}
        for k, v in pairs:
            m.setdefault(k, []).append(v)
        return MultiDict(m)
    if kind == 2 and pairs:
        # nested combined dict
        return CombinedMultiDict([MultiDict(pairs[:2]), MultiDict(pairs[2:])])
    return MultiDict(pairs)


def mutate_underlying(rng, dicts, out):
    cands = [d for d in dicts if type(d) is MultiDict]
    if not cands:
        return
    d = rng.choice(cands)
    op = rng.randrange(6)
    k = rng.choice(KEYS)
    v = rng.choice(VALUES)
    if op == 0:
        d.add(k, v)
    elif op == 1:
        d[k] = v
    elif op == 2:
        d.poplist(k)
    elif op == 3:
        d.setlist(k, [v, rng.choice(VALUES)])
    elif op == 4:
        d.clear()
    else:
        d.setlist(k, [])  # empty list bucket: key present, no first value
    out.append(("mutated", op, repr(k), repr(v)))


def snapshot(cm):
    return (
        repr(cm.dicts),
        repr([list(d.lists()) if hasattr(d, "lists") else d for d in cm.dicts]),
    )


MUTATORS = [
    lambda c: c.add("a", 1),
    lambda c: c.__setitem__("a", 1),
    lambda c: c.__delitem__("a"),
    lambda c: c.pop("a"),
    lambda c: c.pop("a", None),
    lambda c: c.popitem(),
    lambda c: c.poplist("a"),
    lambda c: c.popitemlist(),
    lambda c: c.setdefault("zz", 1),
    lambda c: c.setlist("a", [1]),
    lambda c: c.setlistdefault("zz", [1]),
    lambda c: c.update({"a": 1}),
    lambda c: c.clear(),
    lambda c: c.__ior__({"a": 1}),
    lambda c: type(c).fromkeys(["a"], 1),
]


def scenario(seed):
    rng = random.Random(seed)
    out = []
    r = rng.randrange(12)
    if r == 0:
        dicts = None
    elif r == 1:
        dicts = []
    else:
        dicts = [make_dict(rng) for _ in range(rng.randrange(1, 5))]
    gen_input = rng.random() < 0.15 and dicts is not None
    cm = CombinedMultiDict(iter(dicts) if gen_input else dicts)
    dicts = cm.dicts

    for _step in range(rng.randrange(8, 20)):
        op = rng.randrange(30)
        key = rng.choice(KEYS) if rng.random() < 0.93 else rng.choice(BAD_KEYS)
        typ = rng.choice(TYPES)
        dflt = rng.choice(DEFAULTS)
        if op == 0:
            out.append(("getitem", repr(key), observe(lambda: cm[key])))
        elif op == 1:
            out.append(("get", repr(key), observe(lambda: cm.get(key))))
        elif op == 2:
            out.append(("get-d", repr(key), observe(lambda: cm.get(key, dflt))))
        elif op in (3, 4):
            out.append(
                ("get-t", repr(key), getattr(typ, "__name__", None),
                 observe(lambda: cm.get(key, type=typ)))
            )
        elif op in (5, 6):
            out.append(
                ("get-dt", repr(key), getattr(typ, "__name__", None),
                 observe(lambda: cm.get(key, dflt, typ)))
            )
        elif op == 7:
            out.append(("getlist", repr(key), observe(lambda: cm.getlist(key))))
        elif op in (8, 9):
            out.append(
                ("getlist-t", repr(key), getattr(typ, "__name__", None),
                 observe(lambda: cm.getlist(key, typ)))
            )
        elif op == 10:
            out.append(("keys", observe(lambda: stable_set(cm.keys())),
                        observe(lambda: type(cm.keys()).__name__)))
        elif op == 11:
            out.append(("iter", observe(lambda: list(cm)), observe(lambda: list(cm.keys()))))
        elif op == 12:
            out.append(("items", observe(lambda: list(cm.items()))))
        elif op == 13:
            out.append(("items-multi", observe(lambda: list(cm.items(multi=True)))))
        elif op == 14:
            flag = rng.choice([0, 1, "", "m", [], [0], None, 2.0])
            out.append(("items-flag", repr(flag), observe(lambda: list(cm.items(flag)))))
        elif op == 15:
            cb = CountingBool(rng.random() < 0.5)
            out.append(("items-cb", repr(cb), observe(lambda: list(cm.items(cb))), cb.calls))
            rb = RaisingBool()
            out.append(("items-rb", observe(lambda: list(cm.items(rb)))))
        elif op == 16:
            out.append(("values", observe(lambda: list(cm.values()))))
        elif op == 17:
            out.append(("lists", observe(lambda: [(k, list(v)) for k, v in cm.lists()])))
            out.append(("listvalues", observe(lambda: list(cm.listvalues()))))
        elif op == 18:
            out.append(("len", observe(lambda: len(cm)), observe(lambda: bool(cm))))
        elif op == 19:
            out.append(("contains", repr(key), observe(lambda: key in cm),
                        observe(lambda: cm.__contains__(key))))
        elif op == 20:
            out.append(("copy", observe(lambda: (type(cm.copy()).__name__, list(cm.copy().lists())))))
            out.append(("copy.copy", observe(lambda: copy.copy(cm) is cm or repr(copy.copy(cm)))))
        elif op == 21:
            out.append(("to_dict", observe(lambda: cm.to_dict()), observe(lambda: cm.to_dict(flat=False))))
        elif op == 22:
            out.append(("repr", observe(lambda: repr(cm))))
        elif op == 23:
            other = CombinedMultiDict([MultiDict(list(cm.items(multi=True)))])
            out.append(("eq", observe(lambda: cm == other), observe(lambda: cm != other),
                        observe(lambda: cm == MultiDict(cm)), observe(lambda: cm == dict(cm.to_dict()))))
        elif op == 24:
            def hashes():
                c2 = CombinedMultiDict(list(cm.dicts))
                return hash(c2) == hash(CombinedMultiDict(list(cm.dicts)))
            out.append(("hash", observe(hashes)))
        elif op == 25:
            def roundtrip():
                c2 = pickle.loads(pickle.dumps(cm, rng.randrange(0, pickle.HIGHEST_PROTOCOL + 1)))
                return (type(c2).__name__, repr(c2.dicts), list(c2.items(multi=True)))
            out.append(("pickle", observe(roundtrip)))
        elif op == 26:
            def dc():
                c2 = copy.deepcopy(cm)
                return (type(c2).__name__, list(c2.items(multi=True)))
            out.append(("deepcopy", observe(dc)))
        elif op == 27:
            before = snapshot(cm)
            m = rng.choice(MUTATORS)
            out.append(("mutator", MUTATORS.index(m), observe(lambda: m(cm)), before == snapshot(cm)))
        elif op == 28:
            mutate_underlying(rng, dicts, out)
        else:
            # partial consumption of the generator interleaved with a change
            # of an underlying dict (read-through laziness must be the same)
            multi = rng.random() < 0.5
            def partial():
                it = iter(cm.items(multi))
                got = []
                try:
                    got.append(next(it))
                except StopIteration:
                    got.append("stop")
                cands = [d for d in dicts if type(d) is MultiDict]
                if cands:
                    cands[-1].add("late", "v")
                try:
                    got.extend(it)
                except RuntimeError as e:
                    got.append(("rt", str(e)))
                return got
            out.append(("partial", multi, observe(partial)))
    # full final read
    out.append(("final", observe(lambda: list(cm.items(multi=True))),
                observe(lambda: stable_set(cm.keys())), observe(lambda: len(cm))))
    return out


def run_all(n):
    return [scenario(seed) for seed in range(n)]


def main():
    n = 6000
    new = run_all(n)
    saved = {name: CombinedMultiDict.__dict__[name] for name in ORIGINALS}
    for name, fn in ORIGINALS.items():
        setattr(CombinedMultiDict, name, fn)
    try:
        old = run_all(n)
    finally:
        for name, fn in saved.items():
            setattr(CombinedMultiDict, name, fn)
    n_obs = sum(len(s) for s in new)
    n_exc = sum(1 for s in new for o in s for x in o if isinstance(x, tuple) and x and x[0] == "EXC")
    bad = [i for i in range(n) if new[i] != old[i]]
    if bad:
        i = bad[0]
        for a, b in zip(new[i], old[i]):
            if a != b:
                print("seed", i, "\n new:", a, "\n old:", b)
                break
        print(f"FAIL ({len(bad)} of {n} scenarios differ)")
        return 1
    print(f"PASS ({n} scenarios, {n_obs} observations, {n_exc} exception outcomes)")
    return 0


if __name__ == "__main__":
    sys.exit(main())
