"""Differential check for C18 refactoring 2: LocalStack.push/pop/top truthiness test + positive branch, LocalManager.cleanup with release_local inlined

Runs the ORIGINAL werkzeug/local.py (pasted below, executed as a private
module) and the refactored werkzeug.local from the worktree through the
same generated inputs and compares every result / exception.

Run: cd /tmp/wt12-C18 && PYTHONPATH=/tmp/wt12-C18/src /venv/bin/python /tmp/twin7-C18/2/diff_check.py
"""

ORIGINAL_SRC = r'''from __future__ import annotations

import copy
import math
import operator
import typing as t
from contextvars import ContextVar
from functools import partial
from functools import update_wrapper
from operator import attrgetter

from .wsgi import ClosingIterator

if t.TYPE_CHECKING:
    from _typeshed.wsgi import StartResponse
    from _typeshed.wsgi import WSGIApplication
    from _typeshed.wsgi import WSGIEnvironment

T = t.TypeVar("T")
F = t.TypeVar("F", bound=t.Callable[..., t.Any])


def release_local(local: Local | LocalStack[t.Any]) -> None:
    """Release the data for the current context in a :class:`Local` or
    :class:`LocalStack` without using a :class:`LocalManager`.

    This should not be needed for modern use cases, and may be removed
    in the future.

    .. versionadded:: 0.6.1
    """
    local.__release_local__()


class Local:
    """Create a namespace of context-local data. This wraps a
    :class:`ContextVar` containing a :class:`dict` value.

    This may incur a performance penalty compared to using individual
    context vars, as it has to copy data to avoid mutating the dict
    between nested contexts.

    :param context_var: The :class:`~contextvars.ContextVar` to use as
        storage for this local. If not given, one will be created.
        Context vars not created at the global scope may interfere with
        garbage collection.

    .. versionchanged:: 2.0
        Uses ``ContextVar`` instead of a custom storage implementation.
    """

    __slots__ = ("__storage",)

    def __init__(self, context_var: ContextVar[dict[str, t.Any]] | None = None) -> None:
        if context_var is None:
            # A ContextVar not created at global scope interferes with
            # Python's garbage collection. However, a local only makes
            # sense defined at the global scope as well, in which case
            # the GC issue doesn't seem relevant.
            context_var = ContextVar(f"werkzeug.Local<{id(self)}>.storage")

        object.__setattr__(self, "_Local__storage", context_var)

    def __iter__(self) -> t.Iterator[tuple[str, t.Any]]:
        return iter(self.__storage.get({}).items())

    def __call__(
        self, name: str, *, unbound_message: str | None = None
    ) -> LocalProxy[t.Any]:
        """Create a :class:`LocalProxy` that access an attribute on this
        local namespace.

        :param name: Proxy this attribute.
        :param unbound_message: The error message that the proxy will
            show if the attribute isn't set.
        """
        return LocalProxy(self, name, unbound_message=unbound_message)

    def __release_local__(self) -> None:
        self.__storage.set({})

    def __getattr__(self, name: str) -> t.Any:
        values = self.__storage.get({})

        if name in values:
            return values[name]

        raise AttributeError(name)

    def __setattr__(self, name: str, value: t.Any) -> None:
        values = self.__storage.get({}).copy()
        values[name] = value
        self.__storage.set(values)

    def __delattr__(self, name: str) -> None:
        values = self.__storage.get({})

        if name in values:
            values = values.copy()
            del values[name]
            self.__storage.set(values)
        else:
            raise AttributeError(name)


class LocalStack(t.Generic[T]):
    """Create a stack of context-local data. This wraps a
    :class:`ContextVar` containing a :class:`list` value.

    This may incur a performance penalty compared to using individual
    context vars, as it has to copy data to avoid mutating the list
    between nested contexts.

    :param context_var: The :class:`~contextvars.ContextVar` to use as
        storage for this local. If not given, one will be created.
        Context vars not created at the global scope may interfere with
        garbage collection.

    .. versionchanged:: 2.0
        Uses ``ContextVar`` instead of a custom storage implementation.

    .. versionadded:: 0.6.1
    """

    __slots__ = ("_storage",)

    def __init__(self, context_var: ContextVar[list[T]] | None = None) -> None:
        if context_var is None:
            # A ContextVar not created at global scope interferes with
            # Python's garbage collection. However, a local only makes
            # sense defined at the global scope as well, in which case
            # the GC issue doesn't seem relevant.
            context_var = ContextVar(f"werkzeug.LocalStack<{id(self)}>.storage")

        self._storage = context_var

    def __release_local__(self) -> None:
        self._storage.set([])

    def push(self, obj: T) -> list[T]:
        """Add a new item to the top of the stack."""
        stack = self._storage.get([]).copy()
        stack.append(obj)
        self._storage.set(stack)
        return stack

    def pop(self) -> T | None:
        """Remove the top item from the stack and return it. If the
        stack is empty, return ``None``.
        """
        stack = self._storage.get([])

        if len(stack) == 0:
            return None

        rv = stack[-1]
        self._storage.set(stack[:-1])
        return rv

    @property
    def top(self) -> T | None:
        """The topmost item on the stack.  If the stack is empty,
        `None` is returned.
        """
        stack = self._storage.get([])

        if len(stack) == 0:
            return None

        return stack[-1]

    def __call__(
        self, name: str | None = None, *, unbound_message: str | None = None
    ) -> LocalProxy[t.Any]:
        """Create a :class:`LocalProxy` that accesses the top of this
        local stack.

        :param name: If given, the proxy access this attribute of the
            top item, rather than the item itself.
        :param unbound_message: The error message that the proxy will
            show if the stack is empty.
        """
        return LocalProxy(self, name, unbound_message=unbound_message)


class LocalManager:
    """Manage releasing the data for the current context in one or more
    :class:`Local` and :class:`LocalStack` objects.

    This should not be needed for modern use cases, and may be removed
    in the future.

    :param locals: A local or list of locals to manage.

    .. versionchanged:: 2.1
        The ``ident_func`` was removed.

    .. versionchanged:: 0.7
        The ``ident_func`` parameter was added.

    .. versionchanged:: 0.6.1
        The :func:`release_local` function can be used instead of a
        manager.
    """

    __slots__ = ("locals",)

    def __init__(
        self,
        locals: None
        | (Local | LocalStack[t.Any] | t.Iterable[Local | LocalStack[t.Any]]) = None,
    ) -> None:
        if locals is None:
            self.locals = []
        elif isinstance(locals, Local):
            self.locals = [locals]
        else:
            self.locals = list(locals)  # type: ignore[arg-type]

    def cleanup(self) -> None:
        """Release the data in the locals for this context. Call this at
        the end of each request or use :meth:`make_middleware`.
        """
        for local in self.locals:
            release_local(local)

    def make_middleware(self, app: WSGIApplication) -> WSGIApplication:
        """Wrap a WSGI application so that local data is released
        automatically after the response has been sent for a request.
        """

        def application(
            environ: WSGIEnvironment, start_response: StartResponse
        ) -> t.Iterable[bytes]:
            return ClosingIterator(app(environ, start_response), self.cleanup)

        return application

    def middleware(self, func: WSGIApplication) -> WSGIApplication:
        """Like :meth:`make_middleware` but used as a decorator on the
        WSGI application function.

        .. code-block:: python

            @manager.middleware
            def application(environ, start_response):
                ...
        """
        return update_wrapper(self.make_middleware(func), func)

    def __repr__(self) -> str:
        return f"<{type(self).__name__} storages: {len(self.locals)}>"


class _ProxyLookup:
    """Descriptor that handles proxied attribute lookup for
    :class:`LocalProxy`.

    :param f: The built-in function this attribute is accessed through.
        Instead of looking up the special method, the function call
        is redone on the object.
    :param fallback: Return this function if the proxy is unbound
        instead of raising a :exc:`RuntimeError`.
    :param is_attr: This proxied name is an attribute, not a function.
        Call the fallback immediately to get the value.
    :param class_value: Value to return when accessed from the
        ``LocalProxy`` class directly. Used for ``__doc__`` so building
        docs still works.
    """

    __slots__ = ("bind_f", "fallback", "is_attr", "class_value", "name")

    def __init__(
        self,
        f: t.Callable[..., t.Any] | None = None,
        fallback: t.Callable[[LocalProxy[t.Any]], t.Any] | None = None,
        class_value: t.Any | None = None,
        is_attr: bool = False,
    ) -> None:
        bind_f: t.Callable[[LocalProxy[t.Any], t.Any], t.Callable[..., t.Any]] | None

        if hasattr(f, "__get__"):
            # A Python function, can be turned into a bound method.

            def bind_f(
                instance: LocalProxy[t.Any], obj: t.Any
            ) -> t.Callable[..., t.Any]:
                return f.__get__(obj, type(obj))  # type: ignore

        elif f is not None:
            # A C function, use partial to bind the first argument.

            def bind_f(
                instance: LocalProxy[t.Any], obj: t.Any
            ) -> t.Callable[..., t.Any]:
                return partial(f, obj)

        else:
            # Use getattr, which will produce a bound method.
            bind_f = None

        self.bind_f = bind_f
        self.fallback = fallback
        self.class_value = class_value
        self.is_attr = is_attr

    def __set_name__(self, owner: LocalProxy[t.Any], name: str) -> None:
        self.name = name

    def __get__(self, instance: LocalProxy[t.Any], owner: type | None = None) -> t.Any:
        if instance is None:
            if self.class_value is not None:
                return self.class_value

            return self

        try:
            obj = instance._get_current_object()
        except RuntimeError:
            if self.fallback is None:
                raise

            fallback = self.fallback.__get__(instance, owner)

            if self.is_attr:
                # __class__ and __doc__ are attributes, not methods.
                # Call the fallback to get the value.
                return fallback()

            return fallback

        if self.bind_f is not None:
            return self.bind_f(instance, obj)

        return getattr(obj, self.name)

    def __repr__(self) -> str:
        return f"proxy {self.name}"

    def __call__(
        self, instance: LocalProxy[t.Any], *args: t.Any, **kwargs: t.Any
    ) -> t.Any:
        """Support calling unbound methods from the class. For example,
        this happens with ``copy.copy``, which does
        ``type(x).__copy__(x)``. ``type(x)`` can't be proxied, so it
        returns the proxy type and descriptor.
        """
        return self.__get__(instance, type(instance))(*args, **kwargs)


class _ProxyIOp(_ProxyLookup):
    """Look up an augmented assignment method on a proxied object. The
    method is wrapped to return the proxy instead of the object.
    """

    __slots__ = ()

    def __init__(
        self,
        f: t.Callable[..., t.Any] | None = None,
        fallback: t.Callable[[LocalProxy[t.Any]], t.Any] | None = None,
    ) -> None:
        super().__init__(f, fallback)

        def bind_f(instance: LocalProxy[t.Any], obj: t.Any) -> t.Callable[..., t.Any]:
            def i_op(self: t.Any, other: t.Any) -> LocalProxy[t.Any]:
                f(self, other)  # type: ignore
                return instance

            return i_op.__get__(obj, type(obj))  # type: ignore

        self.bind_f = bind_f


def _l_to_r_op(op: F) -> F:
    """Swap the argument order to turn an l-op into an r-op."""

    def r_op(obj: t.Any, other: t.Any) -> t.Any:
        return op(other, obj)

    return t.cast(F, r_op)


def _identity(o: T) -> T:
    return o


class LocalProxy(t.Generic[T]):
    """A proxy to the object bound to a context-local object. All
    operations on the proxy are forwarded to the bound object. If no
    object is bound, a ``RuntimeError`` is raised.

    :param local: The context-local object that provides the proxied
        object.
    :param name: Proxy this attribute from the proxied object.
    :param unbound_message: The error message to show if the
        context-local object is unbound.

    Proxy a :class:`~contextvars.ContextVar` to make it easier to
    access. Pass a name to proxy that attribute.

    .. code-block:: python

        _request_var = ContextVar("request")
        request = LocalProxy(_request_var)
        session = LocalProxy(_request_var, "session")

    Proxy an attribute on a :class:`Local` namespace by calling the
    local with the attribute name:

    .. code-block:: python

        data = Local()
        user = data("user")

    Proxy the top item on a :class:`LocalStack` by calling the local.
    Pass a name to proxy that attribute.

    .. code-block::

        app_stack = LocalStack()
        current_app = app_stack()
        g = app_stack("g")

    Pass a function to proxy the return value from that function. This
    was previously used to access attributes of local objects before
    that was supported directly.

    .. code-block:: python

        session = LocalProxy(lambda: request.session)

    ``__repr__`` and ``__class__`` are proxied, so ``repr(x)`` and
    ``isinstance(x, cls)`` will look like the proxied object. Use
    ``issubclass(type(x), LocalProxy)`` to check if an object is a
    proxy.

    .. code-block:: python

        repr(user)  # <User admin>
        isinstance(user, User)  # True
        issubclass(type(user), LocalProxy)  # True

    .. versionchanged:: 2.2.2
        ``__wrapped__`` is set when wrapping an object, not only when
        wrapping a function, to prevent doctest from failing.

    .. versionchanged:: 2.2
        Can proxy a ``ContextVar`` or ``LocalStack`` directly.

    .. versionchanged:: 2.2
        The ``name`` parameter can be used with any proxied object, not
        only ``Local``.

    .. versionchanged:: 2.2
        Added the ``unbound_message`` parameter.

    .. versionchanged:: 2.0
        Updated proxied attributes and methods to reflect the current
        data model.

    .. versionchanged:: 0.6.1
        The class can be instantiated with a callable.
    """

    __slots__ = ("__wrapped", "_get_current_object")

    _get_current_object: t.Callable[[], T]
    """Return the current object this proxy is bound to. If the proxy is
    unbound, this raises a ``RuntimeError``.

    This should be used if you need to pass the object to something that
    doesn't understand the proxy. It can also be useful for performance
    if you are accessing the object multiple times in a function, rather
    than going through the proxy multiple times.
    """

    def __init__(
        self,
        local: ContextVar[T] | Local | LocalStack[T] | t.Callable[[], T],
        name: str | None = None,
        *,
        unbound_message: str | None = None,
    ) -> None:
        if name is None:
            get_name = _identity
        else:
            get_name = attrgetter(name)  # type: ignore[assignment]

        if unbound_message is None:
            unbound_message = "object is not bound"

        if isinstance(local, Local):
            if name is None:
                raise TypeError("'name' is required when proxying a 'Local' object.")

            def _get_current_object() -> T:
                try:
                    return get_name(local)  # type: ignore[return-value]
                except AttributeError:
                    raise RuntimeError(unbound_message) from None

        elif isinstance(local, LocalStack):

            def _get_current_object() -> T:
                obj = local.top

                if obj is None:
                    raise RuntimeError(unbound_message)

                return get_name(obj)

        elif isinstance(local, ContextVar):

            def _get_current_object() -> T:
                try:
                    obj = local.get()
                except LookupError:
                    raise RuntimeError(unbound_message) from None

                return get_name(obj)

        elif callable(local):

            def _get_current_object() -> T:
                return get_name(local())

        else:
            raise TypeError(f"Don't know how to proxy '{type(local)}'.")

        object.__setattr__(self, "_LocalProxy__wrapped", local)
        object.__setattr__(self, "_get_current_object", _get_current_object)

    __doc__ = _ProxyLookup(  # type: ignore[assignment]
        class_value=__doc__, fallback=lambda self: type(self).__doc__, is_attr=True
    )
    __wrapped__ = _ProxyLookup(
        fallback=lambda self: self._LocalProxy__wrapped,  # type: ignore[attr-defined]
        is_attr=True,
    )
    # __del__ should only delete the proxy
    __repr__ = _ProxyLookup(  # type: ignore[assignment]
        repr, fallback=lambda self: f"<{type(self).__name__} unbound>"
    )
    __str__ = _ProxyLookup(str)  # type: ignore[assignment]
    __bytes__ = _ProxyLookup(bytes)
    __format__ = _ProxyLookup()  # type: ignore[assignment]
    __lt__ = _ProxyLookup(operator.lt)
    __le__ = _ProxyLookup(operator.le)
    __eq__ = _ProxyLookup(operator.eq)  # type: ignore[assignment]
    __ne__ = _ProxyLookup(operator.ne)  # type: ignore[assignment]
    __gt__ = _ProxyLookup(operator.gt)
    __ge__ = _ProxyLookup(operator.ge)
    __hash__ = _ProxyLookup(hash)  # type: ignore[assignment]
    __bool__ = _ProxyLookup(bool, fallback=lambda self: False)
    __getattr__ = _ProxyLookup(getattr)
    # __getattribute__ triggered through __getattr__
    __setattr__ = _ProxyLookup(setattr)  # type: ignore[assignment]
    __delattr__ = _ProxyLookup(delattr)  # type: ignore[assignment]
    __dir__ = _ProxyLookup(dir, fallback=lambda self: [])  # type: ignore[assignment]
    # __get__ (proxying descriptor not supported)
    # __set__ (descriptor)
    # __delete__ (descriptor)
    # __set_name__ (descriptor)
    # __objclass__ (descriptor)
    # __slots__ used by proxy itself
    # __dict__ (__getattr__)
    # __weakref__ (__getattr__)
    # __init_subclass__ (proxying metaclass not supported)
    # __prepare__ (metaclass)
    __class__ = _ProxyLookup(fallback=lambda self: type(self), is_attr=True)  # type: ignore[assignment]
    __instancecheck__ = _ProxyLookup(lambda self, other: isinstance(other, self))
    __subclasscheck__ = _ProxyLookup(lambda self, other: issubclass(other, self))
    # __class_getitem__ triggered through __getitem__
    __call__ = _ProxyLookup(lambda self, *args, **kwargs: self(*args, **kwargs))
    __len__ = _ProxyLookup(len)
    __length_hint__ = _ProxyLookup(operator.length_hint)
    __getitem__ = _ProxyLookup(operator.getitem)
    __setitem__ = _ProxyLookup(operator.setitem)
    __delitem__ = _ProxyLookup(operator.delitem)
    # __missing__ triggered through __getitem__
    __iter__ = _ProxyLookup(iter)
    __next__ = _ProxyLookup(next)
    __reversed__ = _ProxyLookup(reversed)
    __contains__ = _ProxyLookup(operator.contains)
    __add__ = _ProxyLookup(operator.add)
    __sub__ = _ProxyLookup(operator.sub)
    __mul__ = _ProxyLookup(operator.mul)
    __matmul__ = _ProxyLookup(operator.matmul)
    __truediv__ = _ProxyLookup(operator.truediv)
    __floordiv__ = _ProxyLookup(operator.floordiv)
    __mod__ = _ProxyLookup(operator.mod)
    __divmod__ = _ProxyLookup(divmod)
    __pow__ = _ProxyLookup(pow)
    __lshift__ = _ProxyLookup(operator.lshift)
    __rshift__ = _ProxyLookup(operator.rshift)
    __and__ = _ProxyLookup(operator.and_)
    __xor__ = _ProxyLookup(operator.xor)
    __or__ = _ProxyLookup(operator.or_)
    __radd__ = _ProxyLookup(_l_to_r_op(operator.add))
    __rsub__ = _ProxyLookup(_l_to_r_op(operator.sub))
    __rmul__ = _ProxyLookup(_l_to_r_op(operator.mul))
    __rmatmul__ = _ProxyLookup(_l_to_r_op(operator.matmul))
    __rtruediv__ = _ProxyLookup(_l_to_r_op(operator.truediv))
    __rfloordiv__ = _ProxyLookup(_l_to_r_op(operator.floordiv))
    __rmod__ = _ProxyLookup(_l_to_r_op(operator.mod))
    __rdivmod__ = _ProxyLookup(_l_to_r_op(divmod))
    __rpow__ = _ProxyLookup(_l_to_r_op(pow))
    __rlshift__ = _ProxyLookup(_l_to_r_op(operator.lshift))
    __rrshift__ = _ProxyLookup(_l_to_r_op(operator.rshift))
    __rand__ = _ProxyLookup(_l_to_r_op(operator.and_))
    __rxor__ = _ProxyLookup(_l_to_r_op(operator.xor))
    __ror__ = _ProxyLookup(_l_to_r_op(operator.or_))
    __iadd__ = _ProxyIOp(operator.iadd)
    __isub__ = _ProxyIOp(operator.isub)
    __imul__ = _ProxyIOp(operator.imul)
    __imatmul__ = _ProxyIOp(operator.imatmul)
    __itruediv__ = _ProxyIOp(operator.itruediv)
    __ifloordiv__ = _ProxyIOp(operator.ifloordiv)
    __imod__ = _ProxyIOp(operator.imod)
    __ipow__ = _ProxyIOp(operator.ipow)
    __ilshift__ = _ProxyIOp(operator.ilshift)
    __irshift__ = _ProxyIOp(operator.irshift)
    __iand__ = _ProxyIOp(operator.iand)
    __ixor__ = _ProxyIOp(operator.ixor)
    __ior__ = _ProxyIOp(operator.ior)
    __neg__ = _ProxyLookup(operator.neg)
    __pos__ = _ProxyLookup(operator.pos)
    __abs__ = _ProxyLookup(abs)
    __invert__ = _ProxyLookup(operator.invert)
    __complex__ = _ProxyLookup(complex)
    __int__ = _ProxyLookup(int)
    __float__ = _ProxyLookup(float)
    __index__ = _ProxyLookup(operator.index)
    __round__ = _ProxyLookup(round)
    __trunc__ = _ProxyLookup(math.trunc)
    __floor__ = _ProxyLookup(math.floor)
    __ceil__ = _ProxyLookup(math.ceil)
    __enter__ = _ProxyLookup()
    __exit__ = _ProxyLookup()
    __await__ = _ProxyLookup()
    __aiter__ = _ProxyLookup()
    __anext__ = _ProxyLookup()
    __aenter__ = _ProxyLookup()
    __aexit__ = _ProxyLookup()
    __copy__ = _ProxyLookup(copy.copy)
    __deepcopy__ = _ProxyLookup(copy.deepcopy)
    # __getnewargs_ex__ (pickle through proxy not supported)
    # __getnewargs__ (pickle)
    # __getstate__ (pickle)
    # __setstate__ (pickle)
    # __reduce__ (pickle)
    # __reduce_ex__ (pickle)
'''


import asyncio
import contextvars
import copy
import random
import re
import sys
import threading
import types

import werkzeug.local as NEW


def _load_original():
    mod = types.ModuleType("werkzeug._orig_local")
    mod.__package__ = "werkzeug"
    sys.modules[mod.__name__] = mod
    exec(compile(ORIGINAL_SRC, "<original local.py>", "exec"), mod.__dict__)
    return mod


ORIG = _load_original()


class Obj:
    """Value with attributes and a deterministic repr."""

    def __init__(self, x):
        self.x = x
        self.sub = types.SimpleNamespace(y=x)

    def __repr__(self):
        return f"Obj({self.x!r})"

    def __call__(self, *a, **k):
        return ("called", a, tuple(sorted(k.items())))


class Falsy:
    def __bool__(self):
        return False

    def __repr__(self):
        return "Falsy()"


_PRIMS = (int, float, str, bytes, bool, type(None))


def _scrub(s):
    """Remove memory addresses and the private module name of the pasted copy."""
    return re.sub(r"0x[0-9a-f]+", "0x?", s).replace("werkzeug._orig_local", "werkzeug.local")


def norm(v, depth=0):
    """Turn a result into something comparable across the two modules."""
    if type(v) is str:
        # default object reprs carry a memory address
        return repr(_scrub(v))
    if isinstance(v, _PRIMS) and type(v) in _PRIMS:
        return repr(v)
    if depth < 4:
        if type(v) in (list, tuple):
            return (type(v).__name__, tuple(norm(i, depth + 1) for i in v))
        if type(v) is dict:
            return ("dict", tuple((norm(k, depth + 1), norm(i, depth + 1)) for k, i in v.items()))
    if type(v) in (Obj, Falsy):
        return repr(v)
    tname = type(v).__name__
    if tname in ("_ProxyLookup", "_ProxyIOp"):
        return (tname, repr(v))
    if isinstance(v, type):
        return ("class", v.__name__)
    return ("object", tname)


def cap(fn):
    try:
        return ("ok", norm(fn()))
    except BaseException as e:  # noqa: B036
        return (
            "exc",
            type(e).__name__,
            _scrub(str(e)),
            type(e.__cause__).__name__,
            e.__suppress_context__,
            type(e.__context__).__name__,
        )


NAMES = ["a", "b", "x", "sub", "_Local__storage", "__storage", "top"]


def rand_value(rng):
    k = rng.randrange(9)
    if k == 0:
        return None
    if k == 1:
        return rng.randrange(-3, 50)
    if k == 2:
        return rng.choice(["", "s", "text"])
    if k == 3:
        return [rng.randrange(5) for _ in range(rng.randrange(3))]
    if k == 4:
        return Falsy()
    if k == 5:
        return 0
    return Obj(rng.randrange(100))


# ---------------------------------------------------------------------------
# Part 1: random programs over a tree of copied contexts, deterministic
# interleaving, full cross-context snapshot after every step.
# ---------------------------------------------------------------------------


def gen_program(rng, n_ops):
    prog = []
    n_ctx = 1
    for _ in range(n_ops):
        ctx = rng.randrange(n_ctx)
        op = rng.choice(
            [
                "set", "set", "set", "get", "get", "del", "del", "iter",
                "rel_local", "push", "push", "push", "pop", "pop", "top",
                "rel_stack", "cleanup", "fork", "fork", "proxy", "proxy",
                "proxy", "release_fn", "set_other", "push_other",
            ]
        )
        if op == "fork":
            if n_ctx >= 7:
                continue
            n_ctx += 1
        prog.append(
            (
                ctx,
                op,
                rng.choice(NAMES),
                rand_value(rng),
                rng.randrange(10**6),
            )
        )
    return prog


def proxy_ops(p, local_obj, sel):
    """A deterministic selection of operations on a proxy."""
    rng = random.Random(sel)
    out = []
    choices = [
        lambda: repr(p),
        lambda: bool(p),
        lambda: p._get_current_object(),
        lambda: p.x,
        lambda: p + 1,
        lambda: 1 + p,
        lambda: len(p),
        lambda: sorted(dir(p))[:3],
        lambda: p.__class__,
        lambda: p.__wrapped__ is local_obj,
        lambda: str(p),
        lambda: p == p._get_current_object(),
        lambda: p(1, k=2),
        lambda: copy.copy(p),
        lambda: p.__doc__ is type(p).__doc__,
        lambda: isinstance(p, Obj),
        lambda: list(iter(p)),
        lambda: setattr(p, "x", 5),
        lambda: type(p).__repr__(p),
        lambda: type(p).__bool__(p),
    ]
    for _ in range(4):
        out.append(cap(rng.choice(choices)))
    # augmented assignment returns the proxy itself
    def iadd():
        q = p
        q += [9]
        return (q is p, p._get_current_object())

    if rng.randrange(3) == 0:
        out.append(cap(iadd))
    return tuple(out)


def run_program(M, prog):
    cv_d = contextvars.ContextVar("d")
    cv_s = contextvars.ContextVar("s")
    loc = M.Local(cv_d)
    stk = M.LocalStack(cv_s)
    loc2 = M.Local()
    stk2 = M.LocalStack()
    mgr = M.LocalManager([loc, stk, loc2])
    proxies = [
        (loc("a"), loc),
        (loc("x", unbound_message="nope"), loc),
        (loc("sub.y"), loc),
        (stk(), stk),
        (stk("x"), stk),
        (stk("sub.y", unbound_message="empty stack"), stk),
        (M.LocalProxy(cv_d, unbound_message="no dict"), cv_d),
        (M.LocalProxy(cv_s), cv_s),
        (M.LocalProxy(lambda: stk.top), None),
        (M.LocalProxy(lambda: loc.a, "x"), None),
        (loc2("a"), loc2),
        (stk2(), stk2),
    ]
    ctxs = [contextvars.copy_context()]
    seen = []  # (container, snapshot repr at first sight)
    trace = []

    def remember(c):
        if c is None:
            return
        for o, _ in seen:
            if o is c:
                return
        seen.append((c, repr(c)))

    def snapshot():
        snap = []
        ident_d = []
        ident_s = []
        for c in ctxs:
            d = c.get(cv_d, None)
            s = c.get(cv_s, None)
            remember(d)
            remember(s)
            ident_d.append(next((i for i, o in enumerate(ident_d_objs) if o is d), None))
            if ident_d[-1] is None and d is not None:
                ident_d_objs.append(d)
                ident_d[-1] = len(ident_d_objs) - 1
            ident_s.append(next((i for i, o in enumerate(ident_s_objs) if o is s), None))
            if ident_s[-1] is None and s is not None:
                ident_s_objs.append(s)
                ident_s[-1] = len(ident_s_objs) - 1
            snap.append(
                (
                    norm(d),
                    norm(s),
                    type(d).__name__,
                    type(s).__name__,
                    c.run(lambda: norm(sorted(dict(loc2).items(), key=repr))),
                    c.run(lambda: norm(stk2.top)),
                )
            )
        return (tuple(snap), tuple(ident_d), tuple(ident_s))

    ident_d_objs = []
    ident_s_objs = []

    for ctx_i, op, name, value, sel in prog:
        ctx = ctxs[ctx_i]
        if op == "fork":
            ctxs.append(ctx.run(contextvars.copy_context))
            res = ("fork",)
        elif op == "set":
            res = ctx.run(cap, lambda: setattr(loc, name, value))
        elif op == "set_other":
            res = ctx.run(cap, lambda: setattr(loc2, name, value))
        elif op == "get":
            res = ctx.run(cap, lambda: getattr(loc, name))
        elif op == "del":
            res = ctx.run(cap, lambda: delattr(loc, name))
        elif op == "iter":
            res = ctx.run(cap, lambda: list(loc))
        elif op == "rel_local":
            res = ctx.run(cap, loc.__release_local__)
        elif op == "rel_stack":
            res = ctx.run(cap, stk.__release_local__)
        elif op == "release_fn":
            res = ctx.run(cap, lambda: M.release_local(rng_pick(sel, [loc, stk, loc2, stk2])))
        elif op == "cleanup":
            res = ctx.run(cap, mgr.cleanup)
        elif op == "push":

            def do_push():
                rv = stk.push(value)
                return (rv, rv is cv_s.get(), type(rv).__name__)

            res = ctx.run(cap, do_push)
        elif op == "push_other":
            res = ctx.run(cap, lambda: stk2.push(value))
        elif op == "pop":

            def do_pop():
                before = cv_s.get(None)
                rv = stk.pop()
                after = cv_s.get(None)
                return (rv, before is after, norm(before))

            res = ctx.run(cap, do_pop)
        elif op == "top":
            res = ctx.run(cap, lambda: stk.top)
        elif op == "proxy":
            p, lo = proxies[sel % len(proxies)]
            res = ctx.run(proxy_ops, p, lo, sel)
        else:
            raise AssertionError(op)
        trace.append((op, res, snapshot()))

    # every container ever stored must still look as it did when first seen,
    # except where a proxy operation mutated the bound object on purpose; the
    # record is compared between the two implementations either way.
    trace.append(tuple((first, repr(o)) for o, first in seen))
    return trace


def rng_pick(sel, items):
    return items[sel % len(items)]


# ---------------------------------------------------------------------------
# Part 2: LocalProxy construction matrix and descriptor access.
# ---------------------------------------------------------------------------


def proxy_matrix(M):
    out = []
    cv = contextvars.ContextVar("pm")
    loc = M.Local()
    stk = M.LocalStack()
    locals_ = {
        "Local": loc,
        "LocalStack": stk,
        "ContextVar": cv,
        "callable": lambda: Obj(3),
        "callable_raises": lambda: (_ for _ in ()).throw(RuntimeError("boom")),
        "callable_lookup": lambda: (_ for _ in ()).throw(LookupError("lk")),
        "int": 5,
        "none": None,
        "str": "abc",
        "class": Obj,
        "proxyclass": M.LocalProxy,
        "manager": M.LocalManager(),
    }
    names = [None, "x", "sub.y", "missing", "", 5, b"x", "x.", ".x"]
    msgs = [None, "custom unbound", "", 0]

    def bind(state):
        loc.__release_local__()
        stk.__release_local__()
        if state == "unbound":
            return None
        v = {"obj": Obj(7), "none": None, "falsy": Falsy(), "list": [1, 2]}[state]
        loc.x = v
        loc.sub = types.SimpleNamespace(y=v)
        stk.push(v)
        return cv.set(v)

    for lname, lo in locals_.items():
        for name in names:
            for msg in msgs:
                for state in ("unbound", "obj", "none", "falsy", "list"):

                    def build():
                        if msg == 0:
                            return M.LocalProxy(lo, name)
                        return M.LocalProxy(lo, name, unbound_message=msg)

                    ctx = contextvars.copy_context()

                    def scenario():
                        bind(state)
                        res = [cap(build)]
                        try:
                            p = build()
                        except BaseException:  # noqa: B036
                            return res
                        for i in range(3):
                            res.append(proxy_ops(p, lo, hash((lname, str(name), str(msg), state, i)) & 0xFFFF))
                        res.append(cap(lambda: object.__getattribute__(p, "_LocalProxy__wrapped") is lo))
                        res.append(cap(lambda: p._get_current_object()))
                        res.append(cap(lambda: repr(p)))
                        res.append(cap(lambda: bool(p)))
                        res.append(cap(lambda: p.__wrapped__ is lo))
                        res.append(cap(lambda: p.__class__))
                        res.append(cap(lambda: dir(p) == dir(p._get_current_object())))
                        return res

                    out.append((lname, repr(name), msg, state, tuple(ctx.run(scenario))))

    # hash() is salted for str; recompute selection deterministically instead
    # (the two modules are run in the same process so the salt is shared).

    # descriptor access on the class, and calling through the class
    P = M.LocalProxy
    for attr in sorted(vars(P)):
        d = vars(P)[attr]
        if type(d).__name__ not in ("_ProxyLookup", "_ProxyIOp"):
            continue
        out.append((attr, cap(lambda: getattr(P, attr)), cap(lambda: d.__get__(None, P)), cap(lambda: d.__get__(None))))
        out.append((attr, norm(d.class_value is None), d.is_attr, d.fallback is None, d.bind_f is None))
        bound = P(lambda: Obj(1))
        unbound = P(contextvars.ContextVar("never"))
        for inst in (bound, unbound):
            out.append((attr, cap(lambda: d.__get__(inst, P)), cap(lambda: d.__get__(inst))))
    out.append(cap(lambda: P.__doc__ == ORIG.LocalProxy.__doc__))
    return out


# ---------------------------------------------------------------------------
# Part 3: real threads and asyncio tasks hammering one shared Local/LocalStack.
# Contexts are isolated, so every worker's own trace is deterministic.
# ---------------------------------------------------------------------------


def worker_program(seed, n):
    rng = random.Random(seed)
    return [
        (rng.choice(["set", "get", "del", "push", "pop", "top", "rel", "cleanup", "proxy", "iter"]),
         rng.choice(["a", "b", "x"]), rng.randrange(1000))
        for _ in range(n)
    ]


def worker_step(M, loc, stk, mgr, prox, step):
    op, name, v = step
    if op == "set":
        return cap(lambda: setattr(loc, name, Obj(v)))
    if op == "get":
        return cap(lambda: getattr(loc, name))
    if op == "del":
        return cap(lambda: delattr(loc, name))
    if op == "push":
        return cap(lambda: stk.push(Obj(v)))
    if op == "pop":
        return cap(stk.pop)
    if op == "top":
        return cap(lambda: stk.top)
    if op == "rel":
        return cap(lambda: M.release_local(loc if v % 2 else stk))
    if op == "cleanup":
        return cap(mgr.cleanup)
    if op == "iter":
        return cap(lambda: sorted(loc))
    p = prox[v % len(prox)]
    return (cap(lambda: repr(p)), cap(lambda: bool(p)), cap(lambda: p.x), cap(lambda: p._get_current_object()))


def run_threads(M, seed, n_workers=6, n_ops=60):
    loc, stk = M.Local(), M.LocalStack()
    mgr = M.LocalManager([loc, stk])
    prox = [loc("a"), loc("x"), stk(), stk("x")]
    loc.a = "main"
    stk.push("main")
    results = [None] * n_workers
    barrier = threading.Barrier(n_workers)

    def work(i):
        out = []
        barrier.wait()
        for step in worker_program(seed * 100 + i, n_ops):
            out.append(worker_step(M, loc, stk, mgr, prox, step))
        results[i] = out

    ts = [threading.Thread(target=work, args=(i,)) for i in range(n_workers)]
    for th in ts:
        th.start()
    for th in ts:
        th.join()
    return (results, cap(lambda: loc.a), cap(lambda: stk.top), cap(lambda: sorted(loc)))


def run_async(M, seed, n_workers=6, n_ops=60):
    loc, stk = M.Local(), M.LocalStack()
    mgr = M.LocalManager([loc, stk])
    prox = [loc("a"), loc("x"), stk(), stk("x")]

    async def work(i):
        out = []
        for step in worker_program(seed * 100 + i, n_ops):
            out.append(worker_step(M, loc, stk, mgr, prox, step))
            await asyncio.sleep(0)
        return out

    async def main():
        loc.a = "parent"
        stk.push("parent")
        res = await asyncio.gather(*(work(i) for i in range(n_workers)))
        return (res, cap(lambda: loc.a), cap(lambda: stk.top), cap(lambda: sorted(loc)))

    return asyncio.run(main())


# ---------------------------------------------------------------------------
# Part 4: direct calls with odd arguments.
# ---------------------------------------------------------------------------


def edge_cases(M):
    out = []
    for bad in ([], {}, None, 5, ("t",), b"a"):
        loc = M.Local()
        loc.a = 1
        out.append(cap(lambda: M.Local.__delattr__(loc, bad)))
        out.append(cap(lambda: M.Local.__setattr__(loc, bad, 1)))
        out.append(cap(lambda: M.Local.__getattr__(loc, bad)))
        out.append(cap(lambda: sorted(dict(loc).items(), key=repr)))
    # user supplied context var already holding data
    cv = contextvars.ContextVar("pre")
    base = {"k": 1}
    cv.set(base)
    loc = M.Local(cv)
    out.append(cap(lambda: loc.k))
    loc.j = 2
    out.append((norm(base), norm(cv.get()), cv.get() is base))
    del loc.k
    out.append((norm(base), norm(cv.get()), cv.get() is base))
    out.append(cap(lambda: delattr(loc, "k")))
    cvs = contextvars.ContextVar("pres")
    bases = [1, 2]
    cvs.set(bases)
    stk = M.LocalStack(cvs)
    out.append(cap(lambda: stk.top))
    out.append(cap(stk.pop))
    out.append((norm(bases), norm(cvs.get()), cvs.get() is bases))
    rv = stk.push(3)
    out.append((norm(bases), norm(cvs.get()), rv is cvs.get(), rv is bases))
    out.append([cap(stk.pop) for _ in range(4)])
    out.append((norm(bases), norm(cvs.get())))
    # manager shapes
    for arg in (None, M.Local(), M.LocalStack(), [M.Local(), M.LocalStack()], (), iter([M.Local()]), 5, [5]):
        out.append(cap(lambda: repr(M.LocalManager(arg))))
        out.append(cap(lambda: M.LocalManager(arg).cleanup()))
    class Rec:
        def __init__(self):
            self.calls = 0

        def __release_local__(self):
            self.calls += 1
            if self.calls == 2:
                raise ValueError("second")

    r = Rec()
    m = M.LocalManager([r, r, r])
    out.append(cap(m.cleanup))
    out.append(r.calls)
    # middleware releases only after the response is closed
    loc, stk = M.Local(), M.LocalStack()
    m = M.LocalManager([loc, stk])

    def app(environ, start_response):
        loc.a = 1
        stk.push(2)
        return [b"x"]

    it = m.make_middleware(app)({}, None)
    out.append((cap(lambda: loc.a), cap(lambda: stk.top)))
    out.append(norm(list(it)))
    it.close()
    out.append((cap(lambda: loc.a), cap(lambda: stk.top)))
    return out


def main():
    n_programs = 4000
    total_steps = 0
    for seed in range(n_programs):
        prog = gen_program(random.Random(seed), 35)
        total_steps += len(prog)
        a = run_program(ORIG, prog)
        # values may be mutated through a proxy: regenerate fresh ones
        b = run_program(NEW, gen_program(random.Random(seed), 35))
        if a != b:
            for i, (x, y) in enumerate(zip(a, b)):
                if x != y:
                    print("FAIL program", seed, "step", i, prog[i] if i < len(prog) else "final")
                    print(" orig:", x)
                    print(" new :", y)
                    break
            return 1
    a = proxy_matrix(ORIG)
    b = proxy_matrix(NEW)
    if a != b:
        for x, y in zip(a, b):
            if x != y:
                print("FAIL proxy matrix")
                print(" orig:", x)
                print(" new :", y)
                break
        return 1
    n_matrix = len(a)
    for seed in range(40):
        if run_threads(ORIG, seed) != run_threads(NEW, seed):
            print("FAIL threads", seed)
            return 1
        if run_async(ORIG, seed) != run_async(NEW, seed):
            print("FAIL asyncio", seed)
            return 1
    if edge_cases(ORIG) != edge_cases(NEW):
        for x, y in zip(edge_cases(ORIG), edge_cases(NEW)):
            if x != y:
                print("FAIL edge case")
                print(" orig:", x)
                print(" new :", y)
                break
        return 1
    print(
        f"PASS ({n_programs} random context programs / {total_steps} steps, "
        f"{n_matrix} proxy-matrix cases, 80 thread/asyncio runs, edge cases)"
    )
    return 0


if __name__ == "__main__":
    sys.exit(main())
