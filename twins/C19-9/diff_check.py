"""Differential check for refactoring 3 (WSGIRequestHandler.run_wsgi and its
nested write / execute functions).

The ORIGINAL run_wsgi is pasted below and compiled inside a copy of the
werkzeug.serving namespace. Both versions are driven with a socket-less fake
handler over generated applications (status lines, header sets, body chunk
patterns, write() callable use, exceptions at every stage, client disconnects,
drain-loop scripts) and every observable effect is compared: exact sequence of
wfile writes/flushes, raised exception, close_connection, log records,
connection_dropped calls, iterator close calls, rfile reads.
"""

from __future__ import annotations

import http.client
import io
import random
import socket
import ssl
import textwrap
import types

from werkzeug import serving

ORIG_SRC = textwrap.dedent(
    '''
    def orig_run_wsgi(self) -> None:
        if self.headers.get("Expect", "").lower().strip() == "100-continue":
            self.wfile.write(b"HTTP/1.1 100 Continue\\r\\n\\r\\n")

        self.environ = environ = self.make_environ()
        status_set: str | None = None
        headers_set: list[tuple[str, str]] | None = None
        status_sent: str | None = None
        headers_sent: list[tuple[str, str]] | None = None
        chunk_response: bool = False

        def write(data: bytes) -> None:
            nonlocal status_sent, headers_sent, chunk_response
            assert status_set is not None, "write() before start_response"
            assert headers_set is not None, "write() before start_response"
            if status_sent is None:
                status_sent = status_set
                headers_sent = headers_set
                try:
                    code_str, msg = status_sent.split(None, 1)
                except ValueError:
                    code_str, msg = status_sent, ""
                code = int(code_str)
                self.send_response(code, msg)
                header_keys = set()
                for key, value in headers_sent:
                    self.send_header(key, value)
                    header_keys.add(key.lower())

                # Use chunked transfer encoding if there is no content
                # length. Do not use for 1xx and 204 responses. 304
                # responses and HEAD requests are also excluded, which
                # is the more conservative behavior and matches other
                # parts of the code.
                # https://httpwg.org/specs/rfc7230.html#rfc.section.3.3.1
                if (
                    not (
                        "content-length" in header_keys
                        or environ["REQUEST_METHOD"] == "HEAD"
                        or (100 <= code < 200)
                        or code in {204, 304}
                    )
                    and self.protocol_version >= "HTTP/1.1"
                ):
                    chunk_response = True
                    self.send_header("Transfer-Encoding", "chunked")

                # Always close the connection. This disables HTTP/1.1
                # keep-alive connections. They aren't handled well by
                # Python's http.server because it doesn't know how to
                # drain the stream before the next request line.
                self.send_header("Connection", "close")
                self.end_headers()

            assert isinstance(data, bytes), "applications must write bytes"

            if data:
                if chunk_response:
                    self.wfile.write(hex(len(data))[2:].encode())
                    self.wfile.write(b"\\r\\n")

                self.wfile.write(data)

                if chunk_response:
                    self.wfile.write(b"\\r\\n")

            self.wfile.flush()

        def start_response(status, headers, exc_info=None):  # type: ignore
            nonlocal status_set, headers_set
            if exc_info:
                try:
                    if headers_sent:
                        raise exc_info[1].with_traceback(exc_info[2])
                finally:
                    exc_info = None
            elif headers_set:
                raise AssertionError("Headers already set")
            status_set = status
            headers_set = headers
            return write

        def execute(app: WSGIApplication) -> None:
            application_iter = app(environ, start_response)
            try:
                for data in application_iter:
                    write(data)
                if not headers_sent:
                    write(b"")
                if chunk_response:
                    self.wfile.write(b"0\\r\\n\\r\\n")
            finally:
                # Check for any remaining data in the read socket, and discard it. This
                # will read past request.max_content_length, but lets the client see a
                # 413 response instead of a connection reset failure. If we supported
                # keep-alive connections, this naive approach would break by reading the
                # next request line. Since we know that write (above) closes every
                # connection we can read everything.
                selector = selectors.DefaultSelector()
                selector.register(self.connection, selectors.EVENT_READ)
                total_size = 0
                total_reads = 0

                # A timeout of 0 tends to fail because a client needs a small amount of
                # time to continue sending its data.
                while selector.select(timeout=0.01):
                    # Only read 10MB into memory at a time.
                    data = self.rfile.read(10_000_000)
                    total_size += len(data)
                    total_reads += 1

                    # Stop reading on no data, >=10GB, or 1000 reads. If a client sends
                    # more than that, they'll get a connection reset failure.
                    if not data or total_size >= 10_000_000_000 or total_reads > 1000:
                        break

                selector.close()

                if hasattr(application_iter, "close"):
                    application_iter.close()

        try:
            execute(self.server.app)
        except connection_dropped_errors as e:
            self.connection_dropped(e, environ)
        except Exception as e:
            if self.server.passthrough_errors:
                raise

            if status_sent is not None and chunk_response:
                self.close_connection = True

            try:
                # if we haven't yet sent the headers but they are set
                # we roll back to be able to set them again.
                if status_sent is None:
                    status_set = None
                    headers_set = None
                execute(InternalServerError())
            except Exception:
                pass

            from .debug.tbtools import DebugTraceback

            msg = DebugTraceback(e).render_traceback_text()
            self.server.log("error", f"Error on request:\\n{msg}")
    '''
)


# ---------------------------------------------------------------- fakes


class FakeSelector:
    """Scripted replacement for selectors.DefaultSelector (no real fd needed)."""

    current: dict = {}

    def __init__(self) -> None:
        self.events = FakeSelector.current["events"]
        self.events.append("sel.new")

    def register(self, fileobj, mask):
        self.events.append(("sel.register", fileobj is FakeSelector.current["conn"], mask))

    def select(self, timeout=None):
        self.events.append(("sel.select", timeout))
        ready = FakeSelector.current["ready"]
        if ready and ready.pop(0):
            return [("key", 1)]
        return []

    def close(self):
        self.events.append("sel.close")


fake_selectors = types.SimpleNamespace(DefaultSelector=FakeSelector, EVENT_READ=1)

# The new code looks `selectors` up in the real module namespace, the pasted
# original in a copy of it; both see the same fake.
serving.selectors = fake_selectors  # type: ignore[attr-defined]
_g = dict(vars(serving))
_g["__name__"] = "werkzeug.serving"
_g["__package__"] = "werkzeug"
exec(compile(ORIG_SRC, "<orig_run_wsgi>", "exec"), _g)
orig_run_wsgi = _g["orig_run_wsgi"]
new_run_wsgi = serving.WSGIRequestHandler.run_wsgi


class BigData:
    """Pretends to be a huge read result (for the >=10GB drain stop)."""

    def __init__(self, n: int) -> None:
        self.n = n

    def __len__(self) -> int:
        return self.n

    def __bool__(self) -> bool:
        return True


class ScriptedRfile:
    def __init__(self, script: list, events: list) -> None:
        self.script = list(script)
        self.events = events

    def read(self, n=-1):
        item = self.script.pop(0) if self.script else b""
        if isinstance(item, Exception):
            self.events.append(("rfile.read", n, "raise"))
            raise item
        self.events.append(("rfile.read", n, len(item)))
        return item

    def readline(self, n=-1):
        return b""


class RecordingWfile:
    def __init__(self, events: list, fail_at: int | None, fail_exc) -> None:
        self.events = events
        self.fail_at = fail_at
        self.fail_exc = fail_exc
        self.count = 0

    def write(self, data):
        self.count += 1
        if self.fail_at is not None and self.count >= self.fail_at:
            self.events.append(("wfile.fail", bytes(data)))
            raise self.fail_exc("scripted")
        self.events.append(("wfile.write", bytes(data)))
        return len(data)

    def flush(self):
        self.events.append("wfile.flush")


class Conn:
    pass


class Handler(serving.WSGIRequestHandler):
    def __init__(self) -> None:
        pass

    def date_time_string(self, timestamp=None):
        return "Thu, 01 Jan 1970 00:00:00 GMT"

    def log(self, type, message, *args):
        self.events.append(("log", type, message % args if args else message))

    def connection_dropped(self, error, environ=None):
        self.events.append(
            ("dropped", type(error).__name__, str(error), environ is self.environ)
        )
        if self.dropped_raises:
            raise RuntimeError("hook failed")


EXC_TYPES = {
    "ValueError": ValueError,
    "KeyError": KeyError,
    "AssertionError": AssertionError,
    "OSError": OSError,
    "ConnectionError": ConnectionError,
    "BrokenPipeError": BrokenPipeError,
    "ConnectionResetError": ConnectionResetError,
    "ConnectionAbortedError": ConnectionAbortedError,
    "timeout": socket.timeout,
    "TimeoutError": TimeoutError,
    "SSLEOFError": ssl.SSLEOFError,
    "SSLError": ssl.SSLError,
    "KeyboardInterrupt": KeyboardInterrupt,
    "SystemExit": SystemExit,
    "StopIteration": StopIteration,
    "GeneratorExit": GeneratorExit,
}
EXC_NAMES = list(EXC_TYPES)

STATUSES = [
    "200 OK", "200 OK", "200 OK", "200", "201 Created", "204 No Content", "204", "304 Not Modified",
    "304", "100 Continue", "101 Switching Protocols", "199 Whatever", "99 Low", "200  Two  Spaces",
    " 200 OK", "200\tOK", "404 NOT FOUND", "500 INTERNAL SERVER ERROR", "302 Found", "205 Reset",
    "abc", "", "   ", "20x OK", "200OK", "1e2 OK", "+204 x", "0204 Padded", "299 \xe9",
]
HEADER_SETS = [
    [],
    [("Content-Type", "text/plain")],
    [("Content-Length", "5")],
    [("content-length", "0")],
    [("CONTENT-LENGTH", "11"), ("Content-Type", "text/html")],
    [("Content-Type", "text/plain"), ("X-A", "1"), ("X-A", "2")],
    [("Content-Lengthy", "5")],
    [("X-Content-Length", "5"), ("Set-Cookie", "a=b")],
    [("Transfer-Encoding", "chunked")],
    [("Connection", "keep-alive"), ("Content-Length", "3")],
    [("Content-Length", 5)],
    [(5, "x")],
]
CHUNKS = [b"", b"a", b"hello", b"hello world", b"x" * 15, b"y" * 16, b"z" * 255, b"w" * 256,
          b"\r\n", b"0\r\n\r\n", b"\x00\xff" * 40, b"q" * 4097]


def rexc(rnd: random.Random, p: float):
    return rnd.choice(EXC_NAMES) if rnd.random() < p else None


def gen_case(rnd: random.Random) -> dict:
    nchunks = rnd.choice([0, 0, 1, 1, 2, 3, 5])
    chunks: list = [rnd.choice(CHUNKS) for _ in range(nchunks)]
    if chunks and rnd.random() < 0.05:
        chunks[rnd.randrange(len(chunks))] = "not bytes"
    ready: list = []
    rscript: list = []
    r = rnd.random()
    if r < 0.5:
        pass
    elif r < 0.8:
        k = rnd.randint(1, 4)
        ready = [True] * k + ([False] if rnd.random() < 0.5 else [])
        rscript = [rnd.choice([b"junk", b"x" * 100, b""]) for _ in range(k)]
    elif r < 0.9:
        ready = [True] * 1100
        rscript = [b"d"] * 1100
    elif r < 0.97:
        ready = [True] * 6
        rscript = [b"d", ("big", rnd.choice([9_999_999_998, 9_999_999_999, 10_000_000_000])), b"e", b"", b"f"]
    else:
        ready = [True] * 3
        rscript = [b"d", ("exc", rnd.choice(["OSError", "ConnectionResetError", "ValueError"]))]
    return {
        "method": rnd.choice(["GET", "GET", "POST", "HEAD", "head", "OPTIONS"]),
        "protocol_version": rnd.choice(["HTTP/1.1", "HTTP/1.1", "HTTP/1.0", "HTTP/0.9", "HTTP/2"]),
        "request_version": rnd.choice(["HTTP/1.1", "HTTP/1.0"]),
        "expect": rnd.choice([None, None, None, "100-continue", " 100-Continue ", "100-continues"]),
        "status": rnd.choice(STATUSES),
        "headers": rnd.choice(HEADER_SETS) if rnd.random() < 0.9 else rnd.choice(HEADER_SETS[:10]),
        "chunks": chunks,
        "use_write": rnd.choice([0, 0, 0, 1, 2]),
        "generator": rnd.random() < 0.5,
        "has_close": rnd.random() < 0.5,
        "close_exc": rexc(rnd, 0.08),
        "pre_exc": rexc(rnd, 0.08),
        "skip_start_response": rnd.random() < 0.04,
        "post_start_exc": rexc(rnd, 0.08),
        "iter_exc": (rnd.randint(0, max(nchunks, 1)), rexc(rnd, 0.25)),
        "second_start": rnd.choice([None, None, None, None, "plain", "exc_info", "exc_info_late"]),
        "wfile_fail": (rnd.randint(1, 8), rnd.choice(["BrokenPipeError", "ConnectionResetError", "OSError", "timeout", "SSLEOFError", "ValueError"]))
        if rnd.random() < 0.2
        else None,
        "passthrough": rnd.random() < 0.25,
        "dropped_raises": rnd.random() < 0.2,
        "ready": ready,
        "rscript": rscript,
    }


def make_app(case: dict, events: list):
    def raise_named(name):
        raise EXC_TYPES[name]("app " + name)

    class Body:
        def __init__(self, it):
            self.it = it

        def __iter__(self):
            return self

        def __next__(self):
            return next(self.it)

    class ClosableBody(Body):
        def close(self):
            events.append("iter.close")
            if case["close_exc"]:
                raise_named(case["close_exc"])

    def app(environ, start_response):
        events.append(("app.call", environ["REQUEST_METHOD"]))
        if case["pre_exc"]:
            raise_named(case["pre_exc"])
        write = None
        if not case["skip_start_response"]:
            write = start_response(case["status"], list(case["headers"]))
        if case["post_start_exc"]:
            raise_named(case["post_start_exc"])
        if case["second_start"] == "plain":
            start_response("202 Accepted", [("X-Second", "1")])
        elif case["second_start"] == "exc_info":
            try:
                raise LookupError("early")
            except LookupError:
                import sys

                write = start_response("500 Oops", [("X-Err", "1")], sys.exc_info())
        chunks = list(case["chunks"])
        nwrite = min(case["use_write"], len(chunks))
        if write is not None:
            for c in chunks[:nwrite]:
                write(c)
            chunks = chunks[nwrite:]

        def gen():
            at, name = case["iter_exc"]
            for i, c in enumerate(chunks):
                if name and i == at:
                    raise_named(name)
                if case["second_start"] == "exc_info_late" and i == 1:
                    try:
                        raise LookupError("late")
                    except LookupError:
                        import sys

                        start_response("500 Late", [("X-Late", "1")], sys.exc_info())
                yield c
            if name and at >= len(chunks):
                raise_named(name)

        it = gen() if case["generator"] else Body(gen())
        if case["has_close"]:
            it = ClosableBody(iter(it))
        return it

    return app


def run(func, case: dict):
    events: list = []
    h = Handler()
    h.events = events
    h.dropped_raises = case["dropped_raises"]
    h.server = types.SimpleNamespace(
        ssl_context=None,
        multithread=False,
        multiprocess=False,
        server_address=("127.0.0.1", 5000),
        _server_version="Werkzeug/test",
        passthrough_errors=case["passthrough"],
        app=make_app(case, events),
        log=lambda type, msg: events.append(
            ("server.log", type, msg.splitlines()[0], msg.rstrip().splitlines()[-1])
        ),
    )
    h.path = "/p?q=1"
    h.command = case["method"]
    h.request_version = case["request_version"]
    h.requestline = f"{case['method']} /p?q=1 {case['request_version']}"
    h.protocol_version = case["protocol_version"]
    hdr = b"Host: x\r\n"
    if case["expect"] is not None:
        hdr += b"Expect: " + case["expect"].encode() + b"\r\n"
    h.headers = http.client.parse_headers(io.BytesIO(hdr + b"\r\n"))
    h.client_address = ("127.0.0.1", 4000)
    h.connection = Conn()
    rscript = []
    for item in case["rscript"]:
        if isinstance(item, tuple) and item[0] == "big":
            item = BigData(item[1])
        elif isinstance(item, tuple) and item[0] == "exc":
            item = EXC_TYPES[item[1]]("drain")
        rscript.append(item)
    h.rfile = ScriptedRfile(rscript, events)
    wf = case["wfile_fail"]
    h.wfile = RecordingWfile(events, wf[0] if wf else None, EXC_TYPES[wf[1]] if wf else None)
    FakeSelector.current = {"events": events, "ready": list(case["ready"]), "conn": h.connection}
    try:
        ret = func(h)
        outcome = ("ok", ret)
    except BaseException as e:  # noqa: BLE001
        ctx = type(e.__context__).__name__ if e.__context__ is not None else None
        outcome = ("exc", type(e).__name__, str(e), ctx)
    return (
        outcome,
        events,
        vars(h).get("close_connection", "unset"),
        vars(h).get("_headers_buffer", "unset"),
        len(FakeSelector.current["ready"]),
    )


def main() -> None:
    rnd = random.Random(31919)
    n = mism = 0
    stats = {"exc_out": 0, "dropped": 0, "err500": 0, "chunked": 0, "plain": 0, "close_conn": 0, "drain": 0}
    for _ in range(10000):
        case = gen_case(rnd)
        a = run(orig_run_wsgi, case)
        b = run(new_run_wsgi, case)
        n += 1
        ev = a[1]
        stats["exc_out"] += a[0][0] == "exc"
        stats["dropped"] += any(isinstance(e, tuple) and e[0] == "dropped" for e in ev)
        stats["err500"] += any(isinstance(e, tuple) and e[0] == "server.log" for e in ev)
        wire = b"".join(e[1] for e in ev if isinstance(e, tuple) and e[0] == "wfile.write")
        if b"Transfer-Encoding: chunked" in wire and wire.endswith(b"0\r\n\r\n"):
            stats["chunked"] += 1
        elif wire:
            stats["plain"] += 1
        stats["close_conn"] += a[2] is True
        stats["drain"] += any(isinstance(e, tuple) and e[0] == "rfile.read" for e in ev)
        if a != b:
            mism += 1
            if mism <= 5:
                print("MISMATCH", case)
                print("  orig:", a)
                print("  new: ", b)
    print(f"cases={n} mismatches={mism} stats={stats}")
    ok = mism == 0 and all(v > 100 for v in stats.values())
    print("PASS" if ok else "FAIL")


if __name__ == "__main__":
    main()
