"""Differential check for twin4-C16/2 (UpdateDictMixin / _always_update refactoring).

A pasted copy of the ORIGINAL ``_always_update`` + ``UpdateDictMixin`` (and the
unchanged CallbackDict built on top of it) is compared with the refactored code
in the worktree:
  * standalone: random mutation sequences on CallbackDict with recording /
    raising callbacks, comparing return values, exception types, dict state and
    the callback log after every step;
  * integrated: Response.cache_control / content_security_policy /
    mimetype_params / www_authenticate live views, once with the worktree
    classes and once with the same (unchanged) class sources rebuilt on top of
    the original mixin.
"""
from __future__ import annotations

import collections.abc as cabc
import contextlib
import inspect
import random
import typing as t
from functools import update_wrapper

import werkzeug.datastructures as ds
import werkzeug.datastructures.auth as auth_mod
import werkzeug.datastructures.cache_control as cc_mod
import werkzeug.datastructures.csp as csp_mod
import werkzeug.datastructures.mixins as mixins
import werkzeug.sansio.response as resp_mod
from werkzeug._internal import _missing
from werkzeug.sansio.response import Response

ORIG_MIXIN_SRC = r'''def _always_update(f: F) -> F:
    def wrapper(
        self: UpdateDictMixin[t.Any, t.Any], /, *args: t.Any, **kwargs: t.Any
    ) -> t.Any:
        rv = f(self, *args, **kwargs)

        if self.on_update is not None:
            self.on_update(self)

        return rv

    return update_wrapper(wrapper, f)  # type: ignore[return-value]


class UpdateDictMixin(dict[K, V]):
    """Makes dicts call `self.on_update` on modifications.

    .. versionchanged:: 3.1
        Implement ``|=`` operator.

    .. versionadded:: 0.5

    :private:
    """

    on_update: cabc.Callable[[te.Self], None] | None = None

    def setdefault(self: te.Self, key: K, default: V | None = None) -> V:
        modified = key not in self
        rv = super().setdefault(key, default)  # type: ignore[arg-type]
        if modified and self.on_update is not None:
            self.on_update(self)
        return rv

    @t.overload
    def pop(self: te.Self, key: K) -> V: ...
    @t.overload
    def pop(self: te.Self, key: K, default: V) -> V: ...
    @t.overload
    def pop(self: te.Self, key: K, default: T) -> T: ...
    def pop(
        self: te.Self,
        key: K,
        default: V | T = _missing,  # type: ignore[assignment]
    ) -> V | T:
        modified = key in self
        if default is _missing:
            rv = super().pop(key)
        else:
            rv = super().pop(key, default)  # type: ignore[arg-type]
        if modified and self.on_update is not None:
            self.on_update(self)
        return rv

    @_always_update
    def __setitem__(self, key: K, value: V) -> None:
        super().__setitem__(key, value)

    @_always_update
    def __delitem__(self, key: K) -> None:
        super().__delitem__(key)

    @_always_update
    def clear(self) -> None:
        super().clear()

    @_always_update
    def popitem(self) -> tuple[K, V]:
        return super().popitem()

    @_always_update
    def update(  # type: ignore[override]
        self,
        arg: cabc.Mapping[K, V] | cabc.Iterable[tuple[K, V]] | None = None,
        /,
        **kwargs: V,
    ) -> None:
        if arg is None:
            super().update(**kwargs)
        else:
            super().update(arg, **kwargs)

    @_always_update
    def __ior__(  # type: ignore[override]
        self, other: cabc.Mapping[K, V] | cabc.Iterable[tuple[K, V]]
    ) -> te.Self:
        return super().__ior__(other)
'''

ORIG_CALLBACKDICT_SRC = r'''class CallbackDict(UpdateDictMixin[K, V], dict[K, V]):
    """A dict that calls a function passed every time something is changed.
    The function is passed the dict instance.
    """

    def __init__(
        self,
        initial: cabc.Mapping[K, V] | cabc.Iterable[tuple[K, V]] | None = None,
        on_update: cabc.Callable[[te.Self], None] | None = None,
    ) -> None:
        if initial is None:
            super().__init__()
        else:
            super().__init__(initial)

        self.on_update = on_update

    def __repr__(self) -> str:
        return f"<{type(self).__name__} {super().__repr__()}>"
'''

K = t.TypeVar("K")
V = t.TypeVar("V")
T = t.TypeVar("T")
F = t.TypeVar("F")
_ns: dict[str, t.Any] = {
    "cabc": cabc, "t": t, "update_wrapper": update_wrapper, "_missing": _missing,
    "K": K, "V": V, "T": T, "F": F, "__name__": "orig_mixins",
}
exec("from __future__ import annotations\n" + ORIG_MIXIN_SRC, _ns)
OrigUpdateDictMixin = _ns["UpdateDictMixin"]
exec("from __future__ import annotations\n" + ORIG_CALLBACKDICT_SRC, _ns)
OrigCallbackDict = _ns["CallbackDict"]
NewCallbackDict = ds.CallbackDict
assert OrigUpdateDictMixin is not mixins.UpdateDictMixin
assert "present" in mixins.UpdateDictMixin.pop.__code__.co_varnames, "refactoring not applied?"
assert "modified" in OrigUpdateDictMixin.pop.__code__.co_varnames


def _rebuild(module, **overrides):
    """Re-execute an (unchanged) module source with CallbackDict replaced."""
    src = inspect.getsource(module)
    assert "from .structures import CallbackDict\n" in src
    src = src.replace("from .structures import CallbackDict\n", "\n")
    ns = {"__name__": module.__name__, "__package__": module.__package__,
          "CallbackDict": OrigCallbackDict}
    ns.update(overrides)
    exec(compile(src, module.__file__, "exec"), ns)
    return ns


_cc_ns = _rebuild(cc_mod)
OrigResponseCacheControl = _cc_ns["ResponseCacheControl"]
_csp_ns = _rebuild(csp_mod)
OrigCSP = _csp_ns["ContentSecurityPolicy"]
assert OrigUpdateDictMixin in OrigResponseCacheControl.__mro__
assert mixins.UpdateDictMixin not in OrigResponseCacheControl.__mro__
assert OrigUpdateDictMixin in OrigCSP.__mro__ and mixins.UpdateDictMixin not in OrigCSP.__mro__


@contextlib.contextmanager
def use_original():
    saved = (resp_mod.CallbackDict, resp_mod.ResponseCacheControl,
             resp_mod.ContentSecurityPolicy, ds.ContentSecurityPolicy,
             auth_mod.CallbackDict)
    resp_mod.CallbackDict = OrigCallbackDict
    resp_mod.ResponseCacheControl = OrigResponseCacheControl
    resp_mod.ContentSecurityPolicy = OrigCSP
    ds.ContentSecurityPolicy = OrigCSP
    auth_mod.CallbackDict = OrigCallbackDict
    try:
        yield
    finally:
        (resp_mod.CallbackDict, resp_mod.ResponseCacheControl,
         resp_mod.ContentSecurityPolicy, ds.ContentSecurityPolicy,
         auth_mod.CallbackDict) = saved


class Boom(Exception):
    pass


KEYS = ["a", "b", "c", "max-age", "no-cache", "", 1, None, ("t",), 1.0, True]
BADKEYS = [[], {}]
VALUES = ["x", "", None, 0, 1, "y z", _missing, [], "3600"]


def rkey(rng):
    if rng.random() < 0.05:
        return rng.choice(BADKEYS)
    return rng.choice(KEYS)


def gen_ops(rng, n):
    ops = []
    for _ in range(n):
        k = rng.choice(["setdefault", "setdefault1", "pop", "pop_d", "pop_kw", "set",
                        "del", "clear", "popitem", "update", "update_kw", "update_none",
                        "update_empty", "update_bad", "ior", "or", "get", "set_cb",
                        "copy", "repr"])
        if k in ("setdefault", "pop_d", "pop_kw", "set"):
            ops.append((k, rkey(rng), rng.choice(VALUES)))
        elif k in ("setdefault1", "pop", "del", "get"):
            ops.append((k, rkey(rng)))
        elif k in ("update", "ior", "or"):
            pairs = [(rng.choice(KEYS), rng.choice(VALUES)) for _ in range(rng.randrange(0, 4))]
            ops.append((k, rng.choice(["dict", "pairs", "gen"]), pairs))
        elif k == "update_kw":
            ops.append((k, rng.choice([None, "dict", "missing"]),
                        {rng.choice(["a", "zz", "key"]): rng.choice(VALUES)}))
        elif k == "update_bad":
            ops.append((k, rng.choice([1, "ab", [("a",)], [1], _missing])))
        elif k == "set_cb":
            ops.append((k, rng.choice(["none", "rec", "raise", "del"])))
        else:
            ops.append((k,))
    return ops


def mkarg(kind, pairs):
    if kind == "dict":
        return dict(pairs)
    if kind == "pairs":
        return list(pairs)
    return (p for p in pairs)


def snap(d):
    return list(dict.items(d))


def apply(d, op, cbs):
    k = op[0]
    if k == "setdefault":
        return d.setdefault(op[1], op[2])
    if k == "setdefault1":
        return d.setdefault(op[1])
    if k == "pop":
        return d.pop(op[1])
    if k == "pop_d":
        return d.pop(op[1], op[2])
    if k == "pop_kw":
        return d.pop(op[1], default=op[2])
    if k == "set":
        d[op[1]] = op[2]
        return None
    if k == "del":
        del d[op[1]]
        return None
    if k == "clear":
        return d.clear()
    if k == "popitem":
        return d.popitem()
    if k == "update":
        return d.update(mkarg(op[1], op[2]))
    if k == "update_kw":
        if op[1] is None:
            return d.update(None, **op[2])
        if op[1] == "missing":
            return d.update(**op[2])
        return d.update({"q": "r"}, **op[2])
    if k == "update_none":
        return d.update(None)
    if k == "update_empty":
        return d.update()
    if k == "update_bad":
        return d.update(op[1])
    if k == "ior":
        before = d
        d |= mkarg(op[1], op[2])
        return d is before
    if k == "or":
        r = d | dict(op[2])
        return (type(r).__name__, sorted(map(repr, r.items())))
    if k == "get":
        return d.get(op[1])
    if k == "set_cb":
        if op[1] == "del":
            # fall back to the class attribute (None)
            d.__dict__.pop("on_update", None)
        else:
            d.on_update = cbs[op[1]]
        return None
    if k == "copy":
        r = d.copy()
        return (type(r).__name__, snap(r))
    if k == "repr":
        return repr(d)
    raise AssertionError(k)


def run_standalone(cls, initial, cb_mode, ops):
    log = []

    def rec(s):
        log.append(("cb", type(s).__name__, snap(s)))

    def raising(s):
        log.append(("cb-raise", snap(s)))
        raise Boom()

    cbs = {"none": None, "rec": rec, "raise": raising}
    d = cls(initial, cbs[cb_mode])
    trace = []
    for op in ops:
        try:
            r = apply(d, op, cbs)
            trace.append((op[0], "ok", repr(r), snap(d), len(log)))
        except Exception as e:  # noqa: BLE001
            trace.append((op[0], "exc", type(e).__name__, repr(e.args), snap(d), len(log)))
    return trace, log


CC_HEADERS = [None, "", "no-cache", "max-age=3600", "max-age=0, private", "public, max-age=abc",
              'private="x-a, x-b"', "no-store, no-transform", "foo=bar, baz", "s-maxage=5"]
CC_ATTRS = ["no_cache", "no_store", "max_age", "no_transform", "public", "private",
            "s_maxage", "must_revalidate", "proxy_revalidate", "immutable",
            "must_understand", "stale_while_revalidate", "stale_if_error"]
CC_VALS = [None, True, False, 0, 1, 3600, "60", "abc", "*", "x-a", 2.5, -1]
CSP_HEADERS = [None, "", "default-src 'self'", "default-src 'self'; script-src 'none'",
               "bogus; img-src *", "a b; a c", "upgrade-insecure-requests"]
CSP_ATTRS = ["default_src", "script_src", "img_src", "report_uri", "base_uri", "sandbox"]
CSP_VALS = [None, "'self'", "*", "", "https://e.x a.b", "'none'"]
CT_HEADERS = [None, "", "text/html", "text/html; charset=utf-8", 'a/b; x="y z"; q=1',
              "text/plain;charset=latin1;charset=utf-8", "weird", "a/b; k*=UTF-8''v"]
WWW_HEADERS = [None, "", "Basic realm=x", 'Digest realm="r", nonce="n", qop="auth"',
               "Bearer abc==", 'Custom a=b, c="d e"', "Basic"]


def gen_resp_ops(rng, kind, n):
    ops = []
    for _ in range(n):
        if kind == "cc":
            c = rng.choice(["attr_set", "attr_del", "attr_get", "dict", "reread", "hdr"])
            if c == "attr_set":
                ops.append((c, rng.choice(CC_ATTRS), rng.choice(CC_VALS)))
            elif c in ("attr_del", "attr_get"):
                ops.append((c, rng.choice(CC_ATTRS)))
            elif c == "dict":
                ops.append((c, gen_dict_op(rng, ["max-age", "no-cache", "private", "x", "public"],
                                           [None, "1", "x", "a b", 5])))
            elif c == "hdr":
                ops.append((c, rng.choice(CC_HEADERS)))
            else:
                ops.append((c,))
        elif kind in ("csp", "cspro"):
            c = rng.choice(["attr_set", "attr_del", "attr_get", "dict", "reread", "hdr", "assign"])
            if c == "attr_set":
                ops.append((c, rng.choice(CSP_ATTRS), rng.choice(CSP_VALS)))
            elif c in ("attr_del", "attr_get"):
                ops.append((c, rng.choice(CSP_ATTRS)))
            elif c == "dict":
                ops.append((c, gen_dict_op(rng, ["default-src", "img-src", "x", "script-src"],
                                           ["'self'", "*", "a b", ""])))
            elif c in ("hdr", "assign"):
                ops.append((c, rng.choice(CSP_HEADERS)))
            else:
                ops.append((c,))
        elif kind == "ct":
            c = rng.choice(["dict", "dict", "reread", "hdr", "mimetype"])
            if c == "dict":
                ops.append((c, gen_dict_op(rng, ["charset", "x", "q", "boundary", "k"],
                                           ["utf-8", "y z", "", "1", 'q"t', "é"])))
            elif c == "hdr":
                ops.append((c, rng.choice(CT_HEADERS)))
            elif c == "mimetype":
                ops.append((c, rng.choice(["text/plain", "application/json", "a/b", "text/x; z=1"])))
            else:
                ops.append((c,))
        else:  # www
            c = rng.choice(["item_set", "item_del", "attr_set", "attr_del", "params_dict",
                            "type", "token", "params", "reread", "hdr", "assign"])
            keys = ["realm", "nonce", "qop", "x", "charset", "stale"]
            vals = [None, "a", "b c", "", 'q"t', "auth"]
            if c in ("item_set", "attr_set"):
                ops.append((c, rng.choice(keys), rng.choice(vals)))
            elif c in ("item_del", "attr_del"):
                ops.append((c, rng.choice(keys)))
            elif c == "params_dict":
                ops.append((c, gen_dict_op(rng, keys, vals)))
            elif c == "type":
                ops.append((c, rng.choice(["basic", "Digest", "bearer", "X"])))
            elif c == "token":
                ops.append((c, rng.choice([None, "abc", "t=="])))
            elif c == "params":
                ops.append((c, {rng.choice(keys): rng.choice(vals[1:]) for _ in range(rng.randrange(3))}))
            elif c in ("hdr", "assign"):
                ops.append((c, rng.choice(WWW_HEADERS)))
            else:
                ops.append((c,))
    return ops


def gen_dict_op(rng, keys, vals):
    k = rng.choice(["setdefault", "setdefault1", "pop", "pop_d", "set", "del", "clear",
                    "popitem", "update", "update_kw", "update_none", "update_empty", "ior"])
    if k in ("setdefault", "pop_d", "set"):
        return (k, rng.choice(keys), rng.choice(vals))
    if k in ("setdefault1", "pop", "del"):
        return (k, rng.choice(keys))
    if k in ("update", "ior"):
        return (k, rng.choice(["dict", "pairs", "gen"]),
                [(rng.choice(keys), rng.choice(vals)) for _ in range(rng.randrange(0, 3))])
    if k == "update_kw":
        return (k, rng.choice([None, "missing"]), {rng.choice(["x", "q"]): rng.choice(vals)})
    return (k,)


HNAME = {"cc": "Cache-Control", "csp": "Content-Security-Policy",
         "cspro": "Content-Security-Policy-Report-Only", "ct": "Content-Type",
         "www": "WWW-Authenticate"}
PROP = {"cc": "cache_control", "csp": "content_security_policy",
        "cspro": "content_security_policy_report_only", "ct": "mimetype_params",
        "www": "www_authenticate"}


def view_state(kind, v):
    if kind == "www":
        return (v.type, v.token, list(dict.items(v.parameters)), type(v.parameters).__name__)
    return (type(v).__name__, list(dict.items(v)))


def run_response(kind, initial, ops):
    resp = Response()
    hname, prop = HNAME[kind], PROP[kind]
    resp.headers.pop("Content-Type", None) if kind != "ct" else None
    if initial is not None:
        resp.headers[hname] = initial
    trace = []
    view = getattr(resp, prop)
    for op in ops:
        c = op[0]
        try:
            r = None
            if c == "attr_set":
                setattr(view, op[1], op[2])
            elif c == "attr_del":
                delattr(view, op[1])
            elif c == "attr_get":
                r = getattr(view, op[1])
            elif c == "dict":
                r = apply(view, op[1], {})
            elif c == "params_dict":
                r = apply(view.parameters, op[1], {})
            elif c == "item_set":
                view[op[1]] = op[2]
            elif c == "item_del":
                del view[op[1]]
            elif c == "type":
                view.type = op[1]
            elif c == "token":
                view.token = op[1]
            elif c == "params":
                view.parameters = op[1]
            elif c == "reread":
                view = getattr(resp, prop)
            elif c == "hdr":
                if op[1] is None:
                    resp.headers.pop(hname, None)
                else:
                    resp.headers[hname] = op[1]
            elif c == "assign":
                if kind == "www":
                    resp.www_authenticate = ds.WWWAuthenticate.from_header(op[1])
                else:
                    setattr(resp, prop, op[1])
            elif c == "mimetype":
                resp.mimetype = op[1]
            status = ("ok", repr(r))
        except Exception as e:  # noqa: BLE001
            status = ("exc", type(e).__name__, repr(e.args))
        reread = getattr(resp, prop)
        trace.append((c, status, resp.headers.getlist(hname), view_state(kind, view),
                      view_state(kind, reread),
                      view.to_header() if hasattr(view, "to_header") else None))
    return trace


def main():
    rng = random.Random(0xC16_2)
    n = mism = 0
    for _ in range(6000):
        initial = rng.choice([None, {}, {"a": "1"}, [("a", "1"), ("b", None)],
                              {"max-age": "5", "c": "x", 1: 2}])
        cb_mode = rng.choice(["none", "rec", "rec", "raise"])
        ops = gen_ops(rng, rng.randrange(1, 25))
        a = run_standalone(OrigCallbackDict, initial, cb_mode, ops)
        b = run_standalone(NewCallbackDict, initial, cb_mode, ops)
        n += 1
        if a != b:
            mism += 1
            if mism < 5:
                print("MISMATCH standalone", initial, cb_mode, ops, a, b, sep="\n  ")
    initials = {"cc": CC_HEADERS, "csp": CSP_HEADERS, "cspro": CSP_HEADERS,
                "ct": CT_HEADERS, "www": WWW_HEADERS}
    type_checked = set()
    for _ in range(6000):
        kind = rng.choice(["cc", "csp", "cspro", "ct", "www"])
        initial = rng.choice(initials[kind])
        ops = gen_resp_ops(rng, kind, rng.randrange(1, 18))
        with use_original():
            if kind not in type_checked:
                v = getattr(Response(), PROP[kind])
                base = v.parameters if kind == "www" else v
                assert isinstance(base, OrigUpdateDictMixin), (kind, type(base).__mro__)
                assert not isinstance(base, mixins.UpdateDictMixin)
            a = run_response(kind, initial, ops)
        if kind not in type_checked:
            v = getattr(Response(), PROP[kind])
            base = v.parameters if kind == "www" else v
            assert isinstance(base, mixins.UpdateDictMixin)
            type_checked.add(kind)
        b = run_response(kind, initial, ops)
        n += 1
        if a != b:
            mism += 1
            if mism < 5:
                print("MISMATCH response", kind, initial, ops, a, b, sep="\n  ")
    print(f"cases={n} mismatches={mism}")
    print("PASS" if mism == 0 else "FAIL")


if __name__ == "__main__":
    main()
