"""Differential check for refactoring 3 (C06): unquote_etag, parse_etags, Range.to_header.

Run: cd /tmp/wt3-C06 && PYTHONPATH=/tmp/wt3-C06/src /venv/bin/python /tmp/twin-C06/3/diff_check.py
"""
from __future__ import annotations

import random
import re

from werkzeug import datastructures as ds
from werkzeug import http

# ---- ORIGINAL implementations (copied from the unmodified tree) -------------
_etag_re = re.compile(r'([Ww]/)?(?:"(.*?)"|(.*?))(?:\s*,\s*|$)')
assert http._etag_re.pattern == _etag_re.pattern


def orig_unquote_etag(etag):
    if not etag:
        return None, None
    etag = etag.strip()
    weak = False
    if etag.startswith(("W/", "w/")):
        weak = True
        etag = etag[2:]
    if etag[:1] == etag[-1:] == '"':
        etag = etag[1:-1]
    return etag, weak


def orig_parse_etags(value):
    if not value:
        return ds.ETags()
    strong = []
    weak = []
    end = len(value)
    pos = 0
    while pos < end:
        match = _etag_re.match(value, pos)
        if match is None:
            break
        is_weak, quoted, raw = match.groups()
        if raw == "*":
            return ds.ETags(star_tag=True)
        elif quoted:
            raw = quoted
        if is_weak:
            weak.append(raw)
        else:
            strong.append(raw)
        pos = match.end()
    return ds.ETags(strong, weak)


def orig_range_to_header(self):
    ranges = []
    for begin, end in self.ranges:
        if end is None:
            ranges.append(f"{begin}-" if begin >= 0 else str(begin))
        else:
            ranges.append(f"{begin}-{end - 1}")
    return f"{self.units}={','.join(ranges)}"


# ---- helpers -----------------------------------------------------------------
def norm(rv):
    if type(rv) is ds.ETags:
        return ("ETags", rv._strong, rv._weak, rv.star_tag)
    if isinstance(rv, tuple):
        return tuple((type(x), x) for x in rv)  # True vs 1 must not compare equal
    return (type(rv), rv)


def run(fn, *args):
    try:
        return ("ok", norm(fn(*args)))
    except BaseException as e:  # noqa: BLE001
        return ("exc", type(e))


ETAG_CHARS = list('abcXYZ019-_ \t,"*/Ww\\é') + ["W/", "w/", '""', "*", ", ", '","']


def rnd_raw(r, n=6):
    return "".join(r.choice(ETAG_CHARS) for _ in range(r.randint(0, n)))


def rnd_tag_text(r):
    return "".join(r.choice("abcdefXYZ0123456789-_.:+/= é") for _ in range(r.randint(0, 8)))


def rnd_etag(r):
    c = r.random()
    if c < 0.35:
        return http.quote_etag(rnd_tag_text(r), weak=r.random() < 0.5)
    if c < 0.45:
        return r.choice(["W/", "w/", ""]) + rnd_tag_text(r)  # unquoted
    if c < 0.50:
        return "*"
    if c < 0.55:
        return r.choice(['""', 'W/""', '"', "W/", "w/", 'W/"', " ", ""])
    if c < 0.65:
        return r.choice([" ", "\t", ""]) + http.quote_etag(rnd_tag_text(r)) + r.choice([" ", ""])
    return rnd_raw(r)


def rnd_etags_header(r):
    c = r.random()
    if c < 0.6:
        # in-domain: serialise an ETags collection
        strong = [rnd_tag_text(r) for _ in range(r.randint(0, 3))]
        weak = [rnd_tag_text(r) for _ in range(r.randint(0, 3))]
        return ds.ETags(strong, weak, star_tag=r.random() < 0.05).to_header()
    sep = r.choice([",", ", ", " , ", ",,", " ", ";"])
    return sep.join(rnd_etag(r) for _ in range(r.randint(0, 4)))


def rnd_range(r):
    c = r.random()
    units = r.choice(["bytes", "items", "", "Bytes", 5, None])
    if c < 0.5:
        # valid ascending ranges, optional open/suffix tail (property domain)
        pos = 0
        ranges = []
        for _ in range(r.randint(0, 4)):
            b = pos + r.randint(0, 5)
            e = b + r.randint(1, 6)
            ranges.append((b, e))
            pos = e
        t = r.random()
        if t < 0.25:
            ranges.append((pos + r.randint(0, 3), None))
        elif t < 0.45:
            ranges.append((-r.randint(0, 20), None))
        if r.random() < 0.3:
            ranges = tuple(ranges)
        try:
            return ds.Range(units, ranges)
        except ValueError:
            return None
    # arbitrary content assigned after construction (bypasses validation)
    rng = ds.Range(units, [])
    vals = [0, 1, 2, 5, -1, -7, 10, None, 2.5, "3", True]
    items = []
    for _ in range(r.randint(0, 4)):
        k = r.random()
        if k < 0.85:
            items.append((r.choice(vals), r.choice(vals)))
        elif k < 0.9:
            items.append((1, 2, 3))  # unpack error
        elif k < 0.95:
            items.append(5)  # not iterable
        else:
            items.append([r.choice(vals), r.choice(vals)])
    rng.ranges = items if r.random() < 0.8 else iter(items)
    if r.random() < 0.05:
        rng.ranges = None
    return rng


def main():
    r = random.Random(60603)
    n = bad = 0

    fixed = [None, "", " ", "*", '"a"', 'W/"a"', 'w/"a"', "W/a", "a", '"', 'W/"', '""', 'W/""',
             "W/", "w/", ' W/"a" ', 'W/ "a"', '"a', 'a"', '"a"b"', 'W/W/"a"', b'"a"', 5, 0, [],
             '"a", "b"', '"a",W/"b"', '"a", *', '*, "a"', '"", "a"', 'W/"", W/"b"', ",", ", ",
             '"a" "b"', '"a",, "b"', 'a, b', 'W/a, w/b', '"a,b", "c"']
    # note: values containing a newline are left out on purpose - the ORIGINAL parse_etags
    # loops forever on e.g. "\n" (zero-length match before a trailing newline), and so does
    # the refactored one; header values cannot contain newlines.

    for v in fixed + [rnd_etag(r) for _ in range(15000)]:
        a = run(orig_unquote_etag, v)
        b = run(http.unquote_etag, v)
        n += 1
        if a != b:
            bad += 1
            print("MISMATCH unquote_etag", repr(v), a, b)

    for v in fixed + [rnd_etags_header(r) for _ in range(20000)]:
        a = run(orig_parse_etags, v)
        b = run(http.parse_etags, v)
        n += 1
        if a != b:
            bad += 1
            print("MISMATCH parse_etags", repr(v), a, b)
        if a[0] == "ok" and b[0] == "ok":
            # normal form through to_header, plus contains_raw which uses unquote_etag
            ea, eb = orig_parse_etags(v), http.parse_etags(v)
            ha, hb = run(ea.to_header), run(eb.to_header)
            if ha[0] == "ok" and hb[0] == "ok":
                # frozenset order is the same for equal sets built the same way; compare parsed
                if run(orig_parse_etags, ha[1][1]) != run(http.parse_etags, hb[1][1]):
                    bad += 1
                    print("MISMATCH etags reparse", repr(v))
            elif ha != hb:
                bad += 1
                print("MISMATCH etags to_header", repr(v), ha, hb)
            probe = rnd_etag(r)
            if run(ea.contains_raw, probe) != run(eb.contains_raw, probe):
                bad += 1
                print("MISMATCH contains_raw", repr(v), repr(probe))

    # If-Range goes through unquote_etag
    for v in fixed + [rnd_etag(r) for _ in range(3000)]:
        def ifr(val):
            rv = http.parse_if_range_header(val)
            return (rv.etag, rv.date, rv.to_header())
        n += 1
        got = run(ifr, v)
        exp_etag = run(lambda val: orig_unquote_etag(val)[0], v)
        if got[0] == "ok" and got[1][1][1] is None and v and exp_etag[0] == "ok":
            if got[1][0][1] != exp_etag[1][1]:
                bad += 1
                print("MISMATCH if-range", repr(v), got, exp_etag)

    for _ in range(20000):
        rng = rnd_range(r)
        if rng is None:
            continue
        if not isinstance(rng.ranges, (list, tuple)) and rng.ranges is not None:
            lst = list(rng.ranges)
            rng.ranges = iter(lst)
            a = run(orig_range_to_header, rng)
            rng.ranges = iter(lst)
            b = run(rng.to_header)
        else:
            a = run(orig_range_to_header, rng)
            b = run(rng.to_header)
        n += 1
        if a != b:
            bad += 1
            print("MISMATCH Range.to_header", rng.units, rng.ranges, a, b)
        if a[0] == "ok" and isinstance(rng.ranges, (list, tuple)) and run(str, rng) != a:
            bad += 1
            print("MISMATCH Range.__str__", rng.ranges)
        if a[0] == "ok" and isinstance(rng.units, str):
            # round trip
            p = http.parse_range_header(a[1][1])
            q = http.parse_range_header(b[1][1])
            if (p is None) != (q is None) or (p is not None and
                                              (p.units, list(p.ranges)) != (q.units, list(q.ranges))):
                bad += 1
                print("MISMATCH Range round trip", a, b)

    print(f"compared {n} cases, {bad} mismatches")
    print("PASS" if bad == 0 else "FAIL")


if __name__ == "__main__":
    main()
