"""Differential check for refactoring 3 (test.Cookie._from_response_header and
test.Client._update_cookies_from_response).

Compares the worktree's functions against pasted copies of the ORIGINAL code on
generated Set-Cookie headers (dump_cookie output for arbitrary Unicode values and
attribute combinations, plus hand-mangled headers), and compares the resulting
client jar (content, order, Cookie header sent back) over sequences of headers.
"""
import dataclasses
import random
import sys
import warnings

from werkzeug import http as H
from werkzeug import test as T
from werkzeug.http import parse_cookie
from werkzeug.http import parse_date
from werkzeug.test import Client
from werkzeug.test import Cookie
from werkzeug.test import create_environ


def orig_from_response_header(cls, server_name, path, header):
    header, _, parameters_str = header.partition(";")
    key, _, value = header.partition("=")
    decoded_key, decoded_value = next(parse_cookie(header).items())
    params = {}

    for item in parameters_str.split(";"):
        k, sep, v = item.partition("=")
        params[k.strip().lower()] = v.strip() if sep else None

    return cls(
        key=key.strip(),
        value=value.strip(),
        decoded_key=decoded_key,
        decoded_value=decoded_value,
        expires=parse_date(params.get("expires")),
        max_age=int(params["max-age"] or 0) if "max-age" in params else None,
        domain=params.get("domain") or server_name,
        origin_only="domain" not in params,
        path=params.get("path") or path.rpartition("/")[0] or "/",
        secure="secure" in params,
        http_only="httponly" in params,
        same_site=params.get("samesite"),
    )


def orig_update_cookies_from_response(self, server_name, path, headers):
    if self._cookies is None:
        return

    for header in headers:
        cookie = orig_from_response_header(Cookie, server_name, path, header)

        if cookie._should_delete:
            self._cookies.pop(cookie._storage_key, None)
        else:
            self._cookies[cookie._storage_key] = cookie


def run(f, *args):
    try:
        rv = f(*args)
        if dataclasses.is_dataclass(rv):
            rv = (type(rv), dataclasses.astuple(rv))
        return ("ok", rv)
    except BaseException as e:  # noqa: B036
        return ("exc", type(e), str(e))


rng = random.Random(3939)
SPECIAL = list('";,\\ \t\r\n\x00\x1f\x7f\x80\xff=%') + ["é", "€", "\U0001f36a", " "]
SAFE = "abcXYZ019_!#$&'()*+-./:<>?@[]^`{|}~"


def rand_value():
    n = rng.choice([0, 1, 2, 4, 9])
    mode = rng.randrange(4)
    if mode == 0:
        return "".join(rng.choice(SAFE) for _ in range(n))
    if mode == 1:
        return "".join(rng.choice(SPECIAL + list(SAFE)) for _ in range(n))
    if mode == 2:
        return "".join(chr(rng.randrange(0xD800)) for _ in range(n))
    return rng.choice(["x; Secure", 'a"; Domain=evil.example; Max-Age=0', "v\r\nSet-Cookie: a=b", "\\073"])


def rand_dumped():
    kw = {}
    if rng.random() < 0.4:
        kw["max_age"] = rng.choice([None, 0, 1, 3600, -5])
    if rng.random() < 0.3:
        kw["expires"] = rng.choice([0, 1700000000, "Thu, 01 Jan 1970 00:00:00 GMT", "garbage", ""])
    if rng.random() < 0.5:
        kw["path"] = rng.choice([None, "/", "/a b", "/a/b", "/é", ""])
    if rng.random() < 0.4:
        kw["domain"] = rng.choice([None, "example.com", ".example.com", "localhost:5000", "bücher.example"])
    for name in ("secure", "httponly", "partitioned"):
        if rng.random() < 0.3:
            kw[name] = rng.choice([True, False])
    if rng.random() < 0.4:
        kw["samesite"] = rng.choice([None, "strict", "LAX", "None"])
    key = rng.choice(["k", "k", "session", "kéy", "a b", "k2"])
    with warnings.catch_warnings():
        warnings.simplefilter("ignore")
        return H.dump_cookie(key, rand_value(), **kw)


MANGLE = [
    "; Max-Age", "; Max-Age=", "; max-age=abc", "; MAX-AGE= 0 ", "; Max-Age=1; Max-Age=0",
    "; Domain=", "; Domain", "; domain=a.example; Domain=b.example", ";", ";;", "; ",
    "; Path", "; Path=", "; path=/x; PATH=/y", "; Expires", "; Expires=", "; Secure=no",
    "; HttpOnly=1", "; SameSite", "; samesite= lax ", "; =x", "; x=y=z", "; Max-Age=1.5",
    "; Max-Age=٣", "; Expires=Thu, 01 Jan 1970 00:00:00 GMT",
]


def rand_header():
    mode = rng.randrange(4)
    if mode == 0:
        return rand_dumped()
    if mode == 1:
        return rand_dumped() + "".join(rng.choice(MANGLE) for _ in range(rng.randrange(1, 4)))
    if mode == 2:
        return rng.choice(["", "=", "=v", ";", "k", "k=", " k = v ", 'k="a;b"; Secure', '"', "k=v;Max-Age=0", "; Secure", " ; k=v"])
    atoms = ["k", "v", "=", ";", " ", '"', "\\", "Max-Age", "0", "Domain", "Path", "/", "Secure", "é", ","]
    return "".join(rng.choice(atoms) for _ in range(rng.randrange(0, 12)))


bad = 0
n = 0
SERVERS = ["localhost", "example.com", "www.example.com"]
PATHS = ["/", "/a/b", "", "nopath", "/a/", "/é/x"]

for _ in range(8000):
    h = rand_header()
    sn = rng.choice(SERVERS)
    p = rng.choice(PATHS)
    n += 1
    a = run(orig_from_response_header, Cookie, sn, p, h)
    b = run(Cookie._from_response_header, sn, p, h)
    if a != b:
        bad += 1
        if bad < 10:
            print("MISMATCH", repr(h), a, b)


def jar_state(client):
    if client._cookies is None:
        return None
    env = create_environ("/a/b/c", "http://www.example.com/")
    client._add_cookies_to_wsgi(env)
    return (
        [(k, dataclasses.astuple(c)) for k, c in client._cookies.items()],
        env.get("HTTP_COOKIE"),
    )


for i in range(1500):
    use = i % 50 != 0
    ca = Client(None, use_cookies=use)
    cb = Client(None, use_cookies=use)
    for _ in range(rng.randrange(1, 4)):
        sn = rng.choice(SERVERS)
        p = rng.choice(PATHS)
        headers = [rand_header() for _ in range(rng.randrange(0, 5))]
        n += 1
        ra = run(orig_update_cookies_from_response, ca, sn, p, headers)
        rb = run(cb._update_cookies_from_response, sn, p, headers)
        sa, sb = jar_state(ca), jar_state(cb)
        if ra != rb or sa != sb:
            bad += 1
            if bad < 10:
                print("MISMATCH(jar)", headers, ra, rb, sa, sb)

print(f"{n} cases, {bad} mismatches")
print("PASS" if bad == 0 else "FAIL")
sys.exit(0 if bad == 0 else 1)
