"""Differential check: werkzeug.datastructures.Headers (worktree, possibly
refactored) against a subclass carrying the ORIGINAL bodies of the mutators
named in the C05 focus list (__delitem__, _del_key, remove, pop, popitem,
clear, set, setlist).  Random operation sequences are replayed on both and the
return values, raised exception types and the resulting header list are
compared after every step.
"""

from __future__ import annotations

import random
import sys

from werkzeug._internal import _missing
from werkzeug.datastructures import Headers
from werkzeug.datastructures.headers import _options_header_vkw
from werkzeug.datastructures.headers import _str_header_value


class OrigHeaders(Headers):
    # --- verbatim copies from the unmodified tree ---------------------------
    def __delitem__(self, key):
        if isinstance(key, str):
            self._del_key(key)
            return

        del self._list[key]

    def _del_key(self, key):
        key = key.lower()
        new = []

        for k, v in self._list:
            if k.lower() != key:
                new.append((k, v))

        self._list[:] = new

    def remove(self, key):
        return self._del_key(key)

    def pop(self, key=None, default=_missing):
        if key is None:
            return self._list.pop()

        if isinstance(key, int):
            return self._list.pop(key)

        try:
            rv = self._get_key(key)
        except KeyError:
            if default is not _missing:
                return default

            raise

        self.remove(key)
        return rv

    def popitem(self):
        return self._list.pop()

    def clear(self):
        self._list.clear()

    def set(self, key, value, /, **kwargs):
        if kwargs:
            value = _options_header_vkw(value, kwargs)

        value_str = _str_header_value(value)

        if not self._list:
            self._list.append((key, value_str))
            return

        iter_list = iter(self._list)
        ikey = key.lower()

        for idx, (old_key, _) in enumerate(iter_list):
            if old_key.lower() == ikey:
                # replace first occurrence
                self._list[idx] = (key, value_str)
                break
        else:
            # no existing occurrences
            self._list.append((key, value_str))
            return

        # remove remaining occurrences
        self._list[idx + 1 :] = [t for t in iter_list if t[0].lower() != ikey]

    def setlist(self, key, values):
        if values:
            values_iter = iter(values)
            self.set(key, next(values_iter))

            for value in values_iter:
                self.add(key, value)
        else:
            self.remove(key)


KEYS = [
    "Content-Length",
    "content-length",
    "CONTENT-LENGTH",
    "Location",
    "location",
    "X-Foo",
    "x-foo",
    "X-FOO",
    "Set-Cookie",
    "set-cookie",
    "ETag",
    "",
    "X-é",
    "Straße",
    "STRASSE",
]
ODD_KEYS = [None, 0, 1, -1, 5, b"X-Foo", 3.5, ("a",), slice(0, 1), slice(None), slice(1, None, 2)]
VALUES = [
    "a",
    "b",
    "",
    "text/html",
    "12",
    12,
    0,
    None,
    3.5,
    b"bytes",
    b"caf\xe9",
    "café",
    "bad\nvalue",
    "bad\rvalue",
    "bad\r\nvalue",
    b"bad\nbytes",
    "trailing\n",
    "http://example.com/ü",
    ["x"],
]


class Truthy:
    """Iterable whose truthiness is independent of its content."""

    def __init__(self, items, truth):
        self.items = items
        self.truth = truth

    def __bool__(self):
        return self.truth

    def __iter__(self):
        return iter(self.items)


def rkey(rng):
    if rng.random() < 0.08:
        return rng.choice(ODD_KEYS)
    return rng.choice(KEYS)


def rvalue(rng):
    return rng.choice(VALUES)


def rvalues(rng):
    n = rng.choice([0, 0, 1, 2, 3])
    items = [rvalue(rng) for _ in range(n)]
    kind = rng.randrange(7)
    if kind == 0:
        return lambda: list(items)
    if kind == 1:
        return lambda: tuple(items)
    if kind == 2:
        return lambda: iter(items)  # always truthy, may be exhausted
    if kind == 3:
        return lambda: (v for v in items)
    if kind == 4:
        truth = rng.random() < 0.5
        return lambda: Truthy(items, truth)
    if kind == 5:
        return lambda: dict.fromkeys(str(i) for i in items)
    return lambda: None


def make_op(rng):
    """Return (name, callable(headers) -> result)."""
    c = rng.randrange(20)
    if c == 0:
        k, v = rkey(rng), rvalue(rng)
        return "add", lambda h: h.add(k, v)
    if c in (1, 2, 3):
        k, v = rkey(rng), rvalue(rng)
        kw = rng.choice([{}, {}, {"charset": "utf-8"}, {"filename": "a\nb"}, {"max_age": 3}])
        return "set", lambda h: h.set(k, v, **kw)
    if c in (4, 5):
        k, mk = rkey(rng), rvalues(rng)
        return "setlist", lambda h: h.setlist(k, mk())
    if c == 6:
        k = rkey(rng)
        return "remove", lambda h: h.remove(k)
    if c in (7, 8):
        k = rkey(rng)
        mode = rng.randrange(4)
        if mode == 0:
            return "pop()", lambda h: h.pop()
        if mode == 1:
            return "pop(k)", lambda h: h.pop(k)
        if mode == 2:
            d = rng.choice([None, "dflt", 0, _missing])
            return "pop(k,d)", lambda h: h.pop(k, d)
        i = rng.choice([0, 1, -1, 2, 7, -9, True, False])
        return "pop(i)", lambda h: h.pop(i)
    if c == 9:
        return "popitem", lambda h: h.popitem()
    if c in (10, 11):
        k = rng.choice([rkey(rng), rng.choice(ODD_KEYS), rng.randrange(-3, 4)])

        def _del(h):
            del h[k]

        return "del", _del
    if c == 12:
        k = rng.choice([rkey(rng), rng.randrange(-3, 4), slice(0, 2)])
        v = rng.choice([rvalue(rng), (rkey(rng), rvalue(rng)), [(rkey(rng), rvalue(rng))]])

        def _set(h):
            h[k] = v

        return "setitem", _set
    if c == 13:
        items = [(rkey(rng), rvalue(rng)) for _ in range(rng.randrange(3))]
        return "update", lambda h: h.update(items)
    if c == 14:
        return "clear", lambda h: h.clear()
    if c == 15:
        k, v = rkey(rng), rvalue(rng)
        return "setdefault", lambda h: h.setdefault(k, v)
    if c == 16:
        k, mk = rkey(rng), rvalues(rng)
        return "setlistdefault", lambda h: h.setlistdefault(k, mk() or [])
    if c == 17:
        items = [(rkey(rng), rvalue(rng)) for _ in range(rng.randrange(4))]
        return "extend", lambda h: h.extend(items)
    if c == 18:
        d = {rng.choice(KEYS): rng.choice([rvalue(rng), [rvalue(rng), rvalue(rng)]])}
        return "update-dict", lambda h: h.update(d)
    k = rkey(rng)
    return "ior", lambda h: h.__ior__({k: "z"}) and None


def run(h, fn):
    try:
        return ("ok", repr(fn(h)))
    except BaseException as e:  # noqa: B036
        return ("exc", type(e).__name__, type(e).__mro__[1].__name__)


def main():
    seed = int(sys.argv[1]) if len(sys.argv) > 1 else 20260905
    rng = random.Random(seed)
    n_ops = 0
    n_exc = 0
    for case in range(4000):
        init = [(rng.choice(KEYS), rng.choice(["a", "b", "1", ""])) for _ in range(rng.randrange(7))]
        new, old = Headers(init), OrigHeaders(init)
        assert new._list == old._list
        for step in range(rng.randrange(1, 12)):
            name, fn = make_op(rng)
            r_new, r_old = run(new, fn), run(old, fn)
            n_ops += 1
            n_exc += r_new[0] == "exc"
            if r_new != r_old or new._list != old._list or [
                tuple(map(type, i)) for i in new._list
            ] != [tuple(map(type, i)) for i in old._list]:
                print("FAIL", seed, case, step, name, r_new, r_old, new._list, old._list)
                return 1
            if new.to_wsgi_list() != old.to_wsgi_list():
                print("FAIL wsgi list", seed, case, step, name)
                return 1
    print(f"PASS ({n_ops} operations, {n_exc} raising, seed {seed})")
    return 0


if __name__ == "__main__":
    sys.exit(main())
