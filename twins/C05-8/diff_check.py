"""Differential check for refactoring 2 (Response.get_wsgi_headers).

Run: cd /tmp/wt9-C05 && PYTHONPATH=/tmp/wt9-C05/src /venv/bin/python /tmp/twin5-C05/2/diff_check.py
"""
import random
from urllib.parse import urljoin

from werkzeug.datastructures import Headers
from werkzeug.http import remove_entity_headers
from werkzeug.urls import iri_to_uri
from werkzeug.wrappers import Response
from werkzeug.wsgi import get_current_url


# ---- ORIGINAL implementation (verbatim from the unmodified tree) ----
def orig_get_wsgi_headers(self, environ):
    headers = Headers(self.headers)
    location = None
    content_location = None
    content_length = None
    status = self.status_code

    for key, value in headers:
        ikey = key.lower()
        if ikey == "location":
            location = value
        elif ikey == "content-location":
            content_location = value
        elif ikey == "content-length":
            content_length = value

    if location is not None:
        location = iri_to_uri(location)

        if self.autocorrect_location_header:
            # Make the location header an absolute URL.
            current_url = get_current_url(environ, strip_querystring=True)
            current_url = iri_to_uri(current_url)
            location = urljoin(current_url, location)

        headers["Location"] = location

    # make sure the content location is a URL
    if content_location is not None:
        headers["Content-Location"] = iri_to_uri(content_location)

    if 100 <= status < 200 or status == 204:
        headers.remove("Content-Length")
    elif status == 304:
        remove_entity_headers(headers)

    if (
        self.automatically_set_content_length
        and self.is_sequence
        and content_length is None
        and status not in (204, 304)
        and not (100 <= status < 200)
    ):
        content_length = sum(len(x) for x in self.iter_encoded())
        headers["Content-Length"] = str(content_length)

    return headers


class OrigResponse(Response):
    get_wsgi_headers = orig_get_wsgi_headers


STATUSES = [
    100, 101, 102, 103, 150, 199, 200, 201, 202, 203, 204, 205, 206, 226, 299,
    300, 301, 302, 303, 304, 305, 307, 308, 400, 404, 418, 500, 599, 0, 99, 600, 999,
    "204 No Content", "304", "200 OK", "wat", "100 Continue", "204", "1xx",
]  # fmt: skip
BODIES = [
    None,
    "",
    "hello",
    b"hello",
    "üñïcode ☃",
    ["a", "bc", b"def"],
    ("x", "ü"),
    [],
    (),
    [b"", b"12345"],
    "gen",
    "iter",
    "set",
]
HEADER_KEYS = [
    "Location", "location", "LOCATION", "Content-Location", "content-location",
    "Content-Length", "content-length", "CONTENT-LENGTH", "Content-Type",
    "Content-Encoding", "Content-Language", "Content-MD5", "Content-Range",
    "Expires", "Last-Modified", "Allow", "ETag", "X-Foo", "Set-Cookie",
    "Content-Locatıon", "Locatİon", "Content-Length ", "X-Location",
]  # fmt: skip
HEADER_VALUES = [
    "", "0", "5", "17", "abc", "/foo", "foo/bar", "../x?y=1#z", "http://other.example/a b",
    "//host/path", "/ünïcode/☃?q=ü", "http://üser:pw@exämple.com:8080/p", "?only=query",
    "#frag", "mailto:a@b", "http://[::1]:80/x", "http://[bad", "/a%20b%zz", "\\\\evil",
    "/with space", "/tab\there", "http://ex.com/\x7f\x00",
]  # fmt: skip
ENVIRONS = [
    {"wsgi.url_scheme": "http", "HTTP_HOST": "localhost", "SCRIPT_NAME": "", "PATH_INFO": "/"},
    {"wsgi.url_scheme": "https", "HTTP_HOST": "example.com:8443", "SCRIPT_NAME": "/app", "PATH_INFO": "/a/b", "QUERY_STRING": "x=1"},
    {"wsgi.url_scheme": "http", "SERVER_NAME": "srv", "SERVER_PORT": "8080", "SCRIPT_NAME": "/s\xc3\xbc", "PATH_INFO": "/p\xc3\xa4th/"},
    {"wsgi.url_scheme": "https", "SERVER_NAME": "srv", "SERVER_PORT": "443", "PATH_INFO": "/deep/er/", "REQUEST_METHOD": "HEAD"},
    {"wsgi.url_scheme": "http", "HTTP_HOST": "ex\xc3\xa4mple.org", "PATH_INFO": "/x y"},
    {},  # missing keys -> KeyError path (only reached when Location is present)
    {"wsgi.url_scheme": "http"},
]  # fmt: skip


def make_body(spec):
    if spec == "gen":
        return (c for c in ["a", "b", "c"])
    if spec == "iter":
        return iter([b"ab", b"cd"])
    if spec == "set":
        return {"only"}
    return spec


def build(cls, case):
    status, body, hdrs, flags = case
    try:
        r = cls(make_body(body), status=status)
    except Exception as e:  # noqa: BLE001
        return None, ("ctor-exc", type(e).__name__, str(e))
    for k, v in hdrs:
        r.headers.add(k, v)
    auto_loc, auto_cl, passthrough, drop_ct = flags
    r.autocorrect_location_header = auto_loc
    r.automatically_set_content_length = auto_cl
    r.direct_passthrough = passthrough
    if drop_ct:
        r.headers.remove("Content-Type")
    return r, None


def observe(cls, case, environ):
    r, err = build(cls, case)
    if r is None:
        return err
    before = list(r.headers)
    try:
        h = r.get_wsgi_headers(dict(environ))
        res = ("ok", type(h).__name__, h.to_wsgi_list())
    except Exception as e:  # noqa: BLE001
        res = ("exc", type(e).__name__, str(e))
    # the response's own headers must be untouched, body state equal
    resp_state = type(r.response).__name__
    if isinstance(r.response, (list, tuple)):
        resp_state = (resp_state, list(r.response))
    return res, before == list(r.headers), list(r.headers), resp_state


def main():
    rnd = random.Random(20505)
    n = 0
    kinds = {"ok": 0, "exc": 0}
    for _ in range(20000):
        hdrs = []
        for _ in range(rnd.choice([0, 1, 1, 2, 3, 4, 6])):
            hdrs.append((rnd.choice(HEADER_KEYS), rnd.choice(HEADER_VALUES)))
        case = (
            rnd.choice(STATUSES),
            rnd.choice(BODIES),
            hdrs,
            (
                rnd.random() < 0.4,
                rnd.random() < 0.8,
                rnd.random() < 0.15,
                rnd.random() < 0.2,
            ),
        )
        environ = rnd.choice(ENVIRONS)
        a = observe(OrigResponse, case, environ)
        b = observe(Response, case, environ)
        if a != b:
            print("MISMATCH", case, environ)
            print(" orig:", a)
            print(" new :", b)
            raise SystemExit(1)
        if isinstance(a[0], tuple):
            kinds[a[0][0]] += 1
        n += 1

    # exhaustive status sweep x body kind x explicit content-length presence
    for status in range(0, 1000):
        for body in (["ab", b"cde"], "iter", ()):
            for hdrs in ([], [("Content-Length", "99")], [("content-length", "7"), ("Content-Type", "x/y"), ("Location", "/n")]):
                for auto_cl in (True, False):
                    case = (status, body, hdrs, (True, auto_cl, False, False))
                    a = observe(OrigResponse, case, ENVIRONS[1])
                    b = observe(Response, case, ENVIRONS[1])
                    if a != b:
                        print("MISMATCH", case)
                        print(" orig:", a)
                        print(" new :", b)
                        raise SystemExit(1)
                    n += 1
    print(f"PASS ({n} cases; random part ok/exc = {kinds})")


if __name__ == "__main__":
    main()
