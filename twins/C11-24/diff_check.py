"""Differential check for refactoring 3 (werkzeug.wsgi._RangeWrapper).

Compares the worktree class against a pasted copy of the original on many
(body, chunking, seekable?, start, length) combinations, and end to end through
Response.make_conditional.
"""
from __future__ import annotations

import io
import random
import typing as t

from werkzeug.test import EnvironBuilder
from werkzeug.wrappers import Response
from werkzeug.wsgi import _RangeWrapper as NewRangeWrapper
from werkzeug.wsgi import FileWrapper


class OrigRangeWrapper:
    # private for now, but should we make it public in the future ?

    """This class can be used to convert an iterable object into
    an iterable that will only yield a piece of the underlying content.
    It yields blocks until the underlying stream range is fully read.
    The yielded blocks will have a size that can't exceed the original
    iterator defined block size, but that can be smaller.

    If you're using this object together with a :class:`Response` you have
    to use the `direct_passthrough` mode.

    :param iterable: an iterable object with a :meth:`__next__` method.
    :param start_byte: byte from which read will start.
    :param byte_range: how many bytes to read.
    """

    def __init__(
        self,
        iterable: t.Iterable[bytes] | t.IO[bytes],
        start_byte: int = 0,
        byte_range: int | None = None,
    ):
        self.iterable = iter(iterable)
        self.byte_range = byte_range
        self.start_byte = start_byte
        self.end_byte = None

        if byte_range is not None:
            self.end_byte = start_byte + byte_range

        self.read_length = 0
        self.seekable = hasattr(iterable, "seekable") and iterable.seekable()
        self.end_reached = False

    def __iter__(self) -> OrigRangeWrapper:
        return self

    def _next_chunk(self) -> bytes:
        try:
            chunk = next(self.iterable)
            self.read_length += len(chunk)
            return chunk
        except StopIteration:
            self.end_reached = True
            raise

    def _first_iteration(self) -> tuple[bytes | None, int]:
        chunk = None
        if self.seekable:
            self.iterable.seek(self.start_byte)  # type: ignore
            self.read_length = self.iterable.tell()  # type: ignore
            contextual_read_length = self.read_length
        else:
            while self.read_length <= self.start_byte:
                chunk = self._next_chunk()
            if chunk is not None:
                chunk = chunk[self.start_byte - self.read_length :]
            contextual_read_length = self.start_byte
        return chunk, contextual_read_length

    def _next(self) -> bytes:
        if self.end_reached:
            raise StopIteration()
        chunk = None
        contextual_read_length = self.read_length
        if self.read_length == 0:
            chunk, contextual_read_length = self._first_iteration()
        if chunk is None:
            chunk = self._next_chunk()
        if self.end_byte is not None and self.read_length >= self.end_byte:
            self.end_reached = True
            return chunk[: self.end_byte - contextual_read_length]
        return chunk

    def __next__(self) -> bytes:
        chunk = self._next()
        if chunk:
            return chunk
        self.end_reached = True
        raise StopIteration()

    def close(self) -> None:
        if hasattr(self.iterable, "close"):
            self.iterable.close()



class Boom(Exception):
    pass


def chunked(data, sizes, fail_at=None):
    pos = 0
    i = 0
    while pos < len(data):
        if fail_at is not None and i == fail_at:
            raise Boom("x")
        n = sizes[i % len(sizes)]
        yield data[pos : pos + n]
        pos += max(n, 0) or 0
        if n == 0:
            # an empty chunk, then go on with one byte
            yield data[pos : pos + 1]
            pos += 1
        i += 1


class Closable:
    def __init__(self, it):
        self.it = iter(it)
        self.closed = 0

    def __iter__(self):
        return self

    def __next__(self):
        return next(self.it)

    def close(self):
        self.closed += 1


def make_source(spec):
    kind, data, sizes, fail_at = spec
    if kind == "gen":
        return chunked(data, sizes, fail_at)
    if kind == "list":
        return list(chunked(data, sizes))
    if kind == "closable":
        return Closable(chunked(data, sizes, fail_at))
    if kind == "file":
        return FileWrapper(io.BytesIO(data), sizes[0] or 1)
    if kind == "rawfile":
        return io.BytesIO(data)
    if kind == "strs":
        return [c.decode("latin1") for c in chunked(data, sizes)]
    if kind == "ints":
        return [1, 2, 3]
    raise AssertionError(kind)


def drive(cls, spec, start, length, extra_next):
    out = []
    try:
        src = make_source(spec)
        w = cls(src, start, length)
    except BaseException as e:  # noqa: B036
        return ("ctor-exc", type(e).__name__)
    out.append(("init", w.start_byte, w.byte_range, w.end_byte, w.read_length, bool(w.seekable), w.end_reached))
    assert iter(w) is w
    steps = 0
    while steps < 500:
        steps += 1
        try:
            c = next(w)
            out.append(("chunk", c, w.read_length, w.end_reached))
        except StopIteration:
            out.append(("stop", w.read_length, w.end_reached))
            if extra_next <= 0:
                break
            extra_next -= 1
        except BaseException as e:  # noqa: B036
            out.append(("exc", type(e).__name__, w.read_length, w.end_reached))
            if extra_next <= 0:
                break
            extra_next -= 1
    try:
        w.close()
        out.append(("closed", getattr(src, "closed", None) if not isinstance(src, list) else None))
    except BaseException as e:  # noqa: B036
        out.append(("close-exc", type(e).__name__))
    return out


def response_case(cls_name, data, sizes, seekable, range_header, method):
    import werkzeug.wsgi as wsgi
    import werkzeug.wrappers.response as wr

    cls = {"orig": OrigRangeWrapper, "new": NewRangeWrapper}[cls_name]
    saved = wr._RangeWrapper
    wr._RangeWrapper = cls
    try:
        if seekable:
            body = FileWrapper(io.BytesIO(data), sizes[0] or 1)
            resp = Response(body, direct_passthrough=True)
        else:
            resp = Response(chunked(data, sizes))
        env = EnvironBuilder(method=method, headers={"Range": range_header}).get_environ()
        try:
            resp.make_conditional(env, accept_ranges=True, complete_length=len(data))
        except BaseException as e:  # noqa: B036
            return ("exc", type(e).__name__)
        it, status, headers = resp.get_wsgi_response(env)
        return (status, sorted(headers), list(it))
    finally:
        wr._RangeWrapper = saved


def main():
    import werkzeug.wrappers.response as wr

    assert wr._RangeWrapper is NewRangeWrapper
    rnd = random.Random(1103)
    bad = 0
    n = 0
    kinds = {}
    for _ in range(12000):
        size = rnd.choice([0, 1, 2, 5, 10, 17, 40, 100])
        data = bytes(rnd.randrange(256) for _ in range(size))
        sizes = rnd.choice([[1], [2], [3], [7], [10], [64], [1, 5, 2], [4, 0, 3], [0], [100, 1]])
        kind = rnd.choice(["gen", "gen", "list", "closable", "file", "file", "rawfile", "strs", "ints"])
        fail_at = rnd.choice([None, None, None, 0, 1, 3])
        spec = (kind, data, sizes, fail_at)
        start = rnd.choice([0, 0, 1, 2, 3, 5, 9, 10, 16, 17, 39, 40, 99, 100, 150, -1, -3])
        length = rnd.choice([None, None, 0, 1, 2, 3, 5, 10, 17, 50, 100, 1000, -2])
        extra = rnd.choice([0, 0, 1, 3])
        a = drive(OrigRangeWrapper, spec, start, length, extra)
        b = drive(NewRangeWrapper, spec, start, length, extra)
        n += 1
        last = a[-2][0] if isinstance(a, list) and len(a) > 1 else a[0]
        kinds[last] = kinds.get(last, 0) + 1
        if a != b:
            bad += 1
            if bad <= 10:
                print("MISMATCH", spec, start, length, a, b)
    # end to end
    for _ in range(3000):
        size = rnd.choice([1, 2, 10, 33, 100])
        data = bytes(rnd.randrange(256) for _ in range(size))
        sizes = rnd.choice([[1], [3], [7], [64], [1, 5, 2]])
        seekable = rnd.random() < 0.5
        x, y = rnd.randrange(0, 120), rnd.randrange(0, 120)
        rh = rnd.choice([f"bytes={x}-{y}", f"bytes={x}-", f"bytes=-{x}", f"bytes={x}-{x}",
                         f"bytes={x}-{y},{y}-", "bytes=junk", f"items={x}-{y}", "bytes=0-"])
        method = rnd.choice(["GET", "GET", "HEAD", "POST"])
        a = response_case("orig", data, sizes, seekable, rh, method)
        b = response_case("new", data, sizes, seekable, rh, method)
        n += 1
        k = a[0]
        kinds[k] = kinds.get(k, 0) + 1
        if a != b:
            bad += 1
            if bad <= 10:
                print("MISMATCH e2e", rh, method, seekable, a, b)
    print("cases", n, "outcomes", kinds)
    print("PASS" if bad == 0 else f"FAIL ({bad})")


if __name__ == "__main__":
    main()
