"""Differential check for refactoring 1 (host_is_trusted / get_host).

Run: cd /tmp/wt12-C20 && PYTHONPATH=/tmp/wt12-C20/src /venv/bin/python /tmp/twin7-C20/1/diff_check.py
"""

from __future__ import annotations

import itertools
import random
import typing as t

from werkzeug.exceptions import SecurityError
from werkzeug.sansio import utils as new_utils
from werkzeug.sansio.request import Request
from werkzeug.datastructures import Headers
from werkzeug.wsgi import get_host as new_wsgi_get_host


# ---------------------------------------------------------------- ORIGINAL
def _strip_port(host: str) -> str:
    if host.startswith("["):
        # Bracketed IPv6 literal, a port can only follow the closing bracket.
        return host[: host.find("]") + 1] or host

    return host.partition(":")[0]


def orig_host_is_trusted(hostname, trusted_list) -> bool:
    if not hostname:
        return False

    try:
        hostname = _strip_port(hostname).encode("idna").decode("ascii")
    except UnicodeError:
        return False

    if isinstance(trusted_list, str):
        trusted_list = [trusted_list]

    for ref in trusted_list:
        if ref.startswith("."):
            ref = ref[1:]
            suffix_match = True
        else:
            suffix_match = False

        try:
            ref = _strip_port(ref).encode("idna").decode("ascii")
        except UnicodeError:
            return False

        if ref == hostname or (suffix_match and hostname.endswith(f".{ref}")):
            return True

    return False


def orig_get_host(scheme, host_header, server=None, trusted_hosts=None) -> str:
    host = ""

    if host_header is not None:
        host = host_header
    elif server is not None:
        host = server[0]

        if ":" in host and host[0] != "[":
            host = f"[{host}]"

        if server[1] is not None:
            host = f"{host}:{server[1]}"

    if scheme in {"http", "ws"} and host.endswith(":80"):
        host = host[:-3]
    elif scheme in {"https", "wss"} and host.endswith(":443"):
        host = host[:-4]

    if trusted_hosts is not None:
        if not orig_host_is_trusted(host, trusted_hosts):
            raise SecurityError(f"Host {host!r} is not trusted.")

    return host


# ---------------------------------------------------------------- helpers
def outcome(f: t.Callable[..., t.Any], *args: t.Any) -> tuple[str, t.Any]:
    try:
        return ("ok", f(*args))
    except BaseException as e:  # noqa: B036
        return ("exc", type(e), str(e))


HOSTS = [
    None,
    "",
    "example.com",
    "EXAMPLE.com",
    "example.com:80",
    "example.com:8080",
    "example.com:",
    "example.com.",
    ".example.com",
    "..example.com",
    "a.example.com",
    "a.b.example.com",
    "a.example.com:443",
    "evilexample.com",
    "notexample.com",
    "example.com.evil.org",
    "example.com@evil.org",
    "xexample.com:80",
    "localhost",
    "localhost:5000",
    "a.localhost",
    "127.0.0.1",
    "127.0.0.1:80",
    "127.0.0.10",
    "1127.0.0.1",
    "[::1]",
    "[::1]:80",
    "[::1]:8080",
    "[::1",
    "::1",
    "[::2]",
    "[]",
    "[",
    "]",
    "[::1]x",
    "x[::1]",
    "b\xfccher.example",
    "xn--bcher-kva.example",
    "a.b\xfccher.example",
    "☃.net",
    "a..b",
    "a" * 64 + ".com",
    "\udcff.com",
    "ex ample.com",
    "example.com\n",
    ":80",
    ":",
    ".",
    "..",
    "com",
    ".com",
    "\x00",
    "exa。mple.com",
    "example．com",
]

REFS = [
    "example.com",
    ".example.com",
    "..example.com",
    "example.com:80",
    ".example.com:8080",
    "EXAMPLE.com",
    "localhost",
    ".localhost",
    "127.0.0.1",
    ".0.0.1",
    "[::1]",
    ".[::1]",
    "[::1]:80",
    "b\xfccher.example",
    ".b\xfccher.example",
    "xn--bcher-kva.example",
    "com",
    ".com",
    ".",
    "",
    "..",
    "a..b",
    ".a..b",
    "a" * 64 + ".com",
    "\udcff.com",
    ":80",
    "evil.org",
    ".evil.org",
]

ALPHABET = list("abE.:[]-1\xfc。") + ["example", "com", "localhost", "::1", ".."]


def rand_host(rnd: random.Random) -> str:
    return "".join(rnd.choice(ALPHABET) for _ in range(rnd.randint(0, 7)))


def main() -> None:
    rnd = random.Random(20)
    n = 0
    bad = 0

    def cmp(label: str, a: t.Any, b: t.Any, args: t.Any) -> None:
        nonlocal n, bad
        n += 1
        if a != b:
            bad += 1
            if bad < 20:
                print("MISMATCH", label, args, a, b)

    # host_is_trusted, fixed corpus: every host against every single ref,
    # every pair of refs, and bare string refs.
    trusted_lists: list[t.Any] = [[], (), "example.com", ".example.com", ""]
    trusted_lists += [[r] for r in REFS]
    trusted_lists += [list(p) for p in itertools.permutations(REFS, 2)][::3]
    trusted_lists += [[1], [None], [b".example.com"], None, 5]

    for host in HOSTS + [b"example.com", 5]:
        for tl in trusted_lists:
            cmp(
                "host_is_trusted",
                outcome(orig_host_is_trusted, host, tl),
                outcome(new_utils.host_is_trusted, host, tl),
                (host, tl),
            )

    # random hosts / refs
    for _ in range(20000):
        host = rand_host(rnd)
        tl = [
            rnd.choice(["", "."]) + rand_host(rnd) for _ in range(rnd.randint(0, 3))
        ]
        if rnd.random() < 0.3 and tl:
            # make a near-match so the True branches are exercised
            base = tl[0].lstrip(".")
            host = rnd.choice(["", "a.", "x", "."]) + base + rnd.choice(["", ":80"])
        cmp(
            "host_is_trusted/rand",
            outcome(orig_host_is_trusted, host, tl),
            outcome(new_utils.host_is_trusted, host, tl),
            (host, tl),
        )

    # generators are consumed identically
    for host in HOSTS:
        cmp(
            "host_is_trusted/gen",
            outcome(orig_host_is_trusted, host, (r for r in REFS)),
            outcome(new_utils.host_is_trusted, host, (r for r in REFS)),
            host,
        )

    # get_host
    servers = [
        None,
        ("example.com", 80),
        ("example.com", 443),
        ("example.com", 8080),
        ("::1", 80),
        ("::1", None),
        ("[::1]", 5000),
        ("/tmp/sock", None),
        ("", None),
        ("", 80),
    ]
    schemes = ["http", "https", "ws", "wss", "ftp", ""]
    ths: list[t.Any] = [None, [], ["example.com"], [".example.com"], ["[::1]"], ""]
    ths += [[r] for r in REFS[::3]]

    for scheme in schemes:
        for hh in HOSTS:
            for server in servers:
                for th in ths:
                    args = (scheme, hh, server, th)
                    cmp(
                        "get_host",
                        outcome(orig_get_host, *args),
                        outcome(new_utils.get_host, *args),
                        args,
                    )

    # request level + wsgi wrapper
    for hh in HOSTS:
        for th in ths:
            headers = Headers()
            if hh is not None:
                try:
                    headers.add("Host", hh)
                except ValueError:
                    continue

            def req_host() -> str:
                r = Request(
                    "GET", "http", ("srv.example", 80), "", "/", b"", headers, None
                )
                r.trusted_hosts = th
                return r.host

            cmp(
                "Request.host",
                outcome(orig_get_host, "http", headers.get("host"), ("srv.example", 80), th),
                outcome(req_host),
                (hh, th),
            )
            environ = {
                "wsgi.url_scheme": "https",
                "SERVER_NAME": "srv.example",
                "SERVER_PORT": "443",
            }
            if hh is not None:
                environ["HTTP_HOST"] = hh
            cmp(
                "wsgi.get_host",
                outcome(orig_get_host, "https", hh, ("srv.example", 443), th),
                outcome(new_wsgi_get_host, environ, th),
                (hh, th),
            )

    print(f"{n} comparisons, {bad} mismatches")
    print("PASS" if bad == 0 and n > 5000 else "FAIL")


if __name__ == "__main__":
    main()
