"""Differential check for refactoring 3 (CombinedMultiDict.get / _keys_impl /
__contains__).

OrigCombined overrides the touched methods with the ORIGINAL code; both classes
wrap the same randomly generated dicts and every read is compared (results,
iteration order of key sets included, and exception types).
"""
import random

from werkzeug.datastructures import CombinedMultiDict
from werkzeug.datastructures import ImmutableMultiDict
from werkzeug.datastructures import MultiDict


class OrigCombined(CombinedMultiDict):
    def get(self, key, default=None, type=None):
        for d in self.dicts:
            if key in d:
                if type is not None:
                    try:
                        return type(d[key])
                    except (ValueError, TypeError):
                        continue
                return d[key]
        return default

    def _keys_impl(self):
        return set(k for d in self.dicts for k in d)

    def __contains__(self, key):
        for d in self.dicts:
            if key in d:
                return True
        return False


KEYS = ["a", "b", "c", "A", 1, 2, (1, 2), None, "zz", "k5", "k6", "k7"]
VALS = ["1", "2", "x", "", "3.5", 4, None, [1], "0x10", b"7"]
BADKEYS = [[1], {}]


def boom(v):
    raise KeyError(v)


def maybe_int(v):
    return int(v)


TYPES = [None, int, float, str, maybe_int, boom, len, list, 5]
DEFAULTS = [None, "dflt", 0]


def rdict(r):
    pairs = [(r.choice(KEYS), r.choice(VALS)) for _ in range(r.randrange(0, 6))]
    kind = r.randrange(4)
    if kind == 0:
        return MultiDict(pairs)
    if kind == 1:
        return ImmutableMultiDict(pairs)
    if kind == 2:
        md = MultiDict(pairs)
        if pairs:
            md.setlist(pairs[0][0], [])  # key present with empty list
        return md
    return MultiDict(dict(pairs))


def call(f, *a, **kw):
    try:
        return ("ok", repr(f(*a, **kw)))
    except Exception as e:  # noqa: B902
        return ("exc", type(e).__name__)


def observe(c, r_seed):
    r = random.Random(r_seed)
    out = []
    for key in KEYS + BADKEYS:
        out.append(call(c.__contains__, key))
        out.append(call(lambda k=key: k in c))
        out.append(call(c.get, key))
        out.append(call(c.__getitem__, key))
        out.append(call(c.getlist, key))
        for _ in range(3):
            ty = r.choice(TYPES)
            df = r.choice(DEFAULTS)
            out.append(call(c.get, key, df, ty))
            out.append(call(c.get, key, type=ty))
            out.append(call(c.get, key, default=df))
    out.append(call(lambda: list(c)))
    out.append(call(lambda: list(c.keys())))
    out.append(call(lambda: type(c.keys()).__name__))
    out.append(call(lambda: type(c._keys_impl()).__name__))
    out.append(call(lambda: list(c._keys_impl())))
    out.append(call(len, c))
    out.append(call(lambda: list(c.items())))
    out.append(call(lambda: list(c.items(multi=True))))
    out.append(call(lambda: list(c.values())))
    out.append(call(lambda: list(c.lists())))
    out.append(call(lambda: list(c.listvalues())))
    out.append(call(lambda: c.to_dict()))
    out.append(call(lambda: c.to_dict(flat=False)))
    out.append(call(lambda: c.copy()))
    out.append(call(lambda: c == MultiDict(c)))
    out.append(call(lambda: bool(c)))
    return out


def main():
    r = random.Random(8308)
    n = 0
    for _ in range(2500):
        dicts = [rdict(r) for _ in range(r.randrange(0, 5))]
        if r.random() < 0.1:
            dicts.append(CombinedMultiDict([rdict(r)]))
        seed = r.random()
        a = observe(CombinedMultiDict(dicts), seed)
        b = observe(OrigCombined(dicts), seed)
        b = [(s, v.replace("OrigCombined", "CombinedMultiDict")) for s, v in b]
        if a != b:
            print("FAIL", dicts)
            for x, y in zip(a, b):
                if x != y:
                    print(x, y)
            return
        n += len(a)
    print(f"PASS ({n} observations)")


if __name__ == "__main__":
    main()
