"""Differential check for property C09 refactorings.

Compares the worktree implementation of

    werkzeug.wsgi.LimitedStream (readinto / readall / exhaust / on_exhausted /
    on_disconnect), werkzeug.wsgi.get_input_stream and
    werkzeug.sansio.utils.get_content_length

against a verbatim copy of the ORIGINAL implementation (pasted below) on
randomly generated streams / environs / call sequences.  For every scenario the
results of each call (value or exception type), the final position and the full
log of calls made on the underlying ``wsgi.input`` object must be identical.

Run: cd /tmp/wt13-C09 && PYTHONPATH=/tmp/wt13-C09/src /venv/bin/python diff_check.py
"""

from __future__ import annotations

import io
import random
import sys
import typing as t

from werkzeug import wsgi as new_wsgi
from werkzeug._internal import _plain_int
from werkzeug.exceptions import ClientDisconnected
from werkzeug.exceptions import RequestEntityTooLarge
from werkzeug.sansio import utils as new_sansio

assert new_wsgi.__file__.startswith("/tmp/wt13-C09/"), new_wsgi.__file__

# --------------------------------------------------------------------------------------
# ORIGINAL implementation (verbatim copy from the unmodified tree)
# --------------------------------------------------------------------------------------


def orig_sansio_get_content_length(
    http_content_length: str | None = None,
    http_transfer_encoding: str | None = None,
) -> int | None:
    if http_transfer_encoding == "chunked" or http_content_length is None:
        return None

    try:
        return max(0, _plain_int(http_content_length))
    except ValueError:
        return 0


def orig_get_content_length(environ) -> int | None:
    return orig_sansio_get_content_length(
        http_content_length=environ.get("CONTENT_LENGTH"),
        http_transfer_encoding=environ.get("HTTP_TRANSFER_ENCODING"),
    )


class OrigLimitedStream(io.RawIOBase):
    def __init__(self, stream: t.IO[bytes], limit: int, is_max: bool = False) -> None:
        self._stream = stream
        self._pos = 0
        self.limit = limit
        self._limit_is_max = is_max

    @property
    def is_exhausted(self) -> bool:
        """Whether the current stream position has reached the limit."""
        return self._pos >= self.limit

    def on_exhausted(self) -> None:
        if self._limit_is_max:
            raise RequestEntityTooLarge()

    def on_disconnect(self, error: Exception | None = None) -> None:
        if not self._limit_is_max or error is not None:
            raise ClientDisconnected()

        # If the limit is a maximum, then we may have read zero bytes because the
        # streaming body is complete. There's no way to distinguish that from the
        # client disconnecting early.

    def exhaust(self) -> bytes:
        if not self.is_exhausted:
            return self.readall()

        return b""

    def readinto(self, b: bytearray) -> int | None:  # type: ignore[override]
        size = len(b)
        remaining = self.limit - self._pos

        if remaining <= 0:
            self.on_exhausted()
            return 0

        if hasattr(self._stream, "readinto"):
            # Use stream.readinto if it's available.
            if size <= remaining:
                # The size fits in the remaining limit, use the buffer directly.
                try:
                    out_size: int | None = self._stream.readinto(b)
                except (OSError, ValueError) as e:
                    self.on_disconnect(error=e)
                    return 0
            else:
                # Use a temp buffer with the remaining limit as the size.
                temp_b = bytearray(remaining)

                try:
                    out_size = self._stream.readinto(temp_b)
                except (OSError, ValueError) as e:
                    self.on_disconnect(error=e)
                    return 0

                if out_size:
                    b[:out_size] = temp_b[:out_size]
        else:
            # WSGI requires that stream.read is available.
            try:
                data = self._stream.read(min(size, remaining))
            except (OSError, ValueError) as e:
                self.on_disconnect(error=e)
                return 0

            out_size = len(data)
            b[:out_size] = data

        if not out_size:
            # Read zero bytes from the stream.
            self.on_disconnect()
            return 0

        self._pos += out_size
        return out_size

    def readall(self) -> bytes:
        if self.is_exhausted:
            self.on_exhausted()
            return b""

        out = bytearray()

        # The parent implementation uses "while True", which results in an extra read.
        while not self.is_exhausted:
            data = self.read(1024 * 64)

            # Stream may return empty before a max limit is reached.
            if not data:
                break

            out.extend(data)

        return bytes(out)

    def tell(self) -> int:
        return self._pos

    def readable(self) -> bool:
        return True


def orig_get_input_stream(
    environ,
    safe_fallback: bool = True,
    max_content_length: int | None = None,
) -> t.IO[bytes]:
    stream = t.cast(t.IO[bytes], environ["wsgi.input"])
    content_length = orig_get_content_length(environ)

    if content_length is not None and max_content_length is not None:
        if content_length > max_content_length:
            raise RequestEntityTooLarge()

    # A WSGI server can set this to indicate that it terminates the input stream. In
    # that case the stream is safe without wrapping, or can enforce a max length.
    if "wsgi.input_terminated" in environ:
        if max_content_length is not None:
            # If this is moved above, it can cause the stream to hang if a read attempt
            # is made when the client sends no data. For example, the development server
            # does not handle buffering except for chunked encoding.
            return t.cast(
                t.IO[bytes], OrigLimitedStream(stream, max_content_length, is_max=True)
            )

        return stream

    # No limit given, return an empty stream unless the user explicitly allows the
    # potentially infinite stream. An infinite stream is dangerous if it's not expected,
    # as it can tie up a worker indefinitely.
    if content_length is None:
        return io.BytesIO() if safe_fallback else stream

    return t.cast(t.IO[bytes], OrigLimitedStream(stream, content_length))


# --------------------------------------------------------------------------------------
# Underlying "server" streams.  All of them log every call so that the exact pattern of
# consumption from the server's input can be compared.
# --------------------------------------------------------------------------------------


class _Base:
    """Deterministic fake ``wsgi.input``.

    ``frag`` is a list of maximum fragment sizes (cycled); ``fail_at`` makes the
    n-th call raise ``fail_exc``; ``none_at`` makes the n-th readinto return None;
    ``over`` makes ``read`` return more than requested (misbehaving server).
    """

    def __init__(self, data, frag, fail_at, fail_exc, none_at, over):
        self.data = data
        self.pos = 0
        self.frag = frag
        self.fail_at = fail_at
        self.fail_exc = fail_exc
        self.none_at = none_at
        self.over = over
        self.calls = 0
        self.log: list[tuple] = []

    def _take(self, n):
        self.calls += 1

        if self.fail_at is not None and self.calls == self.fail_at:
            self.log.append(("raise", n, self.fail_exc.__name__))
            raise self.fail_exc("boom")

        if self.frag:
            n = min(n, self.frag[(self.calls - 1) % len(self.frag)])

        chunk = self.data[self.pos : self.pos + n]
        self.pos += len(chunk)
        return chunk


class ReadOnlyStream(_Base):
    """Only has ``read`` (the minimum WSGI requires)."""

    def read(self, n=-1):
        if n is None or n < 0:
            n = len(self.data)

        want = n + self.over if self.over else n
        chunk = self._take(want)
        self.log.append(("read", n, len(chunk)))
        return chunk


class ReadIntoStream(_Base):
    """Has both ``read`` and ``readinto``."""

    def read(self, n=-1):
        if n is None or n < 0:
            n = len(self.data)

        chunk = self._take(n)
        self.log.append(("read", n, len(chunk)))
        return chunk

    def readinto(self, b):
        if self.none_at is not None and self.calls + 1 == self.none_at:
            self.calls += 1
            self.log.append(("readinto", len(b), None))
            return None

        chunk = self._take(len(b))
        b[: len(chunk)] = chunk
        self.log.append(("readinto", len(b), len(chunk)))
        return len(chunk)


FAIL_EXCS = [OSError, ValueError, ConnectionResetError, RuntimeError, KeyError, EOFError]


def make_spec(rng: random.Random):
    n = rng.choice([0, 0, 1, 2, 5, 17, 64, 200, 1000, 3000])

    if rng.random() < 0.04:
        # more than one 64k block, so that readall loops
        n = rng.choice([70000, 140000])

    alphabet = rng.choice([b"ab\n", b"abcdefgh\n\r", bytes(range(256))])
    data = bytes(rng.choice(alphabet) for _ in range(min(n, 300)))

    if n > 300:
        data = (data * (n // 300 + 1))[:n]

    kind = rng.choice(["bytesio", "readonly", "readinto", "readinto"])
    frag = None

    if rng.random() < 0.6:
        # keep the number of underlying calls bounded for the big bodies
        sizes = [1, 2, 3, 7, 50, 1000, 65536] if n <= 1000 else [999, 4096, 65536]
        frag = [rng.choice(sizes) for _ in range(rng.randint(1, 5))]

    fail_at = rng.randint(1, 6) if rng.random() < 0.25 else None
    fail_exc = rng.choice(FAIL_EXCS)
    none_at = rng.randint(1, 4) if rng.random() < 0.1 else None
    over = rng.choice([1, 5]) if rng.random() < 0.05 else 0
    return dict(
        kind=kind,
        data=data,
        frag=frag,
        fail_at=fail_at,
        fail_exc=fail_exc,
        none_at=none_at,
        over=over,
    )


def build_stream(spec):
    if spec["kind"] == "bytesio":
        return io.BytesIO(spec["data"])

    cls = ReadOnlyStream if spec["kind"] == "readonly" else ReadIntoStream
    return cls(
        spec["data"],
        spec["frag"],
        spec["fail_at"],
        spec["fail_exc"],
        spec["none_at"],
        spec["over"],
    )


def stream_state(stream):
    if isinstance(stream, io.BytesIO):
        return ("bytesio", stream.tell())

    return (type(stream).__name__, stream.pos, tuple(stream.log))


# --------------------------------------------------------------------------------------
# Operations
# --------------------------------------------------------------------------------------


def make_ops(rng: random.Random):
    ops = []

    for _ in range(rng.randint(1, 8)):
        name = rng.choice(
            [
                "read",
                "read",
                "read_all",
                "read_none",
                "readline",
                "readline_n",
                "readlines",
                "readlines_hint",
                "readinto",
                "readinto_mv",
                "next",
                "iter_all",
                "exhaust",
                "readall",
                "tell",
                "is_exhausted",
                "read1",
            ]
        )
        arg = rng.choice([0, 1, 2, 3, 5, 10, 16, 100, 1024, 8192, 65536, 100000])
        ops.append((name, arg))

    return ops


def apply_op(obj, name, arg):
    if name == "read":
        return obj.read(arg)
    if name == "read_all":
        return obj.read(-1)
    if name == "read_none":
        return obj.read()
    if name == "readline":
        return obj.readline()
    if name == "readline_n":
        return obj.readline(arg)
    if name == "readlines":
        return obj.readlines()
    if name == "readlines_hint":
        return obj.readlines(arg)
    if name == "readinto":
        buf = bytearray(arg)
        n = obj.readinto(buf)
        return (n, bytes(buf))
    if name == "readinto_mv":
        buf = bytearray(arg + 3)
        n = obj.readinto(memoryview(buf)[3:])
        return (n, bytes(buf))
    if name == "next":
        return next(obj)
    if name == "iter_all":
        return list(obj)
    if name == "exhaust":
        if hasattr(obj, "exhaust"):
            return obj.exhaust()
        return "n/a"
    if name == "readall":
        if hasattr(obj, "readall"):
            return obj.readall()
        return "n/a"
    if name == "tell":
        try:
            return obj.tell()
        except AttributeError:
            return "n/a"
    if name == "is_exhausted":
        return getattr(obj, "is_exhausted", "n/a")
    if name == "read1":
        if hasattr(obj, "read1"):
            return obj.read1(arg)
        return "n/a"
    raise AssertionError(name)


def run_ops(obj, ops):
    out = []

    for name, arg in ops:
        try:
            out.append(("ok", name, arg, apply_op(obj, name, arg)))
        except BaseException as e:  # noqa: B036
            if isinstance(e, (KeyboardInterrupt, SystemExit)):
                raise
            out.append(("exc", name, arg, type(e).__name__))

    return out


# --------------------------------------------------------------------------------------
# Subclasses overriding the hooks (documented extension points)
# --------------------------------------------------------------------------------------


def quiet_subclass(base):
    class Quiet(base):
        hook_log: list

        def on_exhausted(self):
            self.__dict__.setdefault("hook_log", []).append("exhausted")

        def on_disconnect(self, error=None):
            self.__dict__.setdefault("hook_log", []).append(
                ("disconnect", type(error).__name__)
            )

    return Quiet


def logging_subclass(base):
    class Logging(base):
        def on_exhausted(self):
            self.__dict__.setdefault("hook_log", []).append("exhausted")
            return super().on_exhausted()

        def on_disconnect(self, error=None):
            self.__dict__.setdefault("hook_log", []).append(
                ("disconnect", type(error).__name__)
            )
            return super().on_disconnect(error=error)

    return Logging


VARIANTS = {
    "plain": lambda base: base,
    "quiet": quiet_subclass,
    "logging": logging_subclass,
}
ORIG_CLASSES = {k: f(OrigLimitedStream) for k, f in VARIANTS.items()}
NEW_CLASSES = {k: f(new_wsgi.LimitedStream) for k, f in VARIANTS.items()}


# --------------------------------------------------------------------------------------
# Checks
# --------------------------------------------------------------------------------------

failures = 0
counts = {"limited": 0, "input_stream": 0, "content_length": 0, "hooks": 0}


def fail(msg):
    global failures
    failures += 1

    if failures <= 10:
        print("MISMATCH:", msg)


def limited_scenario(rng, classes, spec, limit, is_max, variant, buffered, ops):
    raw = build_stream(spec)
    ls = classes[variant](raw, limit, is_max)
    obj = io.BufferedReader(ls, buffered) if buffered else ls
    res = run_ops(obj, ops)
    return (
        res,
        ls._pos,
        ls.is_exhausted,
        ls.__dict__.get("hook_log"),
        stream_state(raw),
    )


def check_limited(rng):
    spec = make_spec(rng)
    n = len(spec["data"])
    limit = rng.choice(
        [0, 1, n, n, max(n - 1, 0), n + 1, n // 2, n + 100, n * 2, rng.randint(0, n + 5)]
    )
    is_max = rng.random() < 0.5
    variant = rng.choice(["plain", "plain", "plain", "quiet", "logging"])
    buffered = rng.choice([0, 0, 1, 7, 64, 8192])
    ops = make_ops(rng)
    a = limited_scenario(rng, ORIG_CLASSES, spec, limit, is_max, variant, buffered, ops)
    b = limited_scenario(rng, NEW_CLASSES, spec, limit, is_max, variant, buffered, ops)
    counts["limited"] += 1

    if a != b:
        fail(
            f"LimitedStream spec={ {k: v for k, v in spec.items() if k != 'data'} }"
            f" len={n} limit={limit} is_max={is_max} variant={variant}"
            f" buffered={buffered} ops={ops}\n  orig={a!r:.600}\n  new ={b!r:.600}"
        )


def check_hooks(rng):
    """Call the hooks directly with all kinds of arguments."""
    is_max = rng.random() < 0.5
    err = rng.choice([None, OSError("x"), ValueError("y"), RuntimeError("z"), 0, ""])
    res = []

    for cls in (OrigLimitedStream, new_wsgi.LimitedStream):
        ls = cls(io.BytesIO(b"abc"), rng.randint(0, 5), is_max)
        r = []

        for call in (
            lambda: ls.on_exhausted(),
            lambda: ls.on_disconnect(),
            lambda: ls.on_disconnect(err),
            lambda: ls.on_disconnect(error=err),
        ):
            try:
                r.append(("ok", call()))
            except Exception as e:
                r.append(("exc", type(e).__name__, getattr(e, "code", None)))

        res.append(r)

    counts["hooks"] += 1

    if res[0] != res[1]:
        fail(f"hooks is_max={is_max} err={err!r}: {res}")


CL_VALUES = [
    None,
    "",
    " ",
    "0",
    "1",
    "5",
    "17",
    "64",
    "200",
    "1000",
    "-0",
    "-1",
    "-30",
    "+5",
    "1_0",
    "abc",
    "1.0",
    "0x10",
    " 7 ",
    "7\n",
    "\t12",
    "١٢",
    "²",
    "10 0",
    "5,5",
    "99999999999999999999",
    "9" * 5000,
    "--1",
    "1-",
]
TE_VALUES = [None, None, "chunked", "Chunked", "gzip", "", "gzip, chunked", " chunked"]


def check_content_length(rng):
    cl = rng.choice(CL_VALUES)
    te = rng.choice(TE_VALUES)

    if rng.random() < 0.3:
        cl = str(rng.randint(-5, 100000))

    if rng.random() < 0.1:
        cl = rng.choice([" ", "-", "+", ""]) + str(rng.randint(0, 50)) + rng.choice(
            ["", " ", "_", "a"]
        )

    r = []

    for f in (orig_sansio_get_content_length, new_sansio.get_content_length):
        for call in (
            lambda: f(cl, te),
            lambda: f(http_content_length=cl, http_transfer_encoding=te),
            lambda: f(cl),
            lambda: f(http_transfer_encoding=te),
            lambda: f(),
        ):
            try:
                v = call()
                r.append(("ok", type(v).__name__, v))
            except Exception as e:
                r.append(("exc", type(e).__name__))

    counts["content_length"] += 1
    half = len(r) // 2

    if r[:half] != r[half:]:
        fail(f"get_content_length cl={cl!r} te={te!r}: {r}")


def describe_stream(result, raw, limited_cls):
    if result is raw:
        return ("raw",)

    if isinstance(result, limited_cls):
        return (
            "limited",
            result._stream is raw,
            result.limit,
            result._limit_is_max,
            result._pos,
        )

    if type(result) is io.BytesIO:
        return ("empty", result.getvalue())

    return ("other", type(result).__name__)


def input_stream_scenario(
    get_input_stream, limited_cls, spec, environ_items, kwargs, ops, buffered
):
    raw = build_stream(spec)
    environ = dict(environ_items)

    if environ.pop("__has_input__"):
        environ["wsgi.input"] = raw

    try:
        result = get_input_stream(environ, **kwargs)
    except Exception as e:
        return ("exc", type(e).__name__, getattr(e, "code", None), stream_state(raw))

    desc = describe_stream(result, raw, limited_cls)
    obj = result

    if buffered and isinstance(result, io.RawIOBase):
        obj = io.BufferedReader(result, buffered)

    res = run_ops(obj, ops)
    return ("ok", desc, res, stream_state(raw))


def check_input_stream(rng):
    spec = make_spec(rng)
    n = len(spec["data"])
    environ: dict[str, t.Any] = {"__has_input__": rng.random() < 0.97}
    cl = rng.choice(CL_VALUES)

    if rng.random() < 0.5:
        cl = str(rng.choice([0, n, n, max(n - 1, 0), n + 1, n // 2, n + 50]))

    if cl is not None:
        environ["CONTENT_LENGTH"] = cl

    te = rng.choice(TE_VALUES)

    if te is not None:
        environ["HTTP_TRANSFER_ENCODING"] = te

    if rng.random() < 0.4:
        environ["wsgi.input_terminated"] = rng.choice([True, False, None, 0, 1])

    kwargs: dict[str, t.Any] = {}

    if rng.random() < 0.6:
        kwargs["safe_fallback"] = rng.choice([True, False, 0, 1, None])

    if rng.random() < 0.6:
        kwargs["max_content_length"] = rng.choice(
            [None, 0, 1, n, max(n - 1, 0), n + 1, n // 2, 10, 1000, 10**9]
        )

    ops = make_ops(rng)
    buffered = rng.choice([0, 0, 5, 8192])
    items = tuple(environ.items())
    a = input_stream_scenario(
        orig_get_input_stream, OrigLimitedStream, spec, items, kwargs, ops, buffered
    )
    b = input_stream_scenario(
        new_wsgi.get_input_stream,
        new_wsgi.LimitedStream,
        spec,
        items,
        kwargs,
        ops,
        buffered,
    )
    counts["input_stream"] += 1

    if a != b:
        fail(
            f"get_input_stream environ={environ} kwargs={kwargs} len={n}"
            f" kind={spec['kind']} ops={ops}\n  orig={a!r:.600}\n  new ={b!r:.600}"
        )


def check_wsgi_content_length(rng):
    environ = {}
    cl = rng.choice(CL_VALUES)
    te = rng.choice(TE_VALUES)

    if cl is not None:
        environ["CONTENT_LENGTH"] = cl

    if te is not None:
        environ["HTTP_TRANSFER_ENCODING"] = te

    if orig_get_content_length(environ) != new_wsgi.get_content_length(environ):
        fail(f"wsgi.get_content_length {environ}")


def main():
    rng = random.Random(20240909)

    for _ in range(12000):
        check_limited(rng)

    for _ in range(6000):
        check_input_stream(rng)

    for _ in range(6000):
        check_content_length(rng)
        check_wsgi_content_length(rng)

    # exhaustive over the small pools as well
    for cl in CL_VALUES:
        for te in TE_VALUES:
            a = orig_sansio_get_content_length(cl, te)
            b = new_sansio.get_content_length(cl, te)

            if a != b or type(a) is not type(b):
                fail(f"get_content_length exhaustive {cl!r} {te!r}: {a!r} {b!r}")

    for _ in range(500):
        check_hooks(rng)

    print("scenarios:", counts)

    if failures:
        print(f"FAIL ({failures} mismatches)")
        sys.exit(1)

    print("PASS")


if __name__ == "__main__":
    main()
