"""Differential check for refactoring 1 (werkzeug.http.parse_range_header).

Run: cd /tmp/wt12-C11 && PYTHONPATH=/tmp/wt12-C11/src /venv/bin/python /tmp/twin7-C11/1/diff_check.py
"""

from __future__ import annotations

import itertools
import random

from werkzeug import datastructures as ds
from werkzeug._internal import _plain_int
from werkzeug.http import parse_range_header as new_parse_range_header


def orig_parse_range_header(value, make_inclusive=True):
    # verbatim copy of the implementation on the unmodified tree
    if not value or "=" not in value:
        return None

    ranges = []
    last_end = 0
    units, rng = value.split("=", 1)
    units = units.strip().lower()

    for item in rng.split(","):
        item = item.strip()
        if "-" not in item:
            return None
        if item.startswith("-"):
            if last_end < 0:
                return None
            try:
                begin = _plain_int(item)
            except ValueError:
                return None
            end = None
            last_end = -1
        elif "-" in item:
            begin_str, end_str = item.split("-", 1)
            begin_str = begin_str.strip()
            end_str = end_str.strip()

            try:
                begin = _plain_int(begin_str)
            except ValueError:
                return None

            if begin < last_end or last_end < 0:
                return None
            if end_str:
                if end_str.startswith("-"):
                    # _plain_int accepts a sign, a position does not have one
                    return None

                try:
                    end = _plain_int(end_str) + 1
                except ValueError:
                    return None

                if begin >= end:
                    return None
            else:
                end = None
            last_end = end if end is not None else -1
        ranges.append((begin, end))

    return ds.Range(units, ranges)


def run(fn, value):
    try:
        rv = fn(value)
    except Exception as e:  # noqa: BLE001
        return ("exc", type(e).__name__, str(e))
    if rv is None:
        return ("none",)
    out = [("range", rv.units, list(rv.ranges), rv.to_header())]
    for length in (None, 0, 1, 5, 10, 100, 1000):
        try:
            out.append(
                (
                    rv.range_for_length(length),
                    rv.to_content_range_header(length),
                )
            )
        except Exception as e:  # noqa: BLE001
            out.append(("exc", type(e).__name__))
    return tuple(out)


rnd = random.Random(1107)
NUMS = ["0", "1", "2", "5", "9", "10", "99", "100", "0005", "12345678901234567890"]
ODD = [
    "",
    " ",
    "\t",
    "+1",
    "1_0",
    "-",
    "--",
    "-0",
    "-1",
    "--1",
    "1-",
    "a",
    "١",  # arabic-indic digit one
    "１",  # fullwidth digit one
    "\xa0",
    " ",
    "1 ",
    " 1",
    "1 0",
    "9" * 4400,  # over the int max str digits limit
]


def gen_item():
    k = rnd.random()
    n = lambda: rnd.choice(NUMS) if rnd.random() < 0.85 else rnd.choice(ODD)  # noqa: E731
    sp = lambda: rnd.choice(["", "", "", " ", "\t", "  ", "\xa0"])  # noqa: E731
    if k < 0.35:
        return f"{sp()}{n()}{sp()}-{sp()}{n()}{sp()}"
    if k < 0.5:
        return f"{sp()}{n()}{sp()}-{sp()}"
    if k < 0.65:
        return f"{sp()}-{sp()}{n()}{sp()}"
    if k < 0.72:
        return f"{n()}-{n()}-{n()}"
    if k < 0.78:
        return f"{n()}--{n()}"
    if k < 0.84:
        return f"-{n()}-{n()}"
    if k < 0.9:
        return n()
    return "".join(rnd.choice("0123456789-, =+_\ta") for _ in range(rnd.randint(0, 8)))


def gen_value():
    k = rnd.random()
    if k < 0.03:
        return rnd.choice([None, "", "bytes", "=", "bytes=", "=0-1", "bytes==0-1"])
    units = rnd.choice(["bytes", "bytes", "bytes", "Bytes ", " BYTES", "items", "", " "])
    eq = "=" if rnd.random() < 0.97 else rnd.choice(["", "==", " = "])
    if k < 0.12:
        # sorted, well-formed multi ranges
        pts = sorted(rnd.sample(range(0, 200), rnd.randint(2, 8)))
        items = [f"{a}-{b}" for a, b in zip(pts[::2], pts[1::2])]
        if rnd.random() < 0.3:
            items.append(rnd.choice(["-5", "300-", "-0", "-"]))
        if rnd.random() < 0.2:
            rnd.shuffle(items)
        return units + eq + rnd.choice([",", ", ", " ,"]).join(items)
    items = [gen_item() for _ in range(rnd.choice([1, 1, 1, 2, 2, 3, 4]))]
    return units + eq + ",".join(items)


def main():
    values = [gen_value() for _ in range(60000)]
    # exhaustive short strings over a small alphabet
    for n in range(0, 6):
        for tup in itertools.product("01-, ", repeat=n):
            values.append("bytes=" + "".join(tup))
    # small-number exhaustive pairs / triples
    small = ["", "0", "1", "2", "3"]
    for a, b, c, d in itertools.product(small, repeat=4):
        values.append(f"bytes={a}-{b},{c}-{d}")
        values.append(f"bytes={a}-{b}, -{c}")
        values.append(f"bytes=-{a},{c}-{d}")

    bad = 0
    parsed = 0
    for v in values:
        a = run(orig_parse_range_header, v)
        b = run(new_parse_range_header, v)
        if a[0][0] == "range":
            parsed += 1
        if a != b:
            bad += 1
            if bad < 10:
                print("MISMATCH", repr(v)[:120], a[:1], b[:1])
    print(f"{len(values)} inputs, {parsed} parsed to a Range, {bad} mismatches")
    print("PASS" if bad == 0 else "FAIL")


if __name__ == "__main__":
    main()
