"""Differential check for refactoring 2 (check_pin_trust / pin_auth).

Run: cd /tmp/wt12-C20 && PYTHONPATH=/tmp/wt12-C20/src /venv/bin/python /tmp/twin7-C20/2/diff_check.py

The ORIGINAL methods are pasted below into a subclass; the refactored ones are
the methods of werkzeug.debug.DebuggedApplication from the worktree.
"""

from __future__ import annotations

import itertools
import json
import random
import time
import typing as t
from unittest import mock

import werkzeug.debug as dbg
from werkzeug.debug import DebuggedApplication
from werkzeug.debug import hash_pin
from werkzeug.debug import PIN_TIME
from werkzeug.exceptions import SecurityError
from werkzeug.http import parse_cookie
from werkzeug.test import EnvironBuilder
from werkzeug.wrappers import Request
from werkzeug.wrappers import Response


# ---------------------------------------------------------------- ORIGINAL
class OrigDebuggedApplication(DebuggedApplication):
    def check_pin_trust(self, environ) -> bool | None:
        if self.pin is None:
            return True
        val = parse_cookie(environ).get(self.pin_cookie_name)
        if not val or "|" not in val:
            return False
        ts_str, pin_hash = val.split("|", 1)

        try:
            ts = int(ts_str)
        except ValueError:
            return False

        if pin_hash != hash_pin(self.pin):
            return None
        return (time.time() - PIN_TIME) < ts

    def pin_auth(self, request: Request) -> Response:
        """Authenticates with the pin."""
        if not self.check_host_trust(request.environ):
            return SecurityError()  # type: ignore[return-value]

        exhausted = False
        auth = False
        trust = self.check_pin_trust(request.environ)
        pin = t.cast(str, self.pin)

        bad_cookie = False
        if trust is None:
            self._fail_pin_auth()
            bad_cookie = True

        # If we're trusted, we're authenticated.
        elif trust:
            auth = True

        # If we failed too many times, then we're locked out.
        elif self._failed_pin_auth.value > 10:
            exhausted = True

        # Otherwise go through pin based authentication
        else:
            entered_pin = request.args["pin"]

            if entered_pin.strip().replace("-", "") == pin.replace("-", ""):
                self._failed_pin_auth.value = 0
                auth = True
            else:
                self._fail_pin_auth()

        rv = Response(
            json.dumps({"auth": auth, "exhausted": exhausted}),
            mimetype="application/json",
        )
        if auth:
            rv.set_cookie(
                self.pin_cookie_name,
                f"{int(time.time())}|{hash_pin(pin)}",
                httponly=True,
                samesite="Strict",
                secure=request.is_secure,
            )
        elif bad_cookie:
            rv.delete_cookie(self.pin_cookie_name)
        return rv


# the refactored tree must really be the one under test
assert "check_pin_trust" in DebuggedApplication.__dict__
assert "pin_auth" in DebuggedApplication.__dict__

NOW = 1_800_000_000.25
PIN = "123-456-789"
SECRET = "s3cr3t"
COOKIE_NAME = "__wzdtest"


def inner_app(environ, start_response):
    start_response("200 OK", [("Content-Type", "text/plain")])
    return [b"inner"]


def make(cls: type[DebuggedApplication], pin: str | None, failed: int):
    app = cls(inner_app, evalex=True, pin_security=True)
    app.secret = SECRET
    app._pin = pin
    app._pin_cookie = COOKIE_NAME
    app._failed_pin_auth.value = failed
    app.trusted_hosts = [".localhost", "127.0.0.1", "debug.example"]
    return app


def norm(rv: t.Any) -> t.Any:
    if isinstance(rv, Response):
        return ("response", rv.status, sorted(rv.headers.to_wsgi_list()), rv.get_data())
    if isinstance(rv, Exception):
        return ("excobj", type(rv), getattr(rv, "code", None), str(rv))
    return ("value", rv)


def run(f: t.Callable[[], t.Any], app: DebuggedApplication) -> t.Any:
    sleeps: list[float] = []
    with (
        mock.patch.object(time, "sleep", sleeps.append),
        mock.patch.object(time, "time", lambda: NOW),
    ):
        try:
            out = ("ok", norm(f()))
        except BaseException as e:  # noqa: B036
            out = ("raised", type(e), str(e))
    return (out, tuple(sleeps), app._failed_pin_auth.value)


def cookie_values(pin: str | None) -> list[str | None]:
    good = hash_pin(pin) if pin is not None else hash_pin(PIN)
    edge = int(NOW - PIN_TIME)
    ts_list = [
        str(int(NOW)),
        str(edge),
        str(edge + 1),
        str(edge - 1),
        "0",
        "-5",
        " 12 ",
        "+1799999999",
        "1_900_000_000",
        "١٩٠٠٠٠٠٠٠٠",
        "1e9",
        "",
        "abc",
        "9" * 30,
    ]
    hashes = [good, good + "x", good[:-1], "", "|" + good, good + "|", hash_pin("other")]
    vals: list[str | None] = [None, "", "|", "||", "nopipe", good, str(int(NOW))]
    vals += [f"{ts}|{h}" for ts in ts_list for h in hashes]
    return vals


HOSTS = [
    "localhost",
    "localhost:5000",
    "a.localhost",
    "127.0.0.1",
    "debug.example",
    "evil.example",
    "xlocalhost",
    "debug.example.evil.org",
    "",
    None,
]

PIN_ARGS = [
    None,
    PIN,
    "123456789",
    " 123-456-789 ",
    "1-2-3-4-5-6-7-8-9",
    "123-456-780",
    "",
    "-",
    "123 456 789",
]


def build_environ(host, cookie, pin_arg, scheme="http", extra_query=""):
    query = f"__debugger__=yes&cmd=pinauth&s={SECRET}{extra_query}"
    if pin_arg is not None:
        from urllib.parse import quote

        query += "&pin=" + quote(pin_arg)
    b = EnvironBuilder(path="/", query_string=query, base_url=f"{scheme}://localhost/")
    env = b.get_environ()
    env.pop("HTTP_HOST", None)
    if host is not None:
        env["HTTP_HOST"] = host
    if cookie is not None:
        env["HTTP_COOKIE"] = f"other=1; {COOKIE_NAME}={cookie}; z=2"
    return env


def wsgi_call(app, env):
    captured: list[t.Any] = []

    def start_response(status, headers, exc_info=None):
        captured.append((status, sorted(headers)))

    body = b"".join(app(env, start_response))
    return ("wsgi", tuple(captured), body)


def main() -> None:
    rnd = random.Random(2020)
    n = bad = 0

    def compare(label, pin, failed, env_args, how):
        nonlocal n, bad
        results = []
        for cls in (OrigDebuggedApplication, DebuggedApplication):
            app = make(cls, pin, failed)
            env = build_environ(*env_args)
            if how == "check_pin_trust":
                f = lambda: app.check_pin_trust(env)  # noqa: E731
            elif how == "pin_auth":
                f = lambda: app.pin_auth(Request(env))  # noqa: E731
            else:
                f = lambda: wsgi_call(app, env)  # noqa: E731
            results.append(run(f, app))
        n += 1
        if results[0] != results[1]:
            bad += 1
            if bad < 15:
                print("MISMATCH", label, pin, failed, env_args, how)
                print("   orig:", results[0])
                print("   new: ", results[1])

    # 1. check_pin_trust over the whole cookie corpus, pin set / unset
    for pin in (PIN, None, "", "other-pin"):
        for cookie in cookie_values(pin):
            compare("cpt", pin, 0, ("localhost", cookie, None), "check_pin_trust")

    # 2. pin_auth: cookie x failed counter x entered pin x host
    cookies_small = [
        None,
        "",
        "nopipe",
        f"{int(NOW)}|{hash_pin(PIN)}",
        f"{int(NOW - PIN_TIME) - 1}|{hash_pin(PIN)}",
        f"{int(NOW - PIN_TIME)}|{hash_pin(PIN)}",
        f"{int(NOW)}|{hash_pin('other')}",
        f"abc|{hash_pin(PIN)}",
        f"|{hash_pin(PIN)}",
        f"{int(NOW)}|",
    ]
    faileds = [0, 1, 5, 6, 7, 9, 10, 11, 12, 50]
    for cookie, failed, pin_arg, host in itertools.product(
        cookies_small, faileds, PIN_ARGS, ["localhost:5000", "evil.example", None]
    ):
        compare("pa", PIN, failed, (host, cookie, pin_arg), "pin_auth")

    # pin switched off (self.pin is None) -> trusted path
    for cookie, failed, pin_arg, host in itertools.product(
        cookies_small[:5], [0, 11], PIN_ARGS[:3], HOSTS
    ):
        compare("pa/nopin", None, failed, (host, cookie, pin_arg), "pin_auth")

    # https -> secure cookie flag
    for cookie, failed, pin_arg in itertools.product(
        cookies_small, [0, 11], PIN_ARGS[:4]
    ):
        compare("pa/https", PIN, failed, ("localhost", cookie, pin_arg, "https"), "pin_auth")

    # 3. full dispatch through __call__
    for cookie, failed, pin_arg, host in itertools.product(
        cookies_small, [0, 6, 10, 11], PIN_ARGS[:6], HOSTS
    ):
        compare("call", PIN, failed, (host, cookie, pin_arg), "call")

    # 4. random
    all_cookies = cookie_values(PIN)
    for _ in range(3000):
        compare(
            "rand",
            rnd.choice([PIN, PIN, PIN, None, "x"]),
            rnd.randint(0, 14),
            (
                rnd.choice(HOSTS),
                rnd.choice(all_cookies),
                rnd.choice(PIN_ARGS),
                rnd.choice(["http", "https"]),
            ),
            rnd.choice(["pin_auth", "call", "check_pin_trust"]),
        )

    # 5. a sequence of attempts on ONE app instance each (stateful lock-out):
    #    wrong pins until exhausted, then the correct pin must still be refused.
    for seq_seed in range(200):
        r = random.Random(seq_seed)
        steps = [
            (
                r.choice(["localhost", "localhost", "evil.example"]),
                r.choice(cookies_small),
                r.choice(PIN_ARGS),
            )
            for _ in range(r.randint(5, 25))
        ]
        traces = []
        for cls in (OrigDebuggedApplication, DebuggedApplication):
            app = make(cls, PIN, 0)
            trace = []
            for step in steps:
                env = build_environ(*step)
                trace.append(run(lambda: app.pin_auth(Request(env)), app))  # noqa: B023
            traces.append(trace)
        n += len(steps)
        if traces[0] != traces[1]:
            bad += 1
            print("MISMATCH seq", seq_seed)

    print(f"{n} comparisons, {bad} mismatches")
    print("PASS" if bad == 0 and n > 5000 else "FAIL")


if __name__ == "__main__":
    main()
