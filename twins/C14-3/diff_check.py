"""Differential check for refactoring 3 (SharedDataMiddleware: _lookup helper
extracted from __call__, get_directory_loader restructured).

Run: cd /tmp/wt3-C14 && PYTHONPATH=/tmp/wt3-C14/src /venv/bin/python /tmp/twin-C14/3/diff_check.py
"""
import itertools
import mimetypes
import os
import random
import shutil
import sys
import tempfile
from time import time

from werkzeug.http import http_date
from werkzeug.http import is_resource_modified
from werkzeug.middleware.shared_data import SharedDataMiddleware
from werkzeug.security import safe_join
from werkzeug.utils import get_content_type
from werkzeug.wsgi import get_path_info
from werkzeug.wsgi import wrap_file


class OrigSharedDataMiddleware(SharedDataMiddleware):
    """The two touched methods, verbatim from the unmodified tree."""

    def get_directory_loader(self, directory):
        def loader(path):
            if path is not None:
                path = safe_join(directory, path)

                if path is None:
                    return None, None
            else:
                path = directory

            if os.path.isfile(path):
                return os.path.basename(path), self._opener(path)

            return None, None

        return loader

    def __call__(self, environ, start_response):
        path = get_path_info(environ)
        file_loader = None

        for search_path, loader in self.exports:
            if search_path == path:
                real_filename, file_loader = loader(None)

                if file_loader is not None:
                    break

            if not search_path.endswith("/"):
                search_path += "/"

            if path.startswith(search_path):
                real_filename, file_loader = loader(path[len(search_path) :])

                if file_loader is not None:
                    break

        if file_loader is None or not self.is_allowed(real_filename):  # type: ignore
            return self.app(environ, start_response)

        guessed_type = mimetypes.guess_type(real_filename)  # type: ignore
        mime_type = get_content_type(guessed_type[0] or self.fallback_mimetype, "utf-8")
        f, mtime, file_size = file_loader()

        headers = [("Date", http_date())]

        if self.cache:
            timeout = self.cache_timeout
            etag = self.generate_etag(mtime, file_size, real_filename)  # type: ignore
            headers += [
                ("Etag", f'"{etag}"'),
                ("Cache-Control", f"max-age={timeout}, public"),
            ]

            if not is_resource_modified(environ, etag, last_modified=mtime):
                f.close()
                start_response("304 Not Modified", headers)
                return []

            headers.append(("Expires", http_date(time() + timeout)))
        else:
            headers.append(("Cache-Control", "public"))

        headers.extend(
            (
                ("Content-Type", mime_type),
                ("Content-Length", str(file_size)),
                ("Last-Modified", http_date(mtime)),
            )
        )
        start_response("200 OK", headers)
        return wrap_file(environ, f)


def fallback_app(environ, start_response):
    start_response("404 NOT FOUND", [("X-Fallback", "1")])
    return [b"fallback:" + environ.get("PATH_INFO", "").encode("latin-1", "replace")]


def call(mw, path_info, extra=None):
    environ = {
        "REQUEST_METHOD": "GET",
        "PATH_INFO": path_info,
        "SCRIPT_NAME": "",
        "SERVER_NAME": "localhost",
        "SERVER_PORT": "80",
        "wsgi.url_scheme": "http",
    }
    environ.update(extra or {})
    seen = {}

    def start_response(status, headers, exc_info=None):
        seen["status"] = status
        # Date / Expires depend on the wall clock: compare presence only
        seen["headers"] = [
            (k, v if k not in ("Date", "Expires") else "<time>") for k, v in headers
        ]

    try:
        it = mw(environ, start_response)
        body = b"".join(it)
        if hasattr(it, "close"):
            it.close()
        return ("ok", seen.get("status"), seen.get("headers"), body)
    except BaseException as e:  # noqa: BLE001
        return ("exc", type(e))


def loader_result(loader, arg):
    try:
        name, opener = loader(arg)
        if opener is None:
            return ("ok", name, None)
        f, mtime, size = opener()
        try:
            data = f.read()
        finally:
            f.close()
        return ("ok", name, (data, mtime, size))
    except BaseException as e:  # noqa: BLE001
        return ("exc", type(e))


ATOMS = ["..", ".", "", "a.txt", "sub", "secret.txt", "\\", "\x00", "inner.css",
         "//", "%2e%2e", "..a", "index.html", "nofile", "pkgdata.txt", "single.txt"]


def gen_paths(rnd):
    prefixes = ["", "/", "/static", "/static/", "/pkg", "/pkg/", "/one", "/one/",
                "/staticx", "/s", "/static//", "/deep/er", "/deep/er/", "static"]
    seen = set()
    for pre in prefixes:
        seen.add(pre)
        for n in (1, 2, 3):
            for combo in itertools.product(ATOMS[:11], repeat=n):
                seen.add(pre + "/" + "/".join(combo))
                seen.add(pre + "/".join(combo))
    paths = sorted(seen)
    rnd.shuffle(paths)
    paths = paths[:5000]
    alphabet = "./\\\x00a-_ stticpkgone"
    for _ in range(2500):
        paths.append(rnd.choice(prefixes) + "".join(rnd.choice(alphabet) for _ in range(rnd.randint(0, 10))))
    # hand-picked hits
    paths += ["/static/a.txt", "/static/sub/inner.css", "/static/sub/../a.txt",
              "/static/../secret.txt", "/static/sub/../../secret.txt", "/static//a.txt",
              "/static/./a.txt", "/static/sub", "/static/sub/", "/one", "/one/", "/one/x",
              "/pkg/pkgdata.txt", "/pkg/../secret.txt", "/pkg/nofile", "/deep/er/a.txt",
              "/static/index.html", "/static/\x00", "/static/..\\secret.txt"]
    return paths


def main():
    rnd = random.Random(1403)
    root = tempfile.mkdtemp(prefix="twinC14_")
    try:
        static = os.path.join(root, "static")
        os.makedirs(os.path.join(static, "sub"))
        for rel, data in {
            "static/a.txt": b"A",
            "static/index.html": b"<html>",
            "static/sub/inner.css": b"css{}",
            "static/..a": b"dot-dot-a",
            "secret.txt": b"SECRET",
            "single.txt": b"single",
            "twinpkg14/__init__.py": b"",
            "twinpkg14/data/pkgdata.txt": b"pkg",
        }.items():
            p = os.path.join(root, rel)
            os.makedirs(os.path.dirname(p), exist_ok=True)
            with open(p, "wb") as fh:
                fh.write(data)
        sys.path.insert(0, root)

        def exports_variants():
            yield {"/static": static, "/pkg": ("twinpkg14", "data"),
                   "/one": os.path.join(root, "single.txt"), "/deep/er": static}
            yield [("/static/", static), ("/static", os.path.join(root, "single.txt")),
                   ("/", static)]
            yield [("", static)]
            yield []
            yield [("/static", os.path.join(root, "missing-dir")), ("/static", static)]
            yield {"/static": static + "/", "/pkg/": ("twinpkg14", "data")}

        paths = gen_paths(rnd)
        total = bad = 0
        for exports in exports_variants():
            for kw in ({}, {"cache": False}, {"disallow": "*.css"}, {"disallow": "a*"}):
                new = SharedDataMiddleware(fallback_app, exports, **kw)
                old = OrigSharedDataMiddleware(fallback_app, exports, **kw)
                for path in paths:
                    total += 1
                    a = call(old, path)
                    b = call(new, path)
                    if a != b:
                        bad += 1
                        if bad <= 10:
                            print("MISMATCH call", exports, kw, repr(path), a, b)
                # conditional requests (304 branch unchanged, but driven through _lookup)
                for path in ("/static/a.txt", "/one", "/pkg/pkgdata.txt"):
                    first = call(new, path)
                    if first[0] == "ok" and first[2]:
                        etag = dict(first[2]).get("Etag")
                        if etag:
                            extra = {"HTTP_IF_NONE_MATCH": etag}
                            total += 1
                            if call(old, path, extra) != call(new, path, extra):
                                bad += 1
                                print("MISMATCH 304", path)

        # loader-level comparison, including odd argument types
        new = SharedDataMiddleware(fallback_app, {})
        old = OrigSharedDataMiddleware(fallback_app, {})
        dirs = [static, static + "/", root, "", ".", os.path.join(root, "single.txt"),
                os.path.join(root, "missing"), None, b"/tmp", 3]
        args = [None, "", ".", "..", "a.txt", "sub/inner.css", "../secret.txt", "sub/../a.txt",
                "/etc/passwd", "\x00", "a\x00b", "..a", b"a.txt", 3, "sub", "//a.txt"]
        args += ["/".join(c) for c in itertools.product(ATOMS, repeat=2)]
        for d in dirs:
            ln = new.get_directory_loader(d)
            lo = old.get_directory_loader(d)
            for arg in args:
                total += 1
                a = loader_result(lo, arg)
                b = loader_result(ln, arg)
                if a != b:
                    bad += 1
                    if bad <= 10:
                        print("MISMATCH loader", repr(d), repr(arg), a, b)

        # non-str export keys: exception parity
        for key in (None, b"/static", 3):
            for path in ("/static/a.txt", "", "/"):
                total += 1
                a = call(OrigSharedDataMiddleware(fallback_app, [(key, static)]), path)
                b = call(SharedDataMiddleware(fallback_app, [(key, static)]), path)
                if a != b:
                    bad += 1
                    print("MISMATCH key", key, path, a, b)

        print(f"{total} inputs, {bad} mismatches")
        print("PASS" if bad == 0 and total >= 3000 else "FAIL")
    finally:
        sys.path.remove(root)
        shutil.rmtree(root, ignore_errors=True)


if __name__ == "__main__":
    main()
