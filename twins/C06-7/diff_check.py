"""Differential check for refactoring 1 (C06).

Compares the refactored werkzeug.http.parse_content_range_header and
werkzeug.datastructures.ContentRange.to_header (imported from the worktree)
against verbatim copies of the ORIGINAL implementations pasted below.

Run: cd /tmp/wt9-C06 && PYTHONPATH=/tmp/wt9-C06/src /venv/bin/python /tmp/twin5-C06/1/diff_check.py
"""

from __future__ import annotations

import random
import sys

from werkzeug import datastructures as ds
from werkzeug import http
from werkzeug._internal import _plain_int
from werkzeug.http import is_byte_range_valid


# ---------------------------------------------------------------- ORIGINALS
def orig_parse_content_range_header(value, on_update=None):
    if value is None:
        return None
    try:
        units, rangedef = (value or "").strip().split(None, 1)
    except ValueError:
        return None

    if "/" not in rangedef:
        return None
    rng, length_str = rangedef.split("/", 1)
    if length_str == "*":
        length = None
    else:
        try:
            length = _plain_int(length_str)
        except ValueError:
            return None

    if rng == "*":
        if not is_byte_range_valid(None, None, length):
            return None

        return ds.ContentRange(units, None, None, length, on_update=on_update)
    elif "-" not in rng:
        return None

    start_str, stop_str = rng.split("-", 1)
    try:
        start = _plain_int(start_str)
        stop = _plain_int(stop_str) + 1
    except ValueError:
        return None

    if is_byte_range_valid(start, stop, length):
        return ds.ContentRange(units, start, stop, length, on_update=on_update)

    return None


def orig_to_header(self):
    if self._units is None:
        return ""
    if self._length is None:
        length = "*"
    else:
        length = self._length
    if self._start is None:
        return f"{self._units} */{length}"
    return f"{self._units} {self._start}-{self._stop - 1}/{length}"


# ---------------------------------------------------------------- helpers
def run(fn, *args, **kwargs):
    try:
        return ("ok", fn(*args, **kwargs))
    except BaseException as e:  # noqa: B036
        return ("exc", type(e))


def norm_cr(res, calls):
    kind, v = res
    if kind == "ok" and isinstance(v, ds.ContentRange):
        v = ("CR", v._units, v._start, v._stop, v._length, v.on_update is not None)
    return (kind, v, len(calls))


rnd = random.Random(60601)
NUMS = ["0", "1", "2", "9", "10", "99", "100", "-1", "-0", "+1", "1_0", " 5", "5 ",
        "", "*", "x", "١", "1.0", "1e3", "00", "007", "18446744073709551616"]
UNITS = ["bytes", "Bytes", "items", "b", "", "bytes=", "a/b", "a-b"]
SEPS = [" ", "  ", "\t", "\n", ""]
ALPHA = "0123456789-/* \tbytes=,;x+_"


def gen_value():
    r = rnd.random()
    if r < 0.03:
        return rnd.choice([None, "", " ", "bytes", "bytes ", " bytes */*", "*/*", "bytes */*"])
    if r < 0.25:
        return "".join(rnd.choice(ALPHA) for _ in range(rnd.randint(0, 14)))
    num = lambda: rnd.choice(NUMS) if rnd.random() < 0.5 else str(rnd.randint(0, 30))  # noqa: E731
    unit = rnd.choice(UNITS)
    sep = rnd.choice(SEPS)
    shape = rnd.randint(0, 7)
    if shape == 0:
        body = f"{num()}-{num()}/{num()}"
    elif shape == 1:
        body = f"*/{num()}"
    elif shape == 2:
        body = f"{num()}-{num()}/*"
    elif shape == 3:
        body = f"{num()}-{num()}"
    elif shape == 4:
        body = f"{num()}/{num()}"
    elif shape == 5:
        body = f"{num()}-{num()}-{num()}/{num()}/{num()}"
    elif shape == 6:
        body = f"{num()} - {num()} / {num()}"
    else:
        body = f"*/*{rnd.choice(['', ' ', '/', '-'])}"
    pad_l = rnd.choice(["", " ", "\t"])
    pad_r = rnd.choice(["", " ", "\r\n"])
    return f"{pad_l}{unit}{sep}{body}{pad_r}"


failures = 0
n = 0

# 1) parser
for _ in range(40000):
    v = gen_value()
    for with_cb in (False, True):
        calls_a: list = []
        calls_b: list = []
        cb_a = calls_a.append if with_cb else None
        cb_b = calls_b.append if with_cb else None
        a = norm_cr(run(orig_parse_content_range_header, v, cb_a), calls_a)
        b = norm_cr(run(http.parse_content_range_header, v, cb_b), calls_b)
        n += 1
        if a != b:
            failures += 1
            if failures < 10:
                print("MISMATCH parse", repr(v), a, b)

# non-str inputs: exception types must agree too
for v in [0, 1, b"bytes 0-1/2", b"", [], ["bytes 0-1/2"], 1.5, object()]:
    a = norm_cr(run(orig_parse_content_range_header, v), [])
    b = norm_cr(run(http.parse_content_range_header, v), [])
    n += 1
    if a != b:
        failures += 1
        print("MISMATCH parse non-str", repr(v), a, b)

# 2) serialiser, on arbitrary internal states (also ones `set` would reject)
VALS = [None, 0, 1, 2, 5, 10, -1, 100, "7", 2.5]
for _ in range(20000):
    cr = ds.ContentRange("bytes", None, None, None)
    cr._units = rnd.choice([None, "bytes", "items", "", 0])
    cr._start = rnd.choice(VALS)
    cr._stop = rnd.choice(VALS)
    cr._length = rnd.choice(VALS)
    a = run(orig_to_header, cr)
    b = run(ds.ContentRange.to_header, cr)
    c = run(str, cr)
    n += 1
    if a != b or a != c:
        failures += 1
        if failures < 10:
            print("MISMATCH to_header", vars(cr), a, b, c)

# 3) round trip through both implementations on valid values
for _ in range(10000):
    length = rnd.choice([None, rnd.randint(0, 50)])
    if rnd.random() < 0.3:
        start = stop = None
    else:
        start = rnd.randint(0, 40)
        stop = start + rnd.randint(1, 10)
        if length is not None and start >= length:
            length = start + rnd.randint(1, 20)
    cr = ds.ContentRange(rnd.choice(["bytes", "items"]), start, stop, length)
    h_a = orig_to_header(cr)
    h_b = cr.to_header()
    p_a = norm_cr(run(orig_parse_content_range_header, h_a), [])
    p_b = norm_cr(run(http.parse_content_range_header, h_b), [])
    n += 1
    if h_a != h_b or p_a != p_b or p_b[1][1:5] != (cr.units, cr.start, cr.stop, cr.length):
        failures += 1
        if failures < 10:
            print("MISMATCH roundtrip", h_a, h_b, p_a, p_b)

print(f"{n} comparisons, {failures} mismatches")
print("PASS" if failures == 0 else "FAIL")
sys.exit(0 if failures == 0 else 1)
