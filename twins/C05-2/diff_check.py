"""Differential check for refactoring 2
(Response.get_app_iter and wsgi.ClosingIterator.__init__).

Run with the refactored worktree on the path:
    cd /tmp/wt3-C05 && PYTHONPATH=/tmp/wt3-C05/src /venv/bin/python /tmp/twin-C05/2/diff_check.py

The ORIGINAL ClosingIterator and get_app_iter are pasted below and compared
with the worktree versions on generated inputs.  Every observable is recorded
as a trace (result type, body chunks, order/number of close calls, exception
types, aliasing of the callbacks list).  Prints PASS only if all traces match.
"""

from __future__ import annotations

import random
import sys
import typing as t
from functools import partial
from http import HTTPStatus

from werkzeug.wrappers import Response
from werkzeug.wsgi import ClosingIterator as NewClosingIterator


# --------------------------------------------------------------------------
# ORIGINAL implementations (verbatim copies from the unmodified tree)
# --------------------------------------------------------------------------
class OrigClosingIterator:
    def __init__(self, iterable, callbacks=None) -> None:
        iterator = iter(iterable)
        self._next = t.cast(t.Callable[[], bytes], partial(next, iterator))
        if callbacks is None:
            callbacks = []
        elif callable(callbacks):
            callbacks = [callbacks]
        else:
            callbacks = list(callbacks)
        iterable_close = getattr(iterable, "close", None)
        if iterable_close:
            callbacks.insert(0, iterable_close)
        self._callbacks = callbacks

    def __iter__(self):
        return self

    def __next__(self) -> bytes:
        return self._next()

    def close(self) -> None:
        for callback in self._callbacks:
            callback()


def orig_get_app_iter(self, environ):
    ClosingIterator = OrigClosingIterator
    status = self.status_code
    if (
        environ["REQUEST_METHOD"] == "HEAD"
        or 100 <= status < 200
        or status in (204, 304)
    ):
        iterable: t.Iterable[bytes] = ()
    elif self.direct_passthrough:
        return self.response  # type: ignore
    else:
        iterable = self.iter_encoded()
    return ClosingIterator(iterable, self.close)


def new_get_app_iter(self, environ):
    return Response.get_app_iter(self, environ)


def tname(obj) -> str:
    n = type(obj).__name__
    return "ClosingIterator" if n == "OrigClosingIterator" else n


# --------------------------------------------------------------------------
# part A: Response.get_app_iter
# --------------------------------------------------------------------------
class LoggedBody:
    """Iterable with its own close() that records calls."""

    def __init__(self, chunks, log, close_raises=False):
        self.chunks = list(chunks)
        self.log = log
        self.close_raises = close_raises

    def __iter__(self):
        self.log.append("body.iter")
        for c in self.chunks:
            self.log.append("body.yield")
            yield c

    def close(self):
        self.log.append("body.close")
        if self.close_raises:
            raise RuntimeError("close failed")


class NoCloseBody:
    def __init__(self, chunks, log):
        self.chunks = list(chunks)
        self.log = log

    def __iter__(self):
        self.log.append("nc.iter")
        return iter(self.chunks)


STATUSES = (
    [100, 101, 103, 150, 199, 200, 201, 203, 204, 205, 206, 299, 300, 301, 302]
    + [304, 305, 400, 404, 500, 599, 0, 99, 600, -1]
    + ["204 NO CONTENT", "304", "200 OK", "wat", "150 x"]
    + [HTTPStatus.NO_CONTENT, HTTPStatus.NOT_MODIFIED, HTTPStatus.CONTINUE, HTTPStatus.OK]
)
METHODS = ["GET", "HEAD", "POST", "head", "Head", "OPTIONS", "DELETE", "", None, "MISSING"]


def gen_resp_case(rng):
    return {
        "body_kind": rng.choice(
            ["none", "str", "bytes", "list", "tuple", "mixed", "gen", "logged", "logged_raise", "noclose", "iter"]
        ),
        "chunks": [
            rng.choice([b"", b"a", b"hello", b"\xff", "s", "hé", "☃" * rng.randint(0, 5)])
            for _ in range(rng.randint(0, 5))
        ],
        "status": rng.choice(STATUSES),
        "force_code": rng.choice([None, None, None, 204, 304, 100, 199, 200, 99]),
        "method": rng.choice(METHODS),
        "passthrough": rng.random() < 0.4,
        "n_callbacks": rng.randint(0, 3),
        "cb_raises": rng.random() < 0.1,
        "make_sequence": rng.random() < 0.15,
        "consume": rng.choice(["all", "none", "one", "partial"]),
        "closes": rng.choice([0, 1, 1, 1, 2]),
    }


def run_resp(fn, case):
    log: list[str] = []
    kind, chunks = case["body_kind"], case["chunks"]
    bchunks = [c if isinstance(c, bytes) else c.encode() for c in chunks]

    def gen():
        log.append("gen.start")
        try:
            for c in chunks:
                yield c
        finally:
            log.append("gen.finally")

    if kind == "none":
        body = None
    elif kind == "str":
        body = "".join(c for c in chunks if isinstance(c, str))
    elif kind == "bytes":
        body = b"".join(bchunks)
    elif kind == "list":
        body = list(bchunks)
    elif kind == "tuple":
        body = tuple(bchunks)
    elif kind == "mixed":
        body = list(chunks)
    elif kind == "gen":
        body = gen()
    elif kind == "logged":
        body = LoggedBody(chunks, log)
    elif kind == "logged_raise":
        body = LoggedBody(chunks, log, close_raises=True)
    elif kind == "noclose":
        body = NoCloseBody(chunks, log)
    else:
        body = iter(chunks)

    trace: list = []
    try:
        resp = Response(body, status=case["status"], direct_passthrough=case["passthrough"])
        if case["force_code"] is not None:
            resp._status_code = case["force_code"]
        for i in range(case["n_callbacks"]):

            def cb(i=i):
                log.append(f"cb{i}")
                if case["cb_raises"] and i == 0:
                    raise KeyError("cb")

            resp.call_on_close(cb)
        if case["make_sequence"]:
            resp.make_sequence()
        environ = {"REQUEST_METHOD": case["method"], "wsgi.url_scheme": "http"}
        if case["method"] == "MISSING":
            del environ["REQUEST_METHOD"]
        out = fn(resp, environ)
    except Exception as e:  # noqa: BLE001
        trace.append(("EXC-setup/call", type(e).__name__, str(e)))
        trace.append(list(log))
        return trace

    trace.append(("type", tname(out), out is resp.response))
    if tname(out) == "ClosingIterator":
        trace.append(("ncb", type(out._callbacks).__name__, len(out._callbacks)))
        trace.append(("iter-self", iter(out) is out))
    log.append("--returned--")

    got = []
    try:
        it = iter(out)
        if case["consume"] == "all":
            got = list(it)
        elif case["consume"] == "one":
            got = [next(it)]
        elif case["consume"] == "partial":
            for _ in range(2):
                got.append(next(it))
    except Exception as e:  # noqa: BLE001
        trace.append(("EXC-iter", type(e).__name__))
    trace.append(("chunks", got))
    log.append("--consumed--")

    for _ in range(case["closes"]):
        close = getattr(out, "close", None)
        if close is None:
            trace.append("no-close-attr")
            continue
        try:
            close()
        except Exception as e:  # noqa: BLE001
            trace.append(("EXC-close", type(e).__name__))
        log.append("--closed--")
    trace.append(list(log))
    return trace


# --------------------------------------------------------------------------
# part B: ClosingIterator directly
# --------------------------------------------------------------------------
class FalsyCallable:
    def __init__(self, log, tag):
        self.log, self.tag = log, tag

    def __bool__(self):
        return False

    def __call__(self):
        self.log.append(self.tag)


class CallableIterable:
    """Both callable and iterable: callable() wins in both versions."""

    def __init__(self, log):
        self.log = log

    def __call__(self):
        self.log.append("ci.call")

    def __iter__(self):
        self.log.append("ci.iter")
        return iter([])


class WithCloseAttr:
    def __init__(self, chunks, close):
        self.chunks = chunks
        self.close = close

    def __iter__(self):
        return iter(self.chunks)


def gen_ci_case(rng):
    return {
        "iterable": rng.choice(
            ["list", "tuple", "gen", "logged", "noclose", "close_none", "close_falsy", "close_zero", "noniter", "str", "file"]
        ),
        "chunks": [rng.choice([b"", b"a", b"bc"]) for _ in range(rng.randint(0, 4))],
        "callbacks": rng.choice(
            ["omit", "none", "func", "list", "empty_list", "tuple", "gen", "set1", "int", "callable_obj", "callable_iterable", "list_with_noncallable", "raising_iter", "dict"]
        ),
        "n": rng.randint(0, 4),
        "raise_at": rng.choice([None, None, None, 0, 1]),
        "nexts": rng.randint(0, 6),
        "closes": rng.choice([0, 1, 1, 2]),
    }


def run_ci(cls, case):
    import io

    log: list[str] = []
    chunks = list(case["chunks"])
    kind = case["iterable"]

    def gen():
        try:
            yield from chunks
        finally:
            log.append("gen.finally")

    if kind == "list":
        iterable = chunks
    elif kind == "tuple":
        iterable = tuple(chunks)
    elif kind == "gen":
        iterable = gen()
    elif kind == "logged":
        iterable = LoggedBody(chunks, log)
    elif kind == "noclose":
        iterable = NoCloseBody(chunks, log)
    elif kind == "close_none":
        iterable = WithCloseAttr(chunks, None)
    elif kind == "close_falsy":
        iterable = WithCloseAttr(chunks, FalsyCallable(log, "falsy.close"))
    elif kind == "close_zero":
        iterable = WithCloseAttr(chunks, 0)
    elif kind == "noniter":
        iterable = 42
    elif kind == "str":
        iterable = "abc"
    else:
        iterable = io.BytesIO(b"l1\nl2\n")

    def mk(i):
        def cb():
            log.append(f"cb{i}")
            if case["raise_at"] == i:
                raise ValueError("boom")

        return cb

    funcs = [mk(i) for i in range(case["n"])]
    original_funcs = list(funcs)
    ck = case["callbacks"]
    passed: t.Any
    if ck in ("omit", "none"):
        passed = None
    elif ck == "func":
        passed = mk(99)
    elif ck == "list":
        passed = funcs
    elif ck == "empty_list":
        passed = []
    elif ck == "tuple":
        passed = tuple(funcs)
    elif ck == "gen":
        passed = (f for f in funcs)
    elif ck == "set1":
        passed = set(funcs[:1])
    elif ck == "int":
        passed = 5
    elif ck == "callable_obj":
        passed = FalsyCallable(log, "callable_obj")
    elif ck == "callable_iterable":
        passed = CallableIterable(log)
    elif ck == "list_with_noncallable":
        passed = funcs + [None]
    elif ck == "dict":
        passed = {f: 1 for f in funcs}
    else:

        def raising():
            yield from funcs[:1]
            raise OSError("iter failed")

        passed = raising()

    trace: list = []
    try:
        obj = cls(iterable) if ck == "omit" else cls(iterable, passed)
    except Exception as e:  # noqa: BLE001
        trace.append(("EXC-init", type(e).__name__, str(e)))
        trace.append(list(log))
        return trace

    trace.append(
        (
            "callbacks",
            type(obj._callbacks).__name__,
            len(obj._callbacks),
            obj._callbacks is passed,
            obj._callbacks is funcs,
            funcs == original_funcs,  # caller's list must not be mutated
            [funcs.index(c) if c in funcs else -1 for c in obj._callbacks],
        )
    )
    trace.append(("iter-self", iter(obj) is obj))
    for _ in range(case["nexts"]):
        try:
            trace.append(("next", next(obj)))
        except StopIteration:
            trace.append("stop")
        except Exception as e:  # noqa: BLE001
            trace.append(("EXC-next", type(e).__name__))
    for _ in range(case["closes"]):
        try:
            obj.close()
        except Exception as e:  # noqa: BLE001
            trace.append(("EXC-close", type(e).__name__, str(e)))
        log.append("--closed--")
    trace.append(list(log))
    return trace


def main() -> int:
    import werkzeug

    assert werkzeug.__file__.startswith("/tmp/wt3-C05/src/"), werkzeug.__file__
    rng = random.Random(0xC05_2)
    bad = 0
    stats = {"resp": 0, "resp_closing": 0, "resp_pass": 0, "resp_exc": 0, "ci": 0, "ci_exc": 0}

    for i in range(10000):
        case = gen_resp_case(rng)
        a = run_resp(orig_get_app_iter, case)
        b = run_resp(new_get_app_iter, case)
        stats["resp"] += 1
        if a[0][0] == "type":
            stats["resp_closing" if a[0][1] == "ClosingIterator" else "resp_pass"] += 1
        else:
            stats["resp_exc"] += 1
        if a != b:
            bad += 1
            if bad <= 5:
                print("MISMATCH resp", i, case, a, b, sep="\n  ")

    for i in range(10000):
        case = gen_ci_case(rng)
        a = run_ci(OrigClosingIterator, case)
        b = run_ci(NewClosingIterator, case)
        stats["ci"] += 1
        if a[0][0] == "EXC-init":
            stats["ci_exc"] += 1
        if a != b:
            bad += 1
            if bad <= 5:
                print("MISMATCH ci", i, case, a, b, sep="\n  ")

    print(f"stats={stats} mismatches={bad}")
    ok = (
        bad == 0
        and stats["resp_closing"] > 2000
        and stats["resp_pass"] > 500
        and stats["resp_exc"] > 0
        and stats["ci_exc"] > 100
    )
    print("PASS" if ok else "FAIL")
    return 0 if ok else 1


if __name__ == "__main__":
    sys.exit(main())
