"""Differential check for refactoring 3 (fallback-to-default helpers):
  werkzeug._internal._DictAccessorProperty.__get__
  werkzeug._internal._plain_int
  werkzeug.datastructures.TypeConversionDict.get

Each refactored function of the worktree is compared against a verbatim copy of
the ORIGINAL implementation.  Compared: returned value (type + repr + identity
where the original returns a stored/default object), raised exception type.
"""
import random
import re

import werkzeug._internal as internal
from werkzeug._internal import _DictAccessorProperty
from werkzeug._internal import _plain_int
from werkzeug.datastructures import EnvironHeaders
from werkzeug.datastructures import Headers
from werkzeug.datastructures import ImmutableMultiDict
from werkzeug.datastructures import MultiDict
from werkzeug.datastructures import TypeConversionDict
from werkzeug.http import parse_date
from werkzeug.http import parse_set_header
from werkzeug.sansio.request import Request as SansIORequest
from werkzeug.sansio.utils import get_content_length
from werkzeug.utils import environ_property
from werkzeug.utils import header_property
from werkzeug.wrappers import Request as WSGIRequest

_plain_int_re = re.compile(r"-?\d+", re.ASCII)
assert internal._plain_int_re.pattern == _plain_int_re.pattern
assert internal._plain_int_re.flags == _plain_int_re.flags


# ---- ORIGINAL implementations (verbatim from the unmodified tree) ----
def orig_plain_int(value):
    value = value.strip()
    if _plain_int_re.fullmatch(value) is None:
        raise ValueError

    return int(value)


def orig_dict_accessor_get(self, instance, owner):
    if instance is None:
        return self

    storage = self.lookup(instance)

    if self.name not in storage:
        return self.default  # type: ignore

    value = storage[self.name]

    if self.load_func is not None:
        try:
            return self.load_func(value)
        except (ValueError, TypeError):
            return self.default  # type: ignore

    return value  # type: ignore


def orig_tcd_get(self, key, default=None, type=None):
    try:
        rv = self[key]
    except KeyError:
        return default

    if type is None:
        return rv

    try:
        return type(rv)
    except (ValueError, TypeError):
        return default


# ----------------------------------------------------------------------


def outcome(func, *args, **kwargs):
    try:
        rv = func(*args, **kwargs)
    except Exception as e:  # noqa: BLE001
        return ("EXC", type(e))
    return ("OK", type(rv), repr(rv), rv)


def same(a, b):
    if a[:2] != b[:2]:
        return False
    if a[0] == "EXC":
        return True
    if a[2] != b[2]:
        return False
    # identity for objects that are handed through unchanged, equality otherwise
    return a[3] is b[3] or a[3] == b[3] or a[3] != a[3]


DIGITS = "0123456789"
ODD = "+-_ \t\n\r\x0b\x0c\x1c\x85\xa0.eE,x٣४０¹²\x00é"


def gen_intish(rng):
    kind = rng.random()
    if kind < 0.4:
        s = "".join(rng.choice(DIGITS) for _ in range(rng.randint(0, 12)))
        s = rng.choice(["", "", "-", "+", "--", " -", "- "]) + s
        return rng.choice(["", "", " ", "\t", "\n", "\x85", "\xa0"]) + s + rng.choice(
            ["", "", " ", "\r\n", "\x1c", "_1", ".0", "e3"]
        )
    return "".join(rng.choice(DIGITS + ODD) for _ in range(rng.randint(0, 10)))


def check_plain_int(rng):
    fixed = [
        "", " ", "0", "-0", "1", "-1", "+1", "1_0", " 12 ", "\t7\n", "٣", "०", "１２", "²",
        "-", "--1", "1-", "1 2", "0x10", "1e3", "1.0", "9" * 400, "-" + "9" * 400, "\x1c5\x1c",
        "\xa05", "5\x85", None, 5, b"5", 5.0, ["1"],
    ]
    inputs = fixed + [gen_intish(rng) for _ in range(12000)]
    ok = 0
    for v in inputs:
        a, b = outcome(orig_plain_int, v), outcome(_plain_int, v)
        if not same(a, b):
            return f"_plain_int {v!r}: {a} != {b}"
        ok += a[0] == "OK"
    # callers of _plain_int in the request layer
    for v in inputs:
        if not isinstance(v, str) and v is not None:
            continue
        a = outcome(
            lambda: None if v is None else max(0, orig_plain_int(v))
        )
        b = outcome(get_content_length, v, None)
        # get_content_length catches ValueError -> 0
        if a == ("EXC", ValueError):
            a = ("OK", int, "0", 0)
        if not same(a, b):
            return f"get_content_length {v!r}: {a} != {b}"
    return len(inputs), ok


class Boom(Exception):
    pass


class SubValueError(ValueError):
    pass


class SubTypeError(TypeError):
    pass


def make_loaders():
    def raiser(exc):
        def load(value):
            raise exc("x")

        load.__name__ = f"raise_{exc.__name__}"
        return load

    def unicode_fail(value):
        return value.encode("ascii")  # UnicodeEncodeError (a ValueError)

    def none_loader(value):
        return None

    return [
        None, int, float, str, _plain_int, parse_date, parse_set_header, len, unicode_fail,
        none_loader, str.lower, lambda v: v[3], lambda v: {}[v], lambda v: 1 // len(v),
        raiser(ValueError), raiser(TypeError), raiser(SubValueError), raiser(SubTypeError),
        raiser(KeyError), raiser(IndexError), raiser(Boom), raiser(UnicodeError),
        raiser(AttributeError), raiser(OverflowError), raiser(LookupError),
    ]


HEADER_VALUES = [
    "", " ", "0", "12", "-3", "+4", "1_0", "٣", "abc", "text/html; charset=utf-8",
    "Sat, 03 Oct 2026 10:00:00 GMT", "Sat, 99 Oct 2026", "Mon, 01 Jan 0000 00:00:00 GMT",
    "a, b, c", '"a", b', "é", "\x00", "3.5", "1e999", "nan", "inf", "GET", "https://x/",
    "X-A, X-B", ",", "x" * 50, "Thu, 01 Jan 1970 00:00:00 +9999", "1 Jan 99999 00:00:00",
]


def gen_header_value(rng):
    k = rng.random()
    if k < 0.4:
        return rng.choice(HEADER_VALUES)
    if k < 0.7:
        return gen_intish(rng).replace("\n", " ").replace("\r", " ")
    return "".join(
        rng.choice("abc019 ,;:=\"/-+_éÿ\t") for _ in range(rng.randint(0, 20))
    )


def check_accessor(rng):
    loaders = make_loaders()
    defaults = [None, 0, "dflt", (), object()]
    n = 0

    class Holder:
        def __init__(self, headers, environ):
            self.headers = headers
            self.environ = environ

    # 1. synthetic properties over every storage kind
    for _ in range(9000):
        name = rng.choice(["X-Test", "x-test", "Content-Length", "HTTP_X_TEST", "missing"])
        load = rng.choice(loaders)
        default = rng.choice(defaults)
        value = gen_header_value(rng)
        present = rng.random() < 0.85
        stored_key = rng.choice(["X-Test", "X-TEST", "Content-Length", "HTTP_X_TEST"])
        pairs = [(stored_key, value)] if present else []
        environ = {
            ("HTTP_" + k.upper().replace("-", "_") if not k.startswith("HTTP_") else k): v
            for k, v in pairs
        }
        if present and stored_key == "Content-Length":
            environ = {"CONTENT_LENGTH": value}
        storages = [
            Holder(Headers(pairs), dict(pairs)),
            Holder(EnvironHeaders(environ), environ),
            Holder(dict(pairs), MultiDict(pairs)),
        ]
        for cls in (header_property, environ_property):
            prop = cls(name, default, load)
            for holder in storages:
                a = outcome(orig_dict_accessor_get, prop, holder, Holder)
                b = outcome(prop.__get__, holder, Holder)
                if not same(a, b):
                    return f"__get__ {cls.__name__} {name!r} {load} {value!r}: {a} != {b}"
                n += 1
            if orig_dict_accessor_get(prop, None, Holder) is not prop.__get__(None, Holder):
                return "__get__(None) differs"

    # 2. every accessor property declared on the real request classes
    def props_of(cls):
        out = {}
        for klass in cls.__mro__:
            for attr, obj in vars(klass).items():
                if isinstance(obj, _DictAccessorProperty) and attr not in out:
                    out[attr] = obj
        return out

    sansio_props = props_of(SansIORequest)
    wsgi_props = props_of(WSGIRequest)
    assert len(sansio_props) >= 9 and len(wsgi_props) > len(sansio_props)

    for _ in range(1500):
        pairs = []
        for attr, prop in sansio_props.items():
            if rng.random() < 0.8:
                pairs.append((prop.name, gen_header_value(rng)))
        req = SansIORequest("GET", "http", None, "", "/", b"", Headers(pairs), None)
        for attr, prop in sansio_props.items():
            a = outcome(orig_dict_accessor_get, prop, req, SansIORequest)
            b = outcome(getattr, req, attr)
            if not same(a, b):
                return f"sansio Request.{attr} {pairs!r}: {a} != {b}"
            n += 1

        environ = {
            "REQUEST_METHOD": "GET", "SERVER_NAME": "x", "SERVER_PORT": "80",
            "wsgi.url_scheme": "http", "PATH_INFO": "/",
        }
        for attr, prop in wsgi_props.items():
            if rng.random() < 0.8:
                if isinstance(prop, header_property):
                    key = prop.name.upper().replace("-", "_")
                    if key not in ("CONTENT_TYPE", "CONTENT_LENGTH"):
                        key = "HTTP_" + key
                else:
                    key = prop.name
                v = gen_header_value(rng)
                environ[key] = v.encode("utf-8", "replace").decode("latin1")
        wreq = WSGIRequest(environ)
        for attr, prop in wsgi_props.items():
            a = outcome(orig_dict_accessor_get, prop, wreq, WSGIRequest)
            b = outcome(getattr, wreq, attr)
            if not same(a, b):
                return f"wsgi Request.{attr} {environ!r}: {a} != {b}"
            n += 1
    return n


def check_tcd(rng):
    loaders = [f for f in make_loaders()]
    defaults = [None, 0, -1, "dflt", object()]
    n = 0
    for _ in range(12000):
        keys = ["a", "b", "page", "é", ""]
        items = [(rng.choice(keys), gen_header_value(rng)) for _ in range(rng.randint(0, 4))]
        key = rng.choice(keys + ["missing", 3, None])
        default = rng.choice(defaults)
        type_ = rng.choice(loaders)
        for d in (TypeConversionDict(items), MultiDict(items), ImmutableMultiDict(items)):
            calls = [
                ((key,), {}),
                ((key, default), {}),
                ((key,), {"type": type_}),
                ((key, default, type_), {}),
                ((key,), {"default": default, "type": type_}),
            ]
            for args, kwargs in calls:
                a = outcome(orig_tcd_get, d, *args, **kwargs)
                b = outcome(d.get, *args, **kwargs)
                if not same(a, b):
                    return f"TypeConversionDict.get {type(d).__name__} {items!r} {args} {kwargs}: {a} != {b}"
                n += 1
    # query-string args on a real request
    for _ in range(1500):
        qs = "&".join(
            f"{rng.choice(['a', 'b', 'page'])}={gen_intish(rng).strip()}"
            for _ in range(rng.randint(0, 4))
        ).replace("\n", "").replace("\r", "").replace("\x00", "")
        req = SansIORequest("GET", "http", None, "", "/", qs.encode("utf-8"), Headers(), None)
        for key in ("a", "b", "page", "zzz"):
            for type_ in (int, _plain_int, float, None):
                a = outcome(orig_tcd_get, req.args, key, -1, type_)
                b = outcome(req.args.get, key, -1, type_)
                if not same(a, b):
                    return f"request.args.get {qs!r} {key} {type_}: {a} != {b}"
                n += 1
    return n


def main():
    rng = random.Random(7073)
    # make sure the worktree really contains different code objects than the copies
    for res_name, fn in (
        ("_plain_int", check_plain_int),
        ("_DictAccessorProperty.__get__", check_accessor),
        ("TypeConversionDict.get", check_tcd),
    ):
        res = fn(rng)
        if isinstance(res, str):
            print("MISMATCH", res)
            print("FAIL")
            return 1
        print(f"{res_name}: compared {res}")
    print("PASS")
    return 0


if __name__ == "__main__":
    raise SystemExit(main())
