"""Differential check: refactored werkzeug.utils.secure_filename vs. original copy."""
import os
import random
import re
import unicodedata

from werkzeug.utils import secure_filename as new_secure_filename

_filename_ascii_strip_re = re.compile(r"[^A-Za-z0-9_.-]")
_windows_device_files = {
    "CON",
    "PRN",
    "AUX",
    "NUL",
    *(f"COM{i}" for i in range(10)),
    *(f"LPT{i}" for i in range(10)),
}


def orig_secure_filename(filename):
    filename = unicodedata.normalize("NFKD", filename)
    filename = filename.encode("ascii", "ignore").decode("ascii")

    for sep in os.sep, os.path.altsep:
        if sep:
            filename = filename.replace(sep, " ")
    filename = str(_filename_ascii_strip_re.sub("", "_".join(filename.split()))).strip(
        "._"
    )

    if (
        os.name == "nt"
        and filename
        and filename.split(".")[0].upper() in _windows_device_files
    ):
        filename = f"_{filename}"

    return filename


def run(f, a):
    try:
        r = f(a)
        return ("ok", type(r), r)
    except BaseException as e:  # noqa: B036
        return ("exc", type(e))


ATOMS = ["..", ".", "/", "\\", "\x00", " ", "\t", "\n", " ", "　", "_", "-", "__",
         "a", "B", "9", "txt", "ä", "ü", "ﬁ", "‥", "．", "／",
         "∕", "K", "\U0001f600", "con", "CON", "nul", "Com1", "lpt9", "aux", "PRN",
         "COM", "LPT10", "%2f", ":", "*", "~", "etc", "passwd", ".bashrc", "́", "\ud800"]
ODD = [None, 1, b"abc", b"../x", ["a"], 2.5]


def main():
    rng = random.Random(140014)
    cases = ["", "My cool movie.mov", "../../../etc/passwd", "i contain cool \xfcml\xe4uts.txt",
             "con", "CON.txt", "con.tar.gz", ".con", "_con", "nul.", "com1 .txt", "aux/..",
             "‥/‥/etc"]
    cases += ATOMS
    cases += [a + b for a in ATOMS for b in ATOMS]
    cases += [a + "." + b for a in ATOMS for b in ATOMS]
    for _ in range(6000):
        cases.append("".join(rng.choice(ATOMS) for _ in range(rng.randint(0, 8))))
    for _ in range(2000):
        cases.append("".join(chr(rng.choice([rng.randint(0, 0x7F), rng.randint(0, 0x2FFF)]))
                             for _ in range(rng.randint(0, 12))))
    cases += ODD

    total = bad = 0
    real = (os.name, os.sep, os.path.altsep)
    configs = [real, ("nt", "\\", "/"), ("nt", "/", None), ("posix", "\\", "/"), ("posix", "/", "")]
    for name, sep, altsep in configs:
        for c in cases:
            results = []
            for f in (orig_secure_filename, new_secure_filename):
                os.name, os.sep, os.path.altsep = name, sep, altsep
                try:
                    results.append(run(f, c))
                finally:
                    os.name, os.sep, os.path.altsep = real
            total += 1
            if results[0] != results[1]:
                bad += 1
                if bad < 10:
                    print("MISMATCH", (name, sep, altsep), repr(c), results)
            elif results[0][0] == "ok":
                # idempotence is preserved as well
                os.name, os.sep, os.path.altsep = name, sep, altsep
                try:
                    again = run(new_secure_filename, results[1][2])
                    again_o = run(orig_secure_filename, results[0][2])
                finally:
                    os.name, os.sep, os.path.altsep = real
                if again != again_o:
                    bad += 1
                    print("MISMATCH second pass", repr(c), again_o, again)
    print(f"{total} cases, {bad} mismatches")
    print("PASS" if bad == 0 else "FAIL")


main()
