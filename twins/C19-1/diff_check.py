"""Differential check for refactoring 1 (DechunkedInput.read_chunk_len / readinto).

Run: cd /tmp/wt3-C19 && PYTHONPATH=/tmp/wt3-C19/src /venv/bin/python /tmp/twin-C19/1/diff_check.py

Compares werkzeug.serving.DechunkedInput (refactored worktree) against a pasted
copy of the ORIGINAL class on randomly generated chunked streams (well formed and
malformed) under random read patterns and several kinds of underlying rfile
(BytesIO, short-reading raw files, buffered readers, closed files).
Prints PASS only if every result, raised exception (type + message + cause type),
internal state and rfile position is identical.
"""

from __future__ import annotations

import io
import random
import sys
import typing as t

from werkzeug.serving import DechunkedInput as NewDechunkedInput


# --------------------------------------------------------------------------
# ORIGINAL implementation (verbatim copy from the unmodified tree)
# --------------------------------------------------------------------------
class OrigDechunkedInput(io.RawIOBase):
    """An input stream that handles Transfer-Encoding 'chunked'"""

    def __init__(self, rfile: t.IO[bytes]) -> None:
        self._rfile = rfile
        self._done = False
        self._len = 0

    def readable(self) -> bool:
        return True

    def read_chunk_len(self) -> int:
        try:
            line = self._rfile.readline().decode("latin1")
            _len = int(line.strip(), 16)
        except ValueError as e:
            raise OSError("Invalid chunk header") from e
        if _len < 0:
            raise OSError("Negative chunk length not allowed")
        return _len

    def readinto(self, buf: bytearray) -> int:  # type: ignore
        read = 0
        while not self._done and read < len(buf):
            if self._len == 0:
                # This is the first chunk or we fully consumed the previous
                # one. Read the next length of the next chunk
                self._len = self.read_chunk_len()

            if self._len == 0:
                # Found the final chunk of size 0. The stream is now exhausted,
                # but there is still a final newline that should be consumed
                self._done = True

            if self._len > 0:
                # There is data (left) in this chunk, so append it to the
                # buffer. If this operation fully consumes the chunk, this will
                # reset self._len to 0.
                n = min(len(buf), self._len)

                # If (read + chunk size) becomes more than len(buf), buf will
                # grow beyond the original size and read more data than
                # required. So only read as much data as can fit in buf.
                if read + n > len(buf):
                    n = len(buf) - read

                data = self._rfile.read(n)

                # A short read means the stream ended inside the chunk. Don't
                # splice it into buf, that would resize the caller's buffer.
                if len(data) != n:
                    raise OSError("Unexpected end of chunked data")

                buf[read : read + n] = data
                self._len -= n
                read += n

            if self._len == 0:
                # Skip the terminating newline of a chunk that has been fully
                # consumed. This also applies to the 0-sized final chunk
                terminator = self._rfile.readline()
                if terminator not in (b"\n", b"\r\n", b"\r"):
                    raise OSError("Missing chunk terminating newline")

        return read


# --------------------------------------------------------------------------
# underlying files
# --------------------------------------------------------------------------
class ShortRaw(io.RawIOBase):
    """Raw file that returns at most ``cap`` bytes per read call (like a socket)."""

    def __init__(self, data: bytes, caps: list[int]) -> None:
        self._data = data
        self._pos = 0
        self._caps = caps
        self._i = 0
        self.calls: list[tuple[str, int]] = []

    def readable(self) -> bool:
        return True

    def _cap(self) -> int:
        c = self._caps[self._i % len(self._caps)]
        self._i += 1
        return c

    def readinto(self, b) -> int:  # type: ignore
        n = min(len(b), self._cap(), len(self._data) - self._pos)
        self.calls.append(("readinto", len(b)))
        b[:n] = self._data[self._pos : self._pos + n]
        self._pos += n
        return n

    def tell(self) -> int:
        return self._pos


class ShortFile:
    """File-like object (not an io class) whose read() may return short data."""

    def __init__(self, data: bytes, caps: list[int]) -> None:
        self._bio = io.BytesIO(data)
        self._caps = caps
        self._i = 0
        self.calls: list[tuple[str, int]] = []

    def read(self, n: int = -1) -> bytes:
        self.calls.append(("read", n))
        c = self._caps[self._i % len(self._caps)]
        self._i += 1
        if n is None or n < 0:
            return self._bio.read()
        return self._bio.read(min(n, c))

    def readline(self) -> bytes:
        self.calls.append(("readline", -1))
        return self._bio.readline()

    def tell(self) -> int:
        return self._bio.tell()


class RecordingBytesIO(io.BytesIO):
    def __init__(self, data: bytes) -> None:
        super().__init__(data)
        self.calls: list[tuple[str, int]] = []

    def read(self, n=-1):  # type: ignore
        self.calls.append(("read", n))
        return super().read(n)

    def readline(self, n=-1):  # type: ignore
        self.calls.append(("readline", n))
        return super().readline(n)


class ShortReadError(Exception):
    pass


class Guard:
    """Wraps an rfile; raises ShortReadError instead of returning a short read.

    Used for the steps that go through the C implementations of
    RawIOBase.read/readall/readline and BufferedReader: with a short read the
    ORIGINAL code shrinks the caller's bytearray and the C callers then return
    uninitialised memory, which is not deterministic and cannot be compared.
    (Short reads are covered deterministically by the unguarded mode, which only
    uses readinto() on initialised buffers.)
    """

    def __init__(self, inner) -> None:
        self._inner = inner
        self.calls = inner.calls if hasattr(inner, "calls") else inner.raw.calls

    def read(self, n: int = -1) -> bytes:
        data = self._inner.read(n)
        if n is not None and n >= 0 and (data is None or len(data) < n):
            raise ShortReadError(f"short read {n}")
        return data

    def readline(self) -> bytes:
        return self._inner.readline()

    def tell(self) -> int:
        return self._inner.tell()

    def close(self) -> None:
        self._inner.close()


def make_rfile(kind: int, data: bytes, caps: list[int]):
    if kind == 0:
        return RecordingBytesIO(data)
    if kind == 1:
        return io.BufferedReader(ShortRaw(data, caps), buffer_size=16)
    if kind == 2:
        return ShortFile(data, caps)
    if kind == 3:
        return ShortRaw(data, caps)  # raw: read(n) may be short
    if kind == 4:
        f = RecordingBytesIO(data)
        return f
    raise AssertionError(kind)


# --------------------------------------------------------------------------
# stream generator
# --------------------------------------------------------------------------
NEWLINES = [b"\r\n", b"\r\n", b"\r\n", b"\n", b"\r"]
BAD_HEADERS = [
    b"",
    b"zz",
    b"-5",
    b"-0",
    b"+3",
    b"0x4",
    b"0X4",
    b" 4 ",
    b"\t4",
    b"4;ext=1",
    b"1_0",
    b"_1",
    b"1__0",
    b"\xb2",
    b"\xff",
    b"4 4",
    b"00000000000000000004",
    b"4\x00",
    b"1" * 30,
    b"1" * 5,
]


def gen_stream(rng: random.Random) -> bytes:
    out = bytearray()
    n_chunks = rng.randint(0, 6)
    for _ in range(n_chunks):
        mode = rng.random()
        size = rng.choice([1, 1, 2, 3, 5, 8, 13, 16, 17, 31, 64])
        payload = bytes(rng.randrange(256) for _ in range(size))
        if rng.random() < 0.3:
            # payload containing newlines to confuse readline based logic
            payload = bytes(rng.choice(b"\r\nab0") for _ in range(size))
        if mode < 0.80:
            hdr = rng.choice(["%x", "%X", "%04x", " %x", "%x ", "+%x", "0x%x"]) % size
            out += hdr.encode() + rng.choice(NEWLINES)
            out += payload + rng.choice(NEWLINES)
        elif mode < 0.86:
            out += rng.choice(BAD_HEADERS) + rng.choice(NEWLINES)
            out += payload + rng.choice(NEWLINES)
        elif mode < 0.90:
            # declared size larger/smaller than payload
            out += b"%x" % (size + rng.choice([-1, 1, 2, 100]),) + b"\r\n"
            out += payload + b"\r\n"
        elif mode < 0.94:
            # missing / wrong terminator
            out += b"%x\r\n" % size + payload + rng.choice([b"", b"X", b"XX\r\n", b" \r\n"])
        elif mode < 0.97:
            out += b"0" + rng.choice(NEWLINES) + rng.choice([b"", b"\r\n", b"X\r\n"])
        else:
            out += rng.choice(NEWLINES)
    tail = rng.random()
    if tail < 0.7:
        out += rng.choice([b"0", b"00", b"0 ", b"-0", b"0x0"]) + rng.choice(NEWLINES)
        out += rng.choice(NEWLINES + [b"", b"trailer: x\r\n\r\n", b"X"])
    elif tail < 0.8:
        out += b"0"
    if rng.random() < 0.3:
        out += b"GARBAGE AFTER END\r\n"
    if rng.random() < 0.1 and out:
        out = out[: rng.randrange(len(out))]  # truncate
    return bytes(out)


def gen_ops(rng: random.Random, guarded: bool) -> list[tuple[str, int]]:
    ops = []
    for _ in range(rng.randint(1, 12)):
        k = rng.random()
        if not guarded:
            # only deterministic, python-level entry points
            k = rng.choice([0.45, 0.45, 0.65, 0.87, 0.97 if rng.random() < 0.2 else 0.5])
        size = rng.choice([0, 1, 1, 2, 3, 4, 5, 7, 8, 16, 17, 33, 100, 1000])
        if k < 0.30:
            ops.append(("read", size))
        elif k < 0.40:
            ops.append(("readall", -1))
        elif k < 0.60:
            ops.append(("readinto_bytearray", size))
        elif k < 0.75:
            ops.append(("readinto_memoryview", size))
        elif k < 0.85:
            ops.append(("readline", size))
        elif k < 0.90:
            ops.append(("read_chunk_len", 0))
        elif k < 0.95:
            ops.append(("buffered_read", size))
        else:
            ops.append(("close_rfile", 0))
    return ops


def describe_exc(e: BaseException) -> tuple:
    c = e.__cause__
    return (type(e).__name__, str(e), type(c).__name__ if c is not None else None)


def run(cls, data: bytes, kind: int, caps: list[int], ops, guarded: bool) -> list:
    rfile = make_rfile(kind, data, caps)
    if guarded:
        rfile = Guard(rfile)
    stream = cls(rfile)
    buffered = None
    trace: list = []
    for op, size in ops:
        try:
            if op == "read":
                res = stream.read(size)
            elif op == "readall":
                res = stream.read()
            elif op == "readinto_bytearray":
                buf = bytearray(b"\xaa" * size)
                n = stream.readinto(buf)
                res = (n, bytes(buf), len(buf))
            elif op == "readinto_memoryview":
                backing = bytearray(b"\xbb" * size)
                n = stream.readinto(memoryview(backing))
                res = (n, bytes(backing))
            elif op == "readline":
                res = stream.readline(size if size else -1)
            elif op == "read_chunk_len":
                res = stream.read_chunk_len()
            elif op == "buffered_read":
                if buffered is None:
                    buffered = io.BufferedReader(stream, buffer_size=8)
                res = buffered.read(size)
            elif op == "close_rfile":
                close = getattr(rfile, "close", None)
                res = close() if close is not None else "noclose"
            else:
                raise AssertionError(op)
            outcome = ("ok", res)
        except Exception as e:  # noqa: BLE001
            outcome = ("exc", describe_exc(e))
        try:
            pos = rfile.tell()
        except Exception as e:  # noqa: BLE001
            pos = ("tell-exc", type(e).__name__)
        calls = getattr(rfile, "calls", None)
        if calls is None:
            calls = getattr(getattr(rfile, "raw", None), "calls", None)
        trace.append(
            (op, size, outcome, stream._len, stream._done, pos, tuple(calls or ()))
        )
    return trace


def main() -> int:
    rng = random.Random(0xC19)
    n_cases = 20000
    mismatches = 0
    exc_cases = 0
    ok_bytes = 0
    ok_steps = 0
    completed = 0
    exc_kinds: dict = {}
    for i in range(n_cases):
        data = gen_stream(rng)
        kind = rng.randrange(5)
        caps = [rng.choice([1, 2, 3, 5, 8, 1000]) for _ in range(rng.randint(1, 4))]
        guarded = rng.random() < 0.5
        ops = gen_ops(rng, guarded)
        a = run(OrigDechunkedInput, data, kind, caps, ops, guarded)
        b = run(NewDechunkedInput, data, kind, caps, ops, guarded)
        if a != b:
            mismatches += 1
            if mismatches <= 5:
                print("MISMATCH case", i, "kind", kind, "caps", caps, "guarded", guarded)
                print("  data:", data)
                for x, y in zip(a, b):
                    if x != y:
                        print("  orig:", x)
                        print("  new :", y)
                        break
        for step in a:
            if step[2][0] == "exc":
                exc_cases += 1
            else:
                ok_steps += 1
                res = step[2][1]
                if isinstance(res, bytes):
                    ok_bytes += len(res)
                elif isinstance(res, tuple):
                    ok_bytes += res[0]
        if a and a[-1][4]:
            completed += 1
        for step in a:
            if step[2][0] == "exc":
                key = (step[2][1][0], step[2][1][1].rstrip("0123456789"))
                exc_kinds[key] = exc_kinds.get(key, 0) + 1

    # The helper introduced by the refactoring must not shadow anything that
    # existed on the original class / its bases.
    assert not hasattr(OrigDechunkedInput, "_skip_chunk_terminator")

    print(
        f"cases={n_cases} ok-steps={ok_steps} steps-with-exception={exc_cases} "
        f"bytes-delivered={ok_bytes} streams-read-to-final-chunk={completed}"
    )
    for k, v in sorted(exc_kinds.items(), key=lambda kv: -kv[1]):
        print(f"  exception {k}: {v}")
    if mismatches:
        print(f"FAIL: {mismatches} mismatching cases")
        return 1
    print("PASS")
    return 0


if __name__ == "__main__":
    sys.exit(main())
