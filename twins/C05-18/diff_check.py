"""Differential check for refactoring 3
(wsgi.ClosingIterator.__init__ and wrappers Response.get_app_iter)."""
import random
import typing as t
from functools import partial

from werkzeug.wrappers.response import Response
from werkzeug.wsgi import ClosingIterator as NewClosingIterator


class OrigClosingIterator:
    def __init__(self, iterable, callbacks=None) -> None:
        iterator = iter(iterable)
        self._next = t.cast(t.Callable[[], bytes], partial(next, iterator))
        if callbacks is None:
            callbacks = []
        elif callable(callbacks):
            callbacks = [callbacks]
        else:
            callbacks = list(callbacks)
        iterable_close = getattr(iterable, "close", None)
        if iterable_close:
            callbacks.insert(0, iterable_close)
        self._callbacks = callbacks

    def __iter__(self):
        return self

    def __next__(self) -> bytes:
        return self._next()

    def close(self) -> None:
        for callback in self._callbacks:
            callback()


def orig_get_app_iter(self, environ):
    status = self.status_code
    if (
        environ["REQUEST_METHOD"] == "HEAD"
        or 100 <= status < 200
        or status in (204, 304)
    ):
        iterable: t.Iterable[bytes] = ()
    elif self.direct_passthrough:
        return self.response  # type: ignore
    else:
        iterable = self.iter_encoded()
    return OrigClosingIterator(iterable, self.close)


# ---------------------------------------------------------------- part A

class Boom(Exception):
    pass


def make_iterable(rng, log):
    k = rng.randrange(9)
    data = [bytes([65 + rng.randrange(26)]) * rng.randrange(4) for _ in range(rng.randrange(4))]
    if k == 0:
        return list(data)
    if k == 1:
        return tuple(data)
    if k == 2:
        def gen():
            try:
                for d in data:
                    log.append(("yield", d))
                    yield d
            finally:
                log.append("gen-finalised")
        return gen()
    if k == 3:
        class WithClose:
            def __iter__(self):
                log.append("iter")
                return iter(data)
            def close(self):
                log.append("iterable.close")
        return WithClose()
    if k == 4:
        class FalsyClose:
            close = rng.choice([None, 0, "", False])
            def __iter__(self):
                return iter(data)
        return FalsyClose()
    if k == 5:
        class RaisingClose:
            def __iter__(self):
                return iter(data)
            def close(self):
                log.append("iterable.close-raises")
                raise Boom("close")
        return RaisingClose()
    if k == 6:
        class PropClose:
            def __iter__(self):
                log.append("iter")
                return iter(data)
            @property
            def close(self):
                log.append("getattr-close")
                return lambda: log.append("prop.close")
        return PropClose()
    if k == 7:
        return 42  # not iterable -> TypeError
    class SelfIter:
        def __init__(self):
            self.it = iter(data)
        def __iter__(self):
            return self
        def __next__(self):
            return next(self.it)
        def close(self):
            log.append("selfiter.close")
    return SelfIter()


def make_callbacks(rng, log):
    def cb(name, fail=False):
        def f():
            log.append(name)
            if fail:
                raise Boom(name)
        return f
    k = rng.randrange(10)
    if k == 0:
        return None
    if k == 1:
        return cb("single")
    if k == 2:
        return [cb(f"l{i}") for i in range(rng.randrange(4))]
    if k == 3:
        return tuple(cb(f"t{i}") for i in range(rng.randrange(4)))
    if k == 4:
        def g():
            log.append("callbacks-generator-started")
            for i in range(rng.randrange(3)):
                yield cb(f"g{i}")
        return g()
    if k == 5:
        return 7  # neither callable nor iterable -> TypeError
    if k == 6:
        class CallableAndIterable:
            def __call__(self):
                log.append("ci-call")
            def __iter__(self):
                log.append("ci-iter")
                return iter([cb("ci-item")])
        return CallableAndIterable()
    if k == 7:
        return [cb("a"), cb("fails", True), cb("c")]
    if k == 8:
        return []
    return {cb("dictkey"): 1}


def exercise(cls, seed):
    rng = random.Random(seed)
    log: list = []
    iterable = make_iterable(rng, log)
    callbacks = make_callbacks(rng, log)
    orig_cb_list = list(callbacks) if isinstance(callbacks, list) else None
    out = []
    try:
        ci = cls(iterable, callbacks)
    except Exception as e:
        return ("ctor-exc", type(e).__name__, str(e), log)
    log.append("constructed")
    # caller's list must not be mutated
    if orig_cb_list is not None:
        out.append(("caller-list-same", callbacks == orig_cb_list, ci._callbacks is callbacks))
    out.append(("ncallbacks", len(ci._callbacks), type(ci._callbacks).__name__))
    out.append(iter(ci) is ci)
    nread = rng.choice([0, 1, 100])
    try:
        for _ in range(nread):
            out.append(next(ci))
    except StopIteration:
        out.append("stop")
    for _ in range(rng.choice([1, 1, 2])):
        try:
            ci.close()
            log.append("closed")
        except Exception as e:
            log.append(("close-exc", type(e).__name__, str(e)))
    return ("ok", out, log)


# ---------------------------------------------------------------- part B

STATUSES = [99, 100, 101, 150, 199, 200, 201, 203, 204, 205, 206, 301, 302,
            303, 304, 305, 400, 404, 500, 0, 600, "204 Nothing", "304", "wat"]


class Body:
    def __init__(self, chunks, log):
        self.chunks = chunks
        self.log = log
    def __iter__(self):
        self.log.append("body-iter")
        return iter(self.chunks)
    def close(self):
        self.log.append("body-close")


def exercise_response(use_orig, seed):
    rng = random.Random(seed)
    log: list = []
    chunks = [rng.choice([b"", b"ab", "str", "☃", b"\xff"]) for _ in range(rng.randrange(4))]
    k = rng.randrange(6)
    if k == 0:
        body = list(chunks)
    elif k == 1:
        body = Body(chunks, log)
    elif k == 2:
        def gen():
            try:
                for c in chunks:
                    yield c
            finally:
                log.append("gen-finalised")
        body = gen()
    elif k == 3:
        body = rng.choice(["text", b"bytes", ""])
    elif k == 4:
        body = None
    else:
        body = tuple(chunks)
    cls = type("R", (Response,), {"get_app_iter": orig_get_app_iter}) if use_orig else Response
    r = cls(body, status=rng.choice(STATUSES))
    r.direct_passthrough = rng.random() < 0.3
    if rng.random() < 0.3:
        r.implicit_sequence_conversion = False
    for i in range(rng.randrange(3)):
        r.call_on_close(lambda i=i: log.append(f"on_close{i}"))
    environ = {"REQUEST_METHOD": rng.choice(["GET", "HEAD", "POST", "head", "OPTIONS"])}
    if rng.random() < 0.03:
        environ = {}
    try:
        app_iter = r.get_app_iter(environ)
    except Exception as e:
        return ("exc", type(e).__name__, str(e), log)
    res = [type(app_iter).__name__.replace("Orig", ""), app_iter is r.response]
    log.append("got-iter")
    try:
        res.append(list(app_iter))
    except Exception as e:
        res.append(("iter-exc", type(e).__name__))
    log.append("consumed")
    close = getattr(app_iter, "close", None)
    if close is not None:
        close()
        log.append("closed")
    # full WSGI round trip as well
    return ("ok", res, log)


def exercise_wsgi(use_orig, seed):
    rng = random.Random(seed)
    log: list = []
    cls = type("R", (Response,), {"get_app_iter": orig_get_app_iter}) if use_orig else Response
    body = Body([b"abc", b"de"], log) if rng.random() < 0.5 else [b"abc", b"de"]
    r = cls(body, status=rng.choice(STATUSES))
    r.call_on_close(lambda: log.append("on_close"))
    environ = {
        "REQUEST_METHOD": rng.choice(["GET", "HEAD"]),
        "wsgi.url_scheme": "http", "SERVER_NAME": "localhost", "SERVER_PORT": "80",
        "SCRIPT_NAME": "", "PATH_INFO": "/",
    }
    started = []
    it = r(environ, lambda s, h, exc_info=None: started.append((s, h)))
    data = b"".join(it)
    it.close()
    return started, data, log


def main():
    bad = 0
    n = 12000
    stats = {}
    for seed in range(n):
        a = exercise(OrigClosingIterator, seed)
        b = exercise(NewClosingIterator, seed)
        stats[a[0]] = stats.get(a[0], 0) + 1
        if a != b:
            bad += 1
            if bad < 5:
                print("MISMATCH A", seed, a, b)
    for seed in range(n):
        a = exercise_response(True, seed)
        b = exercise_response(False, seed)
        stats["resp-" + a[0]] = stats.get("resp-" + a[0], 0) + 1
        if a != b:
            bad += 1
            if bad < 5:
                print("MISMATCH B", seed, a, b)
    for seed in range(2000):
        if exercise_wsgi(True, seed) != exercise_wsgi(False, seed):
            bad += 1
            print("MISMATCH C", seed)
    assert NewClosingIterator is not OrigClosingIterator
    assert Response.get_app_iter is not orig_get_app_iter
    print("cases", stats)
    print("PASS" if not bad else f"FAIL ({bad})")


if __name__ == "__main__":
    main()
