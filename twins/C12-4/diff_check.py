"""Differential check for refactoring 1 (C12): StateMachineMatcher.match.

The ORIGINAL matcher (pasted below as OrigStateMachineMatcher) is compared with
the worktree's refactored werkzeug.routing.matcher.StateMachineMatcher, both at
the matcher level and through MapAdapter.match, on generated maps and paths.
"""
from __future__ import annotations

import random
import re
import sys
import typing as t
from dataclasses import dataclass
from dataclasses import field

import werkzeug.routing.map as map_mod
from werkzeug.exceptions import HTTPException
from werkzeug.routing import Map
from werkzeug.routing import Rule
from werkzeug.routing import Submount
from werkzeug.routing.converters import ValidationError
from werkzeug.routing.exceptions import NoMatch
from werkzeug.routing.exceptions import RequestAliasRedirect
from werkzeug.routing.exceptions import RequestPath
from werkzeug.routing.exceptions import RequestRedirect
from werkzeug.routing.matcher import StateMachineMatcher
from werkzeug.routing.rules import RulePart

# ---------------------------------------------------------------------------
# ORIGINAL implementation (verbatim from the unmodified tree, classes renamed)
# ---------------------------------------------------------------------------

class OrigSlashRequired(Exception):
    pass


@dataclass
class OrigState:
    """A representation of a rule state.

    This includes the *rules* that correspond to the state and the
    possible *static* and *dynamic* transitions to the next state.
    """

    dynamic: list[tuple[RulePart, OrigState]] = field(default_factory=list)
    rules: list[Rule] = field(default_factory=list)
    static: dict[str, OrigState] = field(default_factory=dict)


class OrigStateMachineMatcher:
    def __init__(self, merge_slashes: bool) -> None:
        self._root = OrigState()
        self.merge_slashes = merge_slashes

    def add(self, rule: Rule) -> None:
        state = self._root
        for part in rule._parts:
            if part.static:
                state.static.setdefault(part.content, OrigState())
                state = state.static[part.content]
            else:
                for test_part, new_state in state.dynamic:
                    if test_part == part:
                        state = new_state
                        break
                else:
                    new_state = OrigState()
                    state.dynamic.append((part, new_state))
                    state = new_state
        state.rules.append(rule)

    def update(self) -> None:
        # For every state the dynamic transitions should be sorted by
        # the weight of the transition
        state = self._root

        def _update_state(state: OrigState) -> None:
            state.dynamic.sort(key=lambda entry: entry[0].weight)
            for new_state in state.static.values():
                _update_state(new_state)
            for _, new_state in state.dynamic:
                _update_state(new_state)

        _update_state(state)

    def match(
        self, domain: str, path: str, method: str, websocket: bool
    ) -> tuple[Rule, t.MutableMapping[str, t.Any]]:
        # To match to a rule we need to start at the root state and
        # try to follow the transitions until we find a match, or find
        # there is no transition to follow.

        have_match_for = set()
        websocket_mismatch = False

        def _match(
            state: OrigState, parts: list[str], values: list[str]
        ) -> tuple[Rule, list[str]] | None:
            # This function is meant to be called recursively, and will attempt
            # to match the head part to the state's transitions.
            nonlocal have_match_for, websocket_mismatch

            # The base case is when all parts have been matched via
            # transitions. Hence if there is a rule with methods &
            # websocket that work return it and the dynamic values
            # extracted.
            if parts == []:
                for rule in state.rules:
                    if rule.methods is not None and method not in rule.methods:
                        have_match_for.update(rule.methods)
                    elif rule.websocket != websocket:
                        websocket_mismatch = True
                    else:
                        return rule, values

                # Test if there is a match with this path with a
                # trailing slash, if so raise an exception to report
                # that matching is possible with an additional slash
                if "" in state.static:
                    for rule in state.static[""].rules:
                        if websocket == rule.websocket and (
                            rule.methods is None or method in rule.methods
                        ):
                            if rule.strict_slashes:
                                raise OrigSlashRequired()
                            else:
                                return rule, values
                        elif (
                            not rule.strict_slashes
                            and rule.methods is not None
                            and method not in rule.methods
                        ):
                            have_match_for.update(rule.methods)
                return None

            part = parts[0]
            # To match this part try the static transitions first
            if part in state.static:
                rv = _match(state.static[part], parts[1:], values)
                if rv is not None:
                    return rv
            # No match via the static transitions, so try the dynamic
            # ones.
            for test_part, new_state in state.dynamic:
                target = part
                remaining = parts[1:]
                # A final part indicates a transition that always
                # consumes the remaining parts i.e. transitions to a
                # final state.
                if test_part.final:
                    target = "/".join(parts)
                    remaining = []
                match = re.compile(test_part.content).match(target)
                if match is not None:
                    if test_part.suffixed:
                        # If a part_isolating=False part has a slash suffix, remove the
                        # suffix from the match and check for the slash redirect next.
                        suffix = match.groups()[-1]
                        if suffix == "/":
                            remaining = [""]

                    converter_groups = sorted(
                        match.groupdict().items(), key=lambda entry: entry[0]
                    )
                    groups = [
                        value
                        for key, value in converter_groups
                        if key[:11] == "__werkzeug_"
                    ]
                    rv = _match(new_state, remaining, values + groups)
                    if rv is not None:
                        return rv

            # If there is no match and the only part left is a
            # trailing slash ("") consider rules that aren't
            # strict-slashes as these should match if there is a final
            # slash part.
            if parts == [""]:
                for rule in state.rules:
                    if rule.strict_slashes:
                        continue
                    if rule.methods is not None and method not in rule.methods:
                        have_match_for.update(rule.methods)
                    elif rule.websocket != websocket:
                        websocket_mismatch = True
                    else:
                        return rule, values

            return None

        try:
            rv = _match(self._root, [domain, *path.split("/")], [])
        except OrigSlashRequired:
            raise RequestPath(f"{path}/") from None

        if self.merge_slashes and rv is None:
            # Try to match again, but with slashes merged
            path = re.sub("/{2,}?", "/", path)
            try:
                rv = _match(self._root, [domain, *path.split("/")], [])
            except OrigSlashRequired:
                raise RequestPath(f"{path}/") from None
            if rv is None or rv[0].merge_slashes is False:
                raise NoMatch(have_match_for, websocket_mismatch)
            else:
                raise RequestPath(f"{path}")
        elif rv is not None:
            rule, values = rv

            result = {}
            for name, value in zip(rule._converters.keys(), values):
                try:
                    value = rule._converters[name].to_python(value)
                except ValidationError:
                    raise NoMatch(have_match_for, websocket_mismatch) from None
                result[str(name)] = value
            if rule.defaults:
                result.update(rule.defaults)

            if rule.alias and rule.map.redirect_defaults:
                raise RequestAliasRedirect(result, rule.endpoint)

            return rule, result

        raise NoMatch(have_match_for, websocket_mismatch)


# ---------------------------------------------------------------------------
# generators
# ---------------------------------------------------------------------------

RULE_POOL = [
    "/", "/a", "/a/", "/a/b", "/a/b/", "/a//b", "/a//b/", "/<x>", "/<x>/",
    "/<int:n>", "/<int:n>/", "/a/<x>", "/a/<x>/", "/a/<int:n>/b",
    "/a/<int:n>/b/", "/p/<path:p>", "/p/<path:p>/", "/<path:p>/edit",
    "/<path:p>/edit/", "/f/<x>.<y>", "/f/<x>.<y>/", "/d", "/d/<int:n>",
    "/d/<int:n>/", "/e/<any(u,v):k>", "/e/<any(u,v):k>/", "/b/<x>/<y>/",
    "/<x>-<y>/", "/<x>-<y>", "/w", "/w/", "//lead", "//lead/",
]
METHODS = [None, None, ["GET"], ["POST"], ["GET", "POST"], ["PUT"]]
SEGS = ["a", "b", "d", "p", "f", "e", "w", "1", "22", "u", "v", "x.y", "x-y",
        "edit", "lead", "", "", "%2F", "é", "example.org", "@evil.com"]


def make_rule_specs(rnd):
    specs = []
    for i in range(rnd.randint(1, 9)):
        rule = rnd.choice(RULE_POOL)
        kw = {"endpoint": f"ep{rnd.randint(0, 4)}"}
        m = rnd.choice(METHODS)
        if m is not None:
            kw["methods"] = m
        if rnd.random() < 0.15:
            kw["websocket"] = True
            kw.pop("methods", None)
        r = rnd.random()
        if r < 0.3:
            kw["strict_slashes"] = rnd.random() < 0.5
        r = rnd.random()
        if r < 0.3:
            kw["merge_slashes"] = rnd.random() < 0.5
        if rnd.random() < 0.15:
            kw["alias"] = True
        if rnd.random() < 0.2:
            if "<int:n>" in rule:
                pass
            else:
                kw["defaults"] = {"n": rnd.choice([1, 2])}
        if rnd.random() < 0.15:
            kw["subdomain"] = rnd.choice(["sub", "<sd>", ""])
        specs.append((rule, kw))
    return specs


def make_map(specs, map_kw, matcher_cls):
    saved = map_mod.StateMachineMatcher
    map_mod.StateMachineMatcher = matcher_cls
    try:
        rules = [Rule(r, **kw) for r, kw in specs]
        m = Map(rules, **map_kw)
        m.update()
    finally:
        map_mod.StateMachineMatcher = saved
    assert type(m._matcher) is matcher_cls
    return m


def make_path(rnd, specs=()):
    if specs and rnd.random() < 0.85:
        # instantiate one of the map's rule templates, then perturb slashes
        tmpl = rnd.choice(specs)[0]

        def fill(mo):
            conv = mo.group(1)
            if conv.startswith("<int"):
                return rnd.choice(["1", "2", "22", "x"])
            if conv.startswith("<path"):
                return rnd.choice(["q", "q/r", "q//r", "q/r/"])
            if conv.startswith("<any"):
                return rnd.choice(["u", "v", "z"])
            return rnd.choice(["s", "t.u", "1", "example.org", "é"])

        path = re.sub(r"(<[^>]+>)", fill, tmpl)
        r = rnd.random()
        if r < 0.25:
            path = path.rstrip("/")
        elif r < 0.45:
            path = path + "/"
        elif r < 0.5:
            path = path + "//"
        if rnd.random() < 0.3:
            # double some slash
            idxs = [i for i, c in enumerate(path) if c == "/"]
            if idxs:
                i = rnd.choice(idxs)
                path = path[:i] + "/" * rnd.randint(2, 3) + path[i + 1:]
        if rnd.random() < 0.1:
            path = path.replace("//", "/")
        return path
    n = rnd.randint(0, 5)
    segs = [rnd.choice(SEGS) for _ in range(n)]
    path = "/" + "/".join(segs)
    if rnd.random() < 0.2:
        path = "/" * rnd.randint(0, 3) + path
    if rnd.random() < 0.2:
        path += "/" * rnd.randint(1, 3)
    if rnd.random() < 0.03:
        path = ""
    return path


def norm(v):
    if isinstance(v, (set, frozenset)):
        return ("set", tuple(sorted(map(repr, v))))
    if isinstance(v, dict):
        return tuple((k, norm(x)) for k, x in v.items())
    if isinstance(v, (list, tuple)):
        return tuple(norm(x) for x in v)
    return repr(v)


def run_matcher(m, domain, path, method, websocket):
    try:
        rule, values = m._matcher.match(domain, path, method, websocket)
    except RequestPath as e:
        return ("RequestPath", e.path_info)
    except RequestAliasRedirect as e:
        return ("Alias", norm(e.matched_values), repr(e.endpoint))
    except NoMatch as e:
        return ("NoMatch", norm(set(e.have_match_for)), e.websocket_mismatch)
    except Exception as e:  # noqa: BLE001
        return ("EXC", type(e).__name__, str(e))
    return ("ok", m._rules.index(rule), rule.rule, norm(values))


def run_adapter(m, bind_kw, path, method, query_args):
    try:
        a = m.bind(**bind_kw)
        rv = a.match(path, method=method, query_args=query_args)
    except RequestRedirect as e:
        return ("redirect", e.new_url, e.code)
    except HTTPException as e:
        vm = getattr(e, "valid_methods", None)
        return ("http", type(e).__name__, norm(set(vm)) if vm else None)
    except Exception as e:  # noqa: BLE001
        return ("EXC", type(e).__name__, str(e))
    return ("ok", repr(rv[0]), norm(rv[1]))


def main():
    rnd = random.Random(20261002)
    total = 0
    kinds = {}
    for _ in range(700):
        specs = make_rule_specs(rnd)
        map_kw = {
            "strict_slashes": rnd.random() < 0.7,
            "merge_slashes": rnd.random() < 0.7,
            "redirect_defaults": rnd.random() < 0.8,
        }
        if rnd.random() < 0.15:
            map_kw["host_matching"] = True
            specs = [
                (r, {**{k: v for k, v in kw.items() if k != "subdomain"},
                     "host": rnd.choice(["example.org", "<h>", "other.org"])})
                for r, kw in specs
            ]
        try:
            m_new = make_map(specs, map_kw, StateMachineMatcher)
            m_old = make_map(specs, map_kw, OrigStateMachineMatcher)
        except Exception as e:  # noqa: BLE001
            # both constructions use identical non-matcher code
            continue
        for _ in range(30):
            path = make_path(rnd, specs)
            method = rnd.choice(["GET", "POST", "PUT", "HEAD", "--"])
            websocket = rnd.random() < 0.15
            if map_kw.get("host_matching"):
                domain = rnd.choice(["example.org", "other.org", "x.y"])
            else:
                domain = rnd.choice(["", "", "", "sub", "zzz"])
            a = run_matcher(m_new, domain, path, method, websocket)
            b = run_matcher(m_old, domain, path, method, websocket)
            total += 1
            kinds[a[0]] = kinds.get(a[0], 0) + 1
            if a != b:
                print("MISMATCH (matcher)", specs, map_kw, domain, path, method,
                      websocket, a, b)
                print("FAIL")
                return 1
            bind_kw = {
                "server_name": "example.org",
                "script_name": rnd.choice([None, "/", "/app", "/app/"]),
                "url_scheme": rnd.choice(["http", "https", "ws"]),
            }
            if not map_kw.get("host_matching"):
                bind_kw["subdomain"] = rnd.choice([None, None, "", "sub", "zzz"])
            qa = rnd.choice([None, "", "a=1&b=2", {"k": "v w"}, {}])
            a = run_adapter(m_new, bind_kw, path, method, qa)
            b = run_adapter(m_old, bind_kw, path, method, qa)
            total += 1
            kinds["adapter:" + a[0]] = kinds.get("adapter:" + a[0], 0) + 1
            if a != b:
                print("MISMATCH (adapter)", specs, map_kw, bind_kw, path,
                      method, qa, a, b)
                print("FAIL")
                return 1
    print("cases:", total, kinds)
    print("PASS")
    return 0


if __name__ == "__main__":
    sys.exit(main())
