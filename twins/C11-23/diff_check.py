"""Differential check for refactoring 2 (werkzeug.http.parse_range_header).

Compares the worktree implementation against a pasted copy of the original,
including what Range.range_for_length / to_content_range_header derive from it.
"""
from __future__ import annotations

import random

from werkzeug import datastructures as ds
from werkzeug._internal import _plain_int
from werkzeug.http import parse_range_header as new_parse_range_header


def orig_parse_range_header(
    value: str | None, make_inclusive: bool = True
) -> ds.Range | None:
    """Parses a range header into a :class:`~werkzeug.datastructures.Range`
    object.  If the header is missing or malformed `None` is returned.
    `ranges` is a list of ``(start, stop)`` tuples where the ranges are
    non-inclusive.

    .. versionadded:: 0.7
    """
    if not value or "=" not in value:
        return None

    ranges = []
    last_end = 0
    units, rng = value.split("=", 1)
    units = units.strip().lower()

    for item in rng.split(","):
        item = item.strip()
        if "-" not in item:
            return None
        if item.startswith("-"):
            if last_end < 0:
                return None
            try:
                begin = _plain_int(item)
            except ValueError:
                return None
            end = None
            last_end = -1
        elif "-" in item:
            begin_str, end_str = item.split("-", 1)
            begin_str = begin_str.strip()
            end_str = end_str.strip()

            try:
                begin = _plain_int(begin_str)
            except ValueError:
                return None

            if begin < last_end or last_end < 0:
                return None
            if end_str:
                if end_str.startswith("-"):
                    # _plain_int accepts a sign, a position does not have one
                    return None

                try:
                    end = _plain_int(end_str) + 1
                except ValueError:
                    return None

                if begin >= end:
                    return None
            else:
                end = None
            last_end = end if end is not None else -1
        ranges.append((begin, end))

    return ds.Range(units, ranges)


def run(fn, value):
    try:
        r = fn(value)
    except BaseException as e:  # noqa: B036
        return ("exc", type(e).__name__, str(e))
    if r is None:
        return ("none",)
    return (
        "range",
        type(r).__name__,
        r.units,
        list(r.ranges),
        r.to_header(),
        [(n, r.range_for_length(n), r.to_content_range_header(n)) for n in (0, 1, 10, 100, None)],
    )


NUMS = ["0", "1", "5", "9", "10", "11", "99", "100", "500", "007", "", " 3", "3 ", "-1",
        "+2", "1_0", "\u0663", "a", "1.5", "0x1", "9" * 30, "9" * 5000, "\t4", "\xa05"]
UNITS = ["bytes", "Bytes", " bytes ", "items", "", "bytes ", "b=c", "\tBYTES"]
SEPS = [",", ", ", " ,", ",,", " , "]
DASH = ["-", " - ", "--", "- ", " -", ""]
ALPHABET = "0123456789-,= \tab+_"


def gen(rnd):
    k = rnd.random()
    if k < 0.15:
        n = rnd.randrange(0, 12)
        return "".join(rnd.choice(ALPHABET) for _ in range(n))
    if k < 0.25:
        return "bytes=" + "".join(rnd.choice("0123456789-, ") for _ in range(rnd.randrange(0, 12)))
    items = []
    for _ in range(rnd.choice([1, 1, 1, 2, 2, 3, 4])):
        kind = rnd.random()
        if kind < 0.2:
            items.append("-" + rnd.choice(NUMS))
        elif kind < 0.4:
            items.append(rnd.choice(NUMS) + rnd.choice(DASH))
        elif kind < 0.5:
            items.append(rnd.choice(NUMS))
        else:
            items.append(rnd.choice(NUMS) + rnd.choice(DASH) + rnd.choice(NUMS))
    pad = rnd.choice(["", "", " "])
    eq = rnd.choice(["=", "=", "=", " = ", "", "=="])
    return rnd.choice(UNITS) + eq + pad + rnd.choice(SEPS).join(items) + pad


def main():
    rnd = random.Random(1102)
    cases = [None, "", "bytes", "=", "bytes=", "bytes=-", "bytes=0-", "bytes=-0", "bytes=0-0",
             "bytes=0-499", "bytes=500-", "bytes=-500", "bytes=0-0,-1", "bytes=5-,7-8",
             "bytes=-5,0-3", "bytes=0-3,2-5", "bytes=0-3,4-5", "bytes=0-3,3-5", "bytes=3-2",
             "bytes=1--2", "bytes=1- -2", "bytes=--1", "bytes=0-1-2", b"bytes=0-1", 5]
    # ordered numeric ranges: many well formed single and multi ranges
    for _ in range(8000):
        n = rnd.choice([1, 1, 2, 3])
        parts = []
        for _ in range(n):
            a = rnd.randrange(0, 120)
            t = rnd.random()
            if t < 0.2:
                parts.append(f"-{a}")
            elif t < 0.4:
                parts.append(f"{a}-")
            else:
                parts.append(f"{a}-{rnd.randrange(0, 140)}")
        cases.append("bytes=" + rnd.choice([",", ", "]).join(parts))
    for _ in range(30000):
        cases.append(gen(rnd))
    bad = 0
    kinds = {}
    for v in cases:
        a = run(orig_parse_range_header, v)
        b = run(new_parse_range_header, v)
        key = a[0] if a[0] != "exc" else a[:2]
        kinds[key] = kinds.get(key, 0) + 1
        if a != b:
            bad += 1
            if bad <= 10:
                print("MISMATCH", repr(v)[:80], a, b)
    print("cases", len(cases), "outcomes", kinds)
    print("PASS" if bad == 0 else f"FAIL ({bad})")


if __name__ == "__main__":
    main()
