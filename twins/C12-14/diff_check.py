"""Differential check for refactoring 2 (MapAdapter.get_host / encode_query_args /
make_redirect_url).

Run: cd /tmp/wt12-C12 && PYTHONPATH=/tmp/wt12-C12/src /venv/bin/python /tmp/twin7-C12/2/diff_check.py
"""
# --- shared input generator (pasted into every diff_check.py) -------------
import random
import re

from werkzeug.exceptions import HTTPException
from werkzeug.exceptions import MethodNotAllowed
from werkzeug.routing import Map
from werkzeug.routing import RequestRedirect
from werkzeug.routing import Rule
from werkzeug.routing import Submount
from werkzeug.routing import Subdomain

STATIC = ["a", "b", "foo", "bar.html", "x-y", "café", "a b", "%2f", ""]
DYNAMIC = [
    "<x>",
    "<int:n>",
    "<path:p>",
    "<string(length=2):s>",
    "<any(a,b,foo):c>",
    "<float:f>",
    "<int(signed=True):n>",
    "pre<x>",
    "<x>.html",
]
METHODS = [None, None, ["GET"], ["POST"], ["GET", "POST"], ["PUT", "DELETE"]]
TRI = [None, None, True, False]


def rand_template(rng):
    n = rng.randint(0, 4)
    segs = []
    used = set()
    for _ in range(n):
        if rng.random() < 0.55:
            segs.append(rng.choice(STATIC[:-1]))
        else:
            d = rng.choice(DYNAMIC)
            name = re.search(r"(\w+)>", d).group(1)
            if name in used:
                segs.append(rng.choice(STATIC[:-1]))
            else:
                used.add(name)
                segs.append(d)
    tpl = "/" + "/".join(segs)
    if segs and rng.random() < 0.45:
        tpl += "/"
    if rng.random() < 0.05:
        tpl = tpl.replace("/", "//", 1)
    return tpl


def rand_rule_spec(rng, endpoints):
    tpl = rand_template(rng)
    kw = {
        "endpoint": rng.choice(endpoints),
        "methods": rng.choice(METHODS),
        "strict_slashes": rng.choice(TRI),
        "merge_slashes": rng.choice(TRI),
    }
    r = rng.random()
    if r < 0.12:
        kw["alias"] = True
    elif r < 0.18:
        kw["build_only"] = True
    elif r < 0.24:
        kw["websocket"] = True
        if kw["methods"] is not None:
            kw["methods"] = ["GET"]
    elif r < 0.30:
        kw["redirect_to"] = rng.choice(["/target/<x>", "target", "//other.example/t"])
    if rng.random() < 0.3:
        kw["defaults"] = rng.choice(
            [{"n": 1}, {"x": "a"}, {"p": "a/b"}, {"n": 1, "x": "b"}, {"extra": 5}]
        )
    if rng.random() < 0.2:
        kw["subdomain"] = rng.choice(["", "www", "<sub>", "api"])
    return ("rule", tpl, kw)


CURATED = [
    # defaults canonicalisation
    [
        ("rule", "/page/", {"endpoint": "page", "defaults": {"n": 1}}),
        ("rule", "/page/<int:n>", {"endpoint": "page"}),
    ],
    [
        ("rule", "/page", {"endpoint": "page", "defaults": {"n": 1}}),
        ("rule", "/page/<int:n>/", {"endpoint": "page"}),
    ],
    [
        ("rule", "/p/<x>/", {"endpoint": "p", "defaults": {"n": 1}}),
        ("rule", "/p/<x>/<int:n>/", {"endpoint": "p"}),
        ("rule", "/p/<x>/<int:n>/edit", {"endpoint": "p", "methods": ["POST"]}),
    ],
    # alias canonicalisation
    [
        ("rule", "/old/<x>", {"endpoint": "e", "alias": True}),
        ("rule", "/new/<x>", {"endpoint": "e"}),
    ],
    [
        ("rule", "/old/<x>/", {"endpoint": "e", "alias": True}),
        ("rule", "/new/<path:x>/", {"endpoint": "e"}),
    ],
    [
        ("rule", "/users/", {"endpoint": "users", "defaults": {"n": 1}}),
        ("rule", "/users/page/<int:n>", {"endpoint": "users"}),
        ("rule", "/users/index.html", {"endpoint": "users", "defaults": {"n": 1},
                                       "alias": True}),
    ],
    # lone alias -> assertion/build error
    [("rule", "/lonely/<x>", {"endpoint": "lonely", "alias": True})],
    # slashes
    [
        ("rule", "/", {"endpoint": "index"}),
        ("rule", "/a/", {"endpoint": "a"}),
        ("rule", "/a/b", {"endpoint": "ab"}),
        ("rule", "/<path:p>/", {"endpoint": "catch"}),
    ],
    [
        ("rule", "/a/", {"endpoint": "a", "methods": ["POST"]}),
        ("rule", "/a", {"endpoint": "a2", "methods": ["GET"], "strict_slashes": False}),
    ],
    [
        ("rule", "/m/<x>/", {"endpoint": "m", "merge_slashes": False}),
        ("rule", "/m2/<x>/", {"endpoint": "m2", "merge_slashes": True}),
        ("rule", "/ws/", {"endpoint": "ws", "websocket": True}),
    ],
    [
        ("rule", "/<x>/", {"endpoint": "sub", "subdomain": "<sub>"}),
        ("rule", "/a/", {"endpoint": "www", "subdomain": "www",
                         "defaults": {"x": "a"}}),
        ("rule", "/b/<x>/", {"endpoint": "www", "subdomain": "www"}),
    ],
]

SERVER_NAMES = ["example.com", "localhost:5000", "exämple.org", "[::1]:80"]
SCRIPT_NAMES = [None, "/", "/app", "/app/", "app", "//evil.example", "/a/b/", ""]
SUBDOMAINS = [None, None, "", "www", "api", "a.b"]
SCHEMES = ["http", "https", "ws", "wss", "", "HTTP"]
QUERY = [
    None,
    None,
    "",
    "a=1&b=2",
    "next=//evil.example/",
    "q=a%20b",
    {},
    {"q": "x y"},
    {"a": ["1", "2"], "b": "é"},
    {"n": 3, "none": None},
]
REQ_METHODS = [None, "GET", "get", "POST", "PUT", "HEAD", "OPTIONS", "--"]
PATH_SEGS = [
    "a", "b", "foo", "bar.html", "x-y", "café", "a b", "%2f", "1", "2", "-1",
    "01", "1.5", "ab", "page", "p", "old", "new", "users", "index.html", "m", "m2",
    "ws", "evil.example", "lonely", "edit", "prea", "c.html", "\\evil.example",
    "@evil.example", ":80", "..", ".", "?", "#", "a;b", "", "",
]


def rand_path(rng):
    r = rng.random()
    if r < 0.03:
        return None
    if r < 0.06:
        return ""
    n = rng.randint(0, 5)
    segs = [rng.choice(PATH_SEGS) for _ in range(n)]
    lead = rng.choice(["/", "/", "/", "", "//", "///", "/\\"])
    trail = rng.choice(["", "", "/", "//"])
    return lead + "/".join(segs) + trail


FILL = {
    "x": ["a", "b", "foo", "a b", "café", "evil.example"],
    "n": ["1", "2", "01", "-1", "x"],
    "p": ["a/b", "a", "a//b", "evil.example/a"],
    "s": ["ab", "abc"],
    "c": ["a", "foo", "zzz"],
    "f": ["1.5", "1"],
    "sub": ["www"],
    "host": ["example.com"],
}


def path_from_spec(rng, spec):
    """A request path derived from one of the rules, with slash mutations."""
    if not spec:
        return rand_path(rng)
    tpl = rng.choice(spec)[1]
    path = re.sub(
        r"<[^>]*?(\w+)>", lambda m: rng.choice(FILL.get(m.group(1), ["a"])), tpl
    )
    for _ in range(rng.randint(0, 2)):
        r = rng.random()
        if r < 0.3:
            path = path.rstrip("/")
        elif r < 0.5:
            path = path + "/"
        elif r < 0.7 and "/" in path:
            idx = rng.choice([i for i, ch in enumerate(path) if ch == "/"])
            path = path[:idx] + "/" * rng.randint(2, 3) + path[idx + 1 :]
        elif r < 0.8:
            path = path.lstrip("/")
        elif r < 0.9:
            path = "//" + path.lstrip("/")
    return path


def build_map(spec, map_kw):
    rules = []
    for item in spec:
        kind, tpl, kw = item
        rules.append(Rule(tpl, **{k: (dict(v) if isinstance(v, dict) else v)
                                  for k, v in kw.items()}))
    return Map(rules, **map_kw)


def rand_case(rng):
    spec = []
    if rng.random() < 0.7:
        for group in rng.sample(CURATED, rng.randint(1, 3)):
            for kind, tpl, kw in group:
                kw = dict(kw)
                if rng.random() < 0.15:
                    kw["strict_slashes"] = rng.choice(TRI)
                if rng.random() < 0.15:
                    kw["merge_slashes"] = rng.choice(TRI)
                spec.append((kind, tpl, kw))
    endpoints = ["e1", "e2", "e3", "page", "e"]
    for _ in range(rng.randint(0, 6)):
        spec.append(rand_rule_spec(rng, endpoints))
    rng.shuffle(spec)
    map_kw = {
        "strict_slashes": rng.random() < 0.8,
        "merge_slashes": rng.random() < 0.8,
        "redirect_defaults": rng.random() < 0.85,
    }
    if rng.random() < 0.15:
        map_kw["host_matching"] = True
        spec = [
            (k, t_, {**{a: b for a, b in kw.items() if a != "subdomain"},
                     "host": rng.choice(["example.com", "<host>", "www.example.com",
                                         "localhost:5000"])})
            for k, t_, kw in spec
        ]
    elif rng.random() < 0.2:
        map_kw["default_subdomain"] = rng.choice(["www", "api"])
    bind_kw = {
        "server_name": rng.choice(SERVER_NAMES),
        "script_name": rng.choice(SCRIPT_NAMES),
        "subdomain": None if map_kw.get("host_matching") else rng.choice(SUBDOMAINS),
        "url_scheme": rng.choice(SCHEMES),
        "default_method": rng.choice(["GET", "GET", "POST"]),
        "path_info": rng.choice([None, None, "/a", "a/", "//page"]),
        "query_args": rng.choice(QUERY),
    }
    calls = []
    for _ in range(rng.randint(4, 10)):
        calls.append(
            {
                "path_info": (
                    path_from_spec(rng, spec) if rng.random() < 0.7 else rand_path(rng)
                ),
                "method": rng.choice(REQ_METHODS),
                "return_rule": rng.random() < 0.3,
                "query_args": rng.choice(QUERY),
                "websocket": rng.choice([None, None, None, True, False]),
            }
        )
    return spec, map_kw, bind_kw, calls


def freeze(v):
    if isinstance(v, dict):
        return ("dict", tuple((k, freeze(x)) for k, x in v.items()))
    if isinstance(v, (list, tuple)):
        return (type(v).__name__, tuple(freeze(x) for x in v))
    if isinstance(v, (set, frozenset)):
        return ("set", tuple(sorted(map(repr, v))))
    if isinstance(v, Rule):
        return ("Rule", v.rule, repr(v))
    return (type(v).__name__, repr(v))


def outcome(fn, *args, **kwargs):
    """Run fn and describe result or raised exception in a comparable form."""
    try:
        rv = fn(*args, **kwargs)
    except RequestRedirect as e:
        return ("RequestRedirect", e.new_url, e.code)
    except MethodNotAllowed as e:
        return ("MethodNotAllowed", tuple(e.valid_methods))
    except HTTPException as e:
        return (type(e).__name__, e.code)
    except BaseException as e:  # noqa: B036
        attrs = {
            name: getattr(e, name)
            for name in (
                "path_info",
                "have_match_for",
                "websocket_mismatch",
                "matched_values",
                "endpoint",
            )
            if hasattr(e, name)
        }
        return (type(e).__name__, repr(getattr(e, "args", None)), freeze(attrs))
    return ("ok", freeze(rv))
# --- end shared input generator --------------------------------------------


# --- ORIGINAL implementation (copied from the unmodified tree) -------------
import typing as t
from urllib.parse import urlunsplit

from werkzeug.routing import map as map_mod
from werkzeug.routing.map import MapAdapter
from werkzeug.urls import _urlencode


class OrigAdapter(MapAdapter):
    def get_host(self, domain_part: str | None) -> str:
        """Figures out the full host name for the given domain part.  The
        domain part is a subdomain in case host matching is disabled or
        a full host name.
        """
        if self.map.host_matching:
            if domain_part is None:
                return self.server_name

            return domain_part

        if domain_part is None:
            subdomain = self.subdomain
        else:
            subdomain = domain_part

        if subdomain:
            return f"{subdomain}.{self.server_name}"
        else:
            return self.server_name

    def encode_query_args(self, query_args: t.Mapping[str, t.Any] | str) -> str:
        if not isinstance(query_args, str):
            return _urlencode(query_args)
        return query_args

    def make_redirect_url(
        self,
        path_info: str,
        query_args: t.Mapping[str, t.Any] | str | None = None,
        domain_part: str | None = None,
    ) -> str:
        """Creates a redirect URL.

        :internal:
        """
        if query_args is None:
            query_args = self.query_args

        if query_args:
            query_str = self.encode_query_args(query_args)
        else:
            query_str = None

        scheme = self.url_scheme or "http"
        host = self.get_host(domain_part)
        path = "/".join((self.script_name.strip("/"), path_info.lstrip("/")))
        return urlunsplit((scheme, host, path, query_str, None))


# --- end ORIGINAL -----------------------------------------------------------

assert map_mod.__file__.startswith("/tmp/wt12-C12/"), map_mod.__file__
for _name in ("get_host", "encode_query_args", "make_redirect_url"):
    assert _name in MapAdapter.__dict__ and _name in OrigAdapter.__dict__

DOMAIN_PARTS = [None, None, "", "www", "api", "a.b", "example.com", "evil.example", 0]
EXTRA_QUERY = [
    [("a", "1"), ("b", "2")],
    (("a", "1"),),
    {"k": b"bytes"},
    b"raw=bytes",
    0,
    3,
    "?x=1",
    "é=ü",
]


def main():
    rng = random.Random(12022)
    n_maps = n_match = n_direct = 0
    kinds = {}
    for _ in range(1500):
        spec, map_kw, bind_kw, calls = rand_case(rng)
        try:
            new_map = build_map(spec, map_kw)
            old_map = build_map(spec, map_kw)
        except Exception:
            continue
        a = outcome(new_map.bind, **bind_kw)
        b = outcome(old_map.bind, **bind_kw)
        if a[0] != "ok":
            assert a == b
            continue
        n_maps += 1
        new_ad = new_map.bind(**bind_kw)
        old_ad = old_map.bind(**bind_kw)
        assert type(old_ad) is MapAdapter
        old_ad.__class__ = OrigAdapter
        if rng.random() < 0.1:
            # adapters can also be constructed with unusual attribute values
            weird = rng.choice([None, "", "www"])
            new_ad.subdomain = old_ad.subdomain = weird
        # direct calls of the URL assembly helpers
        for _ in range(4):
            dp = rng.choice(DOMAIN_PARTS)
            a = outcome(new_ad.get_host, dp)
            b = outcome(old_ad.get_host, dp)
            assert a == b, ("get_host", map_kw, bind_kw, dp, a, b)
            q = rng.choice(QUERY + EXTRA_QUERY)
            if q is not None:
                a = outcome(new_ad.encode_query_args, q)
                b = outcome(old_ad.encode_query_args, q)
                assert a == b, ("encode_query_args", q, a, b)
            path = rand_path(rng) or ""
            a = outcome(new_ad.make_redirect_url, path, q, dp)
            b = outcome(old_ad.make_redirect_url, path, q, dp)
            assert a == b, ("make_redirect_url", map_kw, bind_kw, path, q, dp, a, b)
            a = outcome(new_ad.make_redirect_url, path)
            b = outcome(old_ad.make_redirect_url, path)
            assert a == b, ("make_redirect_url/1", map_kw, bind_kw, path, a, b)
            n_direct += 4
        # full matching (slash, merged slash, defaults and alias redirects)
        for call in calls:
            a = outcome(new_ad.match, **call)
            b = outcome(old_ad.match, **call)
            assert a == b, ("match", spec, map_kw, bind_kw, call, a, b)
            kinds[a[0]] = kinds.get(a[0], 0) + 1
            n_match += 1
            # external builds also go through get_host
            if a[0] == "ok" and not call["return_rule"]:
                endpoint = new_ad.match(**call)[0]
                values = new_ad.match(**call)[1]
                a = outcome(new_ad.build, endpoint, dict(values), force_external=True)
                b = outcome(old_ad.build, endpoint, dict(values), force_external=True)
                assert a == b, ("build", spec, map_kw, bind_kw, call, a, b)
    print(f"maps={n_maps} direct_calls={n_direct} match_calls={n_match}")
    print("match outcome kinds:", dict(sorted(kinds.items())))
    assert n_direct + n_match > 5000
    assert kinds.get("RequestRedirect", 0) > 300
    print("PASS")


if __name__ == "__main__":
    main()
