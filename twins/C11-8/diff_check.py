"""Differential check for refactoring 2 (C11).

Compares the refactored Response._process_range_request /
Response.make_conditional against copies of the ORIGINAL methods (pasted
below into a subclass) on generated responses x request environs.

Run: cd /tmp/wt9-C11 && PYTHONPATH=/tmp/wt9-C11/src /venv/bin/python /tmp/twin5-C11/2/diff_check.py
"""
import io
import random
from datetime import datetime
from datetime import timedelta
from datetime import timezone

from werkzeug.http import http_date
from werkzeug.test import create_environ
from werkzeug.test import run_wsgi_app
from werkzeug.wrappers import response as R
from werkzeug.wrappers import Response
from werkzeug.wsgi import wrap_file

# freeze the Date header value for both implementations
FIXED_DATE = "Thu, 01 Jan 2026 00:00:00 GMT"
R.http_date = lambda *a, **k: FIXED_DATE if not a and not k else http_date(*a, **k)


class OrigResponse(Response):
    """Response with the ORIGINAL (pre-refactoring) method bodies."""

    def _process_range_request(self, environ, complete_length, accept_ranges):
        from werkzeug.exceptions import RequestedRangeNotSatisfiable

        if (
            not accept_ranges
            or complete_length is None
            or complete_length == 0
            or not self._is_range_request_processable(environ)
        ):
            return False

        if accept_ranges is True:
            accept_ranges = "bytes"

        parsed_range = R.parse_range_header(environ.get("HTTP_RANGE"))

        if parsed_range is None:
            raise RequestedRangeNotSatisfiable(complete_length)

        range_tuple = parsed_range.range_for_length(complete_length)
        content_range_header = parsed_range.to_content_range_header(complete_length)

        if range_tuple is None or content_range_header is None:
            raise RequestedRangeNotSatisfiable(complete_length)

        content_length = range_tuple[1] - range_tuple[0]
        self.headers["Content-Length"] = str(content_length)
        self.headers["Accept-Ranges"] = accept_ranges
        self.content_range = content_range_header  # type: ignore
        self.status_code = 206
        self._wrap_range_response(range_tuple[0], content_length)
        return True

    def make_conditional(
        self, request_or_environ, accept_ranges=False, complete_length=None
    ):
        environ = R._get_environ(request_or_environ)
        if environ["REQUEST_METHOD"] in ("GET", "HEAD"):
            if "date" not in self.headers:
                self.headers["Date"] = R.http_date()
            is206 = self._process_range_request(environ, complete_length, accept_ranges)
            if not is206 and not R.is_resource_modified(
                environ,
                self.headers.get("etag"),
                None,
                self.headers.get("last-modified"),
            ):
                if R.parse_etags(environ.get("HTTP_IF_MATCH")):
                    self.status_code = 412
                else:
                    self.status_code = 304
            if (
                self.automatically_set_content_length
                and "content-length" not in self.headers
            ):
                length = self.calculate_content_length()
                if length is not None:
                    self.headers["Content-Length"] = str(length)
        return self


assert "is206" not in Response.make_conditional.__code__.co_varnames, (
    "worktree does not contain the refactoring"
)


class NonSeekable:
    def __init__(self, data):
        self._f = io.BytesIO(data)

    def read(self, n=-1):
        return self._f.read(n)

    def close(self):
        self._f.close()


DATA = bytes(range(256)) * 2  # 512 bytes
BASE = datetime(2025, 6, 1, 12, 0, 0, tzinfo=timezone.utc)


def make_body(kind, data, environ):
    if kind == "bytes":
        return data
    if kind == "chunks":
        return [data[i : i + 37] for i in range(0, len(data), 37)]
    if kind == "gen":
        return (data[i : i + 100] for i in range(0, len(data), 100))
    if kind == "seekable":
        return wrap_file(environ, io.BytesIO(data), 64)
    if kind == "nonseekable":
        return wrap_file(environ, NonSeekable(data), 50)
    raise AssertionError(kind)


def build(cls, spec, environ):
    data = DATA[: spec["size"]]
    body = make_body(spec["body"], data, environ)
    rv = cls(body, direct_passthrough=spec["passthrough"])
    if spec["etag"] is not None:
        rv.set_etag(spec["etag"], weak=spec["weak"])
    if spec["lm"] is not None:
        rv.last_modified = spec["lm"]
    if spec["preset_date"]:
        rv.headers["Date"] = "Wed, 01 Jan 2020 00:00:00 GMT"
    if spec["preset_cl"]:
        rv.headers["Content-Length"] = str(len(data))
    if spec["preset_status"] is not None:
        rv.status_code = spec["preset_status"]
    rv.automatically_set_content_length = spec["auto_cl"]
    return rv


def run(cls, spec, req):
    environ = create_environ("/x", method=req["method"], headers=req["headers"])
    try:
        rv = build(cls, spec, environ)
        arg = environ
        if req["as_request"]:
            from werkzeug.wrappers import Request

            arg = Request(environ)
        out = rv.make_conditional(
            arg,
            accept_ranges=req["accept_ranges"],
            complete_length=req["complete_length"],
        )
        same_obj = out is rv
        status_code = rv.status_code
        hdrs = rv.headers.to_wsgi_list()
        wrapped = type(rv.response).__name__
        cr = str(rv.content_range)
        app_iter, status, headers = run_wsgi_app(rv, environ, buffered=True)
        body = b"".join(app_iter)
        return ("ok", same_obj, status_code, hdrs, wrapped, cr, status, list(headers), body)
    except Exception as e:
        extra = None
        if hasattr(e, "get_headers"):
            extra = (getattr(e, "code", None), e.get_headers(environ), e.description)
        return ("exc", type(e).__name__, extra)


rnd = random.Random(2202)

ETAGS = ["abc", "xyz", "W", ""]


def rand_etag_header():
    n = rnd.randint(1, 3)
    parts = []
    for _ in range(n):
        t = rnd.choice(["abc", "xyz", "nope"])
        form = rnd.randint(0, 3)
        parts.append([f'"{t}"', f'W/"{t}"', t, "*"][form])
    return ", ".join(parts)


def rand_date():
    delta = rnd.choice([-86400, -2, -1, 0, 0, 1, 2, 86400])
    return http_date(BASE + timedelta(seconds=delta))


def rand_range(size):
    form = rnd.randint(0, 9)
    a = rnd.randint(0, size + 20)
    b = rnd.randint(0, size + 20)
    if form == 0:
        return f"bytes={a}-{b}"
    if form == 1:
        return f"bytes={min(a, b)}-{max(a, b)}"
    if form == 2:
        return f"bytes={a}-"
    if form == 3:
        return f"bytes=-{a}"
    if form == 4:
        return f"bytes={min(a, b)}-{max(a, b)},{a}-"
    if form == 5:
        return rnd.choice(["bytes=", "bytes=x-y", "bytes", "", "items=0-5", "bytes=--5", "bytes=5"])
    if form == 6:
        return "bytes=0-0"
    if form == 7:
        return f"bytes={size - 1}-"
    if form == 8:
        return f"bytes={size}-"
    return f"Bytes={min(a, b)}-{max(a, b)}"


count = 0
failures = []
seen_status = {}
N = 6000
for _ in range(N):
    size = rnd.choice([0, 1, 10, 100, 512])
    spec = {
        "size": size,
        "body": rnd.choice(["bytes", "chunks", "gen", "seekable", "nonseekable"]),
        "passthrough": rnd.random() < 0.3,
        "etag": rnd.choice([None, "abc", "abc", "xyz"]),
        "weak": rnd.random() < 0.3,
        "lm": rnd.choice([None, BASE, BASE]),
        "preset_date": rnd.random() < 0.3,
        "preset_cl": rnd.random() < 0.3,
        "preset_status": rnd.choice([None, None, None, 201, 404]),
        "auto_cl": rnd.random() < 0.8,
    }
    headers = {}
    if rnd.random() < 0.7:
        headers["Range"] = rand_range(size)
    if rnd.random() < 0.3:
        headers["If-Range"] = rnd.choice(
            ['"abc"', '"xyz"', 'W/"abc"', rand_date(), "garbage", ""]
        )
    if rnd.random() < 0.35:
        headers["If-None-Match"] = rand_etag_header()
    if rnd.random() < 0.25:
        headers["If-Match"] = rand_etag_header()
    if rnd.random() < 0.35:
        headers["If-Modified-Since"] = rnd.choice([rand_date(), "junk"])
    if rnd.random() < 0.2:
        headers["If-Unmodified-Since"] = rnd.choice([rand_date(), "junk"])
    req = {
        "method": rnd.choice(["GET", "GET", "GET", "HEAD", "POST", "PUT", "get"]),
        "headers": headers,
        "as_request": rnd.random() < 0.3,
        "accept_ranges": rnd.choice([True, True, True, False, "bytes", "none", "", 1, 0]),
        "complete_length": rnd.choice(
            [size, size, size, size, None, 0, size + 5, max(size - 3, 0)]
        ),
    }
    a = run(OrigResponse, spec, req)
    b = run(Response, spec, req)
    count += 1
    key = a[2] if a[0] == "ok" else a[1]
    seen_status[key] = seen_status.get(key, 0) + 1
    if a != b:
        failures.append((spec, req, a, b))

print("coverage of outcomes:", dict(sorted(seen_status.items(), key=str)))
for need in (200, 206, 304, 412, "RequestedRangeNotSatisfiable"):
    assert seen_status.get(need, 0) > 20, f"too little coverage of {need}"
print(f"{count} comparisons, {len(failures)} failures")
for f in failures[:5]:
    print("  MISMATCH", f)
print("PASS" if not failures else "FAIL")
