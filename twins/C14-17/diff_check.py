"""Differential check: refactored werkzeug.utils.secure_filename vs. the original."""
import os
import random
import re
import unicodedata

import werkzeug.utils as wu

_filename_ascii_strip_re = re.compile(r"[^A-Za-z0-9_.-]")
_windows_device_files = {
    "CON",
    "PRN",
    "AUX",
    "NUL",
    *(f"COM{i}" for i in range(10)),
    *(f"LPT{i}" for i in range(10)),
}


def orig_secure_filename(filename):
    filename = unicodedata.normalize("NFKD", filename)
    filename = filename.encode("ascii", "ignore").decode("ascii")

    for sep in os.sep, os.path.altsep:
        if sep:
            filename = filename.replace(sep, " ")
    filename = str(_filename_ascii_strip_re.sub("", "_".join(filename.split()))).strip(
        "._"
    )

    if (
        os.name == "nt"
        and filename
        and filename.split(".")[0].upper() in _windows_device_files
    ):
        filename = f"_{filename}"

    return filename


def run(f, a):
    try:
        r = f(a)
        return ("ok", type(r).__name__, r)
    except BaseException as e:  # noqa: B036
        return ("exc", type(e).__name__)


ATOMS = [
    "", ".", "..", "/", "\\", "\x00", " ", "\t", "\n", " ", " ", "　",
    "_", "-", "__", "._", "a", "B", "7", ".txt", "con", "CON", "nul", "Com1", "lpt9",
    "LPT10", "aux", "prn", "ü", "ä", "ﬁ", "／", "＼", "∕",
    "․", "．", "K", "ß", "\U0001f600", "é", "%2f", ":", "~",
    "\x1f", "\x7f", "\x85", " ", "\ud800",
]
ODD = [None, b"abc", 3, ["a"]]


class S(str):
    pass


def main():
    rng = random.Random(1402)
    cases = list(ATOMS)
    for a in ATOMS:
        for b in ATOMS:
            cases.append(a + b)
            cases.append(a + "." + b)
    for _ in range(20000):
        cases.append("".join(rng.choice(ATOMS) for _ in range(rng.randint(0, 8))))
    for _ in range(5000):
        cases.append(
            "".join(chr(rng.choice([rng.randrange(0, 0x250), rng.randrange(0x2000, 0x3100),
                                    rng.randrange(0xFF00, 0xFFF0)]))
                    for _ in range(rng.randint(0, 10)))
        )
    cases += [S(c) for c in ATOMS]
    cases += ODD

    bad = 0
    total = 0
    real = (os.name, os.sep, os.path.altsep)
    for name, altsep in ((real[0], real[2]), ("nt", "/"), ("nt", "\\"), ("posix", "\\")):
        os.name, os.path.altsep = name, altsep
        try:
            results = [(c, run(orig_secure_filename, c), run(wu.secure_filename, c))
                       for c in cases]
        finally:
            os.name, os.path.altsep = real[0], real[2]
        for c, r1, r2 in results:
            total += 1
            if r1 != r2:
                bad += 1
                if bad < 10:
                    print("MISMATCH", name, repr(altsep), repr(c), r1, r2)
    # the refactored function is also still idempotent
    for c in cases:
        if isinstance(c, str):
            try:
                once = wu.secure_filename(c)
            except UnicodeError:
                continue
            if wu.secure_filename(once) != once:
                bad += 1
                print("NOT IDEMPOTENT", repr(c))
    print(f"{total} comparisons")
    print("PASS" if not bad else f"FAIL ({bad})")


if __name__ == "__main__":
    main()
