"""Differential check: refactored Response.get_app_iter and
ClosingIterator.__init__ vs. the original implementations."""
import random
from functools import partial

from werkzeug.wrappers import Response
from werkzeug.wsgi import ClosingIterator


class OrigClosingIterator:
    def __init__(self, iterable, callbacks=None):
        iterator = iter(iterable)
        self._next = partial(next, iterator)
        if callbacks is None:
            callbacks = []
        elif callable(callbacks):
            callbacks = [callbacks]
        else:
            callbacks = list(callbacks)
        iterable_close = getattr(iterable, "close", None)
        if iterable_close:
            callbacks.insert(0, iterable_close)
        self._callbacks = callbacks

    def __iter__(self):
        return self

    def __next__(self):
        return self._next()

    def close(self):
        for callback in self._callbacks:
            callback()


def orig_get_app_iter(self, environ, closing=OrigClosingIterator):
    status = self.status_code
    if (
        environ["REQUEST_METHOD"] == "HEAD"
        or 100 <= status < 200
        or status in (204, 304)
    ):
        iterable = ()
    elif self.direct_passthrough:
        return self.response  # type: ignore
    else:
        iterable = self.iter_encoded()
    return closing(iterable, self.close)


class Boom(Exception):
    pass


class Body:
    """Iterable with an optional close(), logging everything."""

    def __init__(self, log, items, close_mode):
        self.log = log
        self.items = items
        if close_mode == "method":
            self.close = self._close
        elif close_mode == "none_attr":
            self.close = None
        elif close_mode == "raises":
            self.close = self._close_raises
        # "absent": no attribute

    def __iter__(self):
        self.log.append("iter")
        return iter(self.items)

    def _close(self):
        self.log.append("body.close")

    def _close_raises(self):
        self.log.append("body.close!")
        raise Boom("close")


def make_iterable(rng, log):
    k = rng.randrange(7)
    items = [rng.choice([b"a", b"", b"xyz", "str", "é"]) for _ in range(rng.randrange(4))]
    if k == 0:
        return list(items)
    if k == 1:
        return tuple(items)

    if k == 2:
        def g():
            try:
                yield from items
            finally:
                log.append("gen.finally")

        return g()
    if k == 3:
        return Body(log, items, "method")
    if k == 4:
        return Body(log, items, rng.choice(["absent", "none_attr"]))
    if k == 5:
        return Body(log, items, "raises")
    return 5  # not iterable -> TypeError


def make_callbacks(rng, log):
    def cb(name, fail=False):
        def f():
            log.append(name)
            if fail:
                raise Boom(name)

        return f

    k = rng.randrange(8)
    if k == 0:
        return None
    if k == 1:
        return cb("single")
    if k == 2:
        return [cb(f"l{i}") for i in range(rng.randrange(4))]
    if k == 3:
        return tuple(cb(f"t{i}") for i in range(rng.randrange(4)))
    if k == 4:
        return (cb(f"g{i}") for i in range(rng.randrange(3)))
    if k == 5:
        return [cb("a"), cb("bad", True), cb("c")]
    if k == 6:
        return 7  # neither callable nor iterable -> TypeError
    return []


def drive(factory):
    """Build, iterate, close twice; return everything observable."""
    log = []
    out = []
    try:
        it, shared = factory(log)
    except Exception as e:
        return ("ctor-exc", type(e), log)
    try:
        out.append(("self-iter", iter(it) is it))
        for chunk in it:
            out.append(chunk)
    except Exception as e:
        out.append(("iter-exc", type(e)))
    for _ in range(2):
        try:
            it.close()
            out.append("closed")
        except Exception as e:
            out.append(("close-exc", type(e), str(e)))
    if isinstance(shared, list):
        out.append(("caller-list-len", len(shared)))
    out.append(("ncallbacks", len(it._callbacks), type(it._callbacks)))
    return (out, log)


def check_closing_iterator(rng):
    seed = rng.randrange(1 << 30)

    def factory(cls):
        def f(log):
            r = random.Random(seed)
            iterable = make_iterable(r, log)
            cbs = make_callbacks(r, log)
            return cls(iterable, cbs) if r.random() < 0.9 else cls(iterable), cbs

        return f

    return drive(factory(OrigClosingIterator)), drive(factory(ClosingIterator)), seed


STATUSES = [100, 101, 150, 199, 200, 201, 204, 205, 206, 301, 302, 304, 305, 404, 500, 99, 0]


def check_get_app_iter(rng):
    seed = rng.randrange(1 << 30)

    def factory(use_orig):
        def f(log):
            r = random.Random(seed)
            body = make_iterable(r, log)
            if body == 5:
                body = "plain string body é"
            resp = Response(body, status=r.choice(STATUSES))
            resp.direct_passthrough = r.random() < 0.3
            for i in range(r.randrange(3)):
                resp.call_on_close(lambda i=i: log.append(f"on_close{i}"))
            env = {"REQUEST_METHOD": r.choice(["GET", "HEAD", "POST", "head"])}
            if r.random() < 0.03:
                env = {}
            if use_orig:
                it = orig_get_app_iter(resp, env)
            else:
                it = resp.get_app_iter(env)
            log.append(("type", type(it).__name__.replace("Orig", ""), it is resp.response))
            if not hasattr(it, "_callbacks"):
                # direct passthrough: drive a thin wrapper so the harness is uniform
                class W:
                    _callbacks = ()

                    def __iter__(s):
                        return s

                    def __next__(s):
                        return next(s._it)

                    def close(s):
                        c = getattr(it, "close", None)
                        if c:
                            c()

                w = W()
                w._it = iter(it)
                return w, None
            return it, None

        return f

    return drive(factory(True)), drive(factory(False)), seed


def main():
    rng = random.Random(5053)
    n = bad = 0
    for _ in range(6000):
        a, b, seed = check_closing_iterator(rng)
        n += 1
        if a != b:
            bad += 1
            print("MISMATCH ClosingIterator", seed, a, b)
    for _ in range(6000):
        a, b, seed = check_get_app_iter(rng)
        n += 1
        if a != b:
            bad += 1
            print("MISMATCH get_app_iter", seed, a, b)
    print(f"{n} cases, {bad} mismatches")
    print("PASS" if bad == 0 else "FAIL")


if __name__ == "__main__":
    main()
