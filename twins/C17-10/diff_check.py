"""Differential check for refactoring 1 (parse_accept_header).

Run: cd /tmp/wt10-C17 && PYTHONPATH=/tmp/wt10-C17/src /venv/bin/python /tmp/twin6-C17/1/diff_check.py
"""
import random

from werkzeug import datastructures as ds
from werkzeug import http
from werkzeug.http import _q_value_re
from werkzeug.http import dump_options_header
from werkzeug.http import parse_list_header
from werkzeug.http import parse_options_header


def orig_parse_accept_header(value, cls=None):
    # verbatim copy of the ORIGINAL implementation
    if cls is None:
        cls = ds.Accept

    if not value:
        return cls(None)

    result = []

    for item in parse_list_header(value):
        item, options = parse_options_header(item)

        if "q" in options:
            # pop q, remaining options are reconstructed
            q_str = options.pop("q").strip()

            if _q_value_re.fullmatch(q_str) is None:
                # ignore an invalid q
                continue

            q = float(q_str)

            if q < 0 or q > 1:
                # ignore an invalid q
                continue
        else:
            q = 1

        if options:
            # reconstruct the media type with any options
            item = dump_options_header(item, options)

        result.append((item, q))

    return cls(result)


rnd = random.Random(1717)

VALUES = [
    "text/html", "text/*", "*/*", "*", "application/json", "application/xml",
    "text/plain", "image/png", "en", "en-US", "en_GB", "de", "fr-CH", "utf-8",
    "iso-8859-1", "gzip", "br", "identity", "*/html", "text", "", " ", "a/b/c",
    "TEXT/HTML", "text/html;level=1", "text/html; charset=utf-8",
]
QS = [
    "0", "1", "0.5", "0.8", "0.001", "1.0", "1.000", "0.0", "-0", "-0.0", "-1",
    "-0.5", "1.1", "2", "10", "1e0", "1e-1", ".5", "5.", "0.", "", " ", "abc",
    "nan", "inf", "-inf", "0x1", "1_0", "0,5", "+1", "+0.5", " 0.5 ", "0.5 ",
    "\u0661", "\u0660.\u0665", "0.\u0665", "9" * 400, "0." + "9" * 50, "1.5.2",
    '"0.5"', '"1"', '"abc"', '"-1"', "0.5;", "--1", "-", "1-", "00.5", "01",
    "0.50", "-00", "١",
]
PARAMS = [
    "", ";level=1", "; charset=utf-8", ";a=b;c=d", '; x="y, z"', ";q", ";Q=0.5",
    ";q=0.3;q=0.9", ";q*=utf-8''0.5", ";level=1;q=0.4;ext=1", "; foo",
    ";q*0=0;q*1=.5", ";=1",
]
SEPS = [",", ", ", " , ", ",,", ";", " "]
CLASSES = [None, ds.Accept, ds.MIMEAccept, ds.LanguageAccept, ds.CharsetAccept]


def gen_item():
    v = rnd.choice(VALUES)
    r = rnd.random()
    if r < 0.25:
        return v + rnd.choice(PARAMS)
    qkey = rnd.choice(["q", "q", "q", "Q", " q", "q "])
    eq = rnd.choice(["=", "=", "=", " = ", "= ", " ="])
    s = v + rnd.choice(PARAMS[:5]) + rnd.choice([";", "; ", " ;", " ; "])
    s += qkey + eq + rnd.choice(QS)
    if rnd.random() < 0.3:
        s += rnd.choice(PARAMS)
    return s


def gen_header():
    r = rnd.random()
    if r < 0.02:
        return rnd.choice([None, "", " ", ",", ";q=1", "q=0.5"])
    if r < 0.1:
        alphabet = "abc/*;=,q01.- \"\\'\t"
        return "".join(rnd.choice(alphabet) for _ in range(rnd.randint(0, 30)))
    n = rnd.randint(1, 7)
    return rnd.choice(SEPS[:4]).join(gen_item() for _ in range(n))


def observe(fn, value, cls):
    try:
        if cls is None and rnd.random() < 0.5:
            res = fn(value)
        else:
            res = fn(value, cls)
    except Exception as e:  # noqa: B902
        return ("exc", type(e))
    return (
        "ok",
        type(res),
        res.provided,
        [(v, q, type(q), repr(q)) for v, q in list.__iter__(res)],
    )


def main():
    n = 0
    for _ in range(20000):
        value = gen_header()
        for cls in CLASSES:
            state = rnd.getstate()
            a = observe(orig_parse_accept_header, value, cls)
            rnd.setstate(state)
            b = observe(http.parse_accept_header, value, cls)
            if a != b:
                print("MISMATCH", repr(value), cls, a, b)
                print("FAIL")
                return
            n += 1
    # sanity: make sure the generator exercises rejected and accepted q values
    assert list(http.parse_accept_header("a;q=2,b;q=0.5,c;q=x,d")) == [
        ("d", 1), ("b", 0.5)
    ]
    print(f"PASS ({n} comparisons)")


main()
