"""Differential check for C15 refactoring 3 (DispatcherMiddleware.__call__).

Compares werkzeug.middleware.dispatcher.DispatcherMiddleware from the worktree
on PYTHONPATH against a verbatim copy of the ORIGINAL class pasted below.
For each generated (mounts, environ) it compares: which application was
selected, the arguments it saw, the environ after the call, the return value,
the raised exception type, and the exact sequence of accesses made on the
mounts mapping and on the environ.  Prints PASS only if all are identical.

Run: cd /tmp/wt3-C15 && PYTHONPATH=/tmp/wt3-C15/src /venv/bin/python /tmp/twin-C15/3/diff_check.py
"""
from __future__ import annotations

import random
import sys
import typing as t

from werkzeug.middleware.dispatcher import DispatcherMiddleware as NewDispatcher
from werkzeug.test import EnvironBuilder


# ------------------------------------------------------------ ORIGINAL (verbatim)
class OrigDispatcher:
    def __init__(
        self,
        app: WSGIApplication,
        mounts: dict[str, WSGIApplication] | None = None,
    ) -> None:
        self.app = app
        self.mounts = mounts or {}

    def __call__(
        self, environ: WSGIEnvironment, start_response: StartResponse
    ) -> t.Iterable[bytes]:
        script = environ.get("PATH_INFO", "")
        path_info = ""

        while "/" in script:
            if script in self.mounts:
                app = self.mounts[script]
                break

            script, last_item = script.rsplit("/", 1)
            path_info = f"/{last_item}{path_info}"
        else:
            app = self.mounts.get(script, self.app)

        original_script_name = environ.get("SCRIPT_NAME", "")
        environ["SCRIPT_NAME"] = original_script_name + script
        environ["PATH_INFO"] = path_info
        return app(environ, start_response)


# ------------------------------------------------------------ instrumentation
class LoggedDict(dict):
    """dict that records every access relevant to the dispatcher."""

    def __init__(self, *a, **kw):
        super().__init__(*a, **kw)
        self.log = []

    def __contains__(self, key):
        self.log.append(("in", key))
        return super().__contains__(key)

    def __getitem__(self, key):
        self.log.append(("getitem", key))
        return super().__getitem__(key)

    def get(self, key, default=None):
        self.log.append(("get", key))
        return super().get(key, default)

    def __setitem__(self, key, value):
        self.log.append(("set", key, value))
        super().__setitem__(key, value)


class Boom(Exception):
    pass


def make_app(name, record, raises=False):
    def app(environ, start_response):
        record.append((name, dict(environ), start_response))
        if raises:
            raise Boom(name)
        return [name.encode()]

    return app


SEGMENTS = ["a", "b", "api", "v1", "static", "", "A", "ä", "☃", "a b", "%2F", "a%20b", ".", "..",
            "\xc3\xa4", "x" * 20, "a.b", "a;p=1", "\ud800", "é"]


def rnd_path(rng, absolute_p=0.9):
    segs = [rng.choice(SEGMENTS) for _ in range(rng.randrange(0, 6))]
    p = "/".join(segs)
    if rng.random() < absolute_p:
        p = "/" + p
    if rng.random() < 0.2:
        p += "/"
    return p


def run(cls, mounts_spec, default_raises, environ_items, mounts_mode):
    record = []
    apps = {k: make_app(f"mount:{k}", record, raises=r) for k, r in mounts_spec}
    if mounts_mode == "none":
        mounts = None
    elif mounts_mode == "plain":
        mounts = dict(apps)
    else:
        mounts = LoggedDict(apps)
    default = make_app("default", record, raises=default_raises)
    mw = cls(default, mounts)
    environ = LoggedDict(environ_items)
    sr = object()
    try:
        rv = ("ok", list(mw(environ, sr)))
    except BaseException as e:  # noqa: B036
        rv = ("exc", type(e), e.args if isinstance(e, Boom) else None)
    seen = [(n, env, s is sr) for n, env, s in record]
    mlog = mounts.log if isinstance(mounts, LoggedDict) else None
    return rv, seen, dict(environ), environ.log, mlog


def main():
    rng = random.Random(150003)
    n = 0
    bad = 0
    selected = {}
    excs = 0
    modes = ["logged", "plain", "none"]

    def compare(mounts_spec, default_raises, environ_items, mode):
        nonlocal n, bad, excs
        a = run(OrigDispatcher, mounts_spec, default_raises, list(environ_items), mode)
        b = run(NewDispatcher, mounts_spec, default_raises, list(environ_items), mode)
        n += 1
        if a != b:
            bad += 1
            if bad <= 10:
                print("MISMATCH", mounts_spec, environ_items, mode, "\n  ", a, "\n  ", b)
        if a[0][0] == "exc":
            excs += 1
        for name, _, _ in a[1]:
            kind = name.split(":")[0]
            selected[kind] = selected.get(kind, 0) + 1
        # property itself: SCRIPT_NAME + PATH_INFO concatenation preserved
        if a[0][0] == "ok":
            env = dict(environ_items)
            before = env.get("SCRIPT_NAME", "") + env.get("PATH_INFO", "")
            after = b[2]["SCRIPT_NAME"] + b[2]["PATH_INFO"]
            if before != after:
                bad += 1
                print("PROPERTY BROKEN", environ_items, b[2])

    # hand written cases
    fixed_mounts = [
        [], [("/a", False)], [("/a", False), ("/a/b", False)], [("", False)], [("/", False)],
        [("a", False)], [("/a/", False)], [("/a//b", False)], [("/a", True)],
        [("/a", False), ("/a/b", False), ("/a/b/c", False), ("", False), ("/", False)],
        [("/ä", False), ("/☃/a", False)], [("//", False), ("/a/", False), ("/a//", False)],
    ]
    fixed_paths = ["", "/", "//", "/a", "/a/", "/a/b", "/a/b/", "/a/b/c/d", "/a//b", "a", "a/b",
                   "/ab", "/a/bc", "/ä/x", "/☃/a/b", "/b", "///", "/a/b/c", "/a//", "/A"]
    for fm in fixed_mounts:
        for fp in fixed_paths:
            for sn in (None, "", "/root", "/r/"):
                items = [("PATH_INFO", fp)]
                if sn is not None:
                    items.append(("SCRIPT_NAME", sn))
                for mode in modes:
                    compare(fm, False, items, mode)
    # odd environs: missing PATH_INFO, wrong types
    for pi in (None, b"/a/b", 5, ["/a"], ("/", "a")):
        for sn in ("", None, b"/x", 3):
            for fm in fixed_mounts[:4]:
                compare(fm, False, [("PATH_INFO", pi), ("SCRIPT_NAME", sn)], "logged")
    for fm in fixed_mounts:
        compare(fm, False, [], "logged")
        compare(fm, False, [("SCRIPT_NAME", "/only")], "logged")
        compare(fm, True, [("PATH_INFO", "/zzz")], "logged")
        compare(fm, False, [("PATH_INFO", "/a/b"), ("SCRIPT_NAME", 7)], "logged")

    # random cases
    for _ in range(6000):
        paths = [rnd_path(rng) for _ in range(rng.randrange(0, 6))]
        path = rnd_path(rng)
        # often make a mount a true prefix of the path so that mounts get hit
        if rng.random() < 0.7 and "/" in path.strip("/"):
            pieces = path.split("/")
            paths.append("/".join(pieces[: rng.randrange(1, len(pieces) + 1)]))
        if rng.random() < 0.3 and "/" in path:
            pieces = path.split("/")
            paths.append("/".join(pieces[: rng.randrange(1, len(pieces) + 1)]))
        seen_keys = set()
        spec = []
        for p in paths:
            if p not in seen_keys:
                seen_keys.add(p)
                spec.append((p, rng.random() < 0.05))
        items = [("PATH_INFO", path)]
        if rng.random() < 0.7:
            items.append(("SCRIPT_NAME", rng.choice(["", "/root", "/r/ä", "/x/"])))
        if rng.random() < 0.5:
            items.append(("QUERY_STRING", "a=b"))
        compare(spec, rng.random() < 0.05, items, rng.choice(modes))

    # real environs from EnvironBuilder (latin-1 tunnelled PATH_INFO)
    for _ in range(1500):
        path = rnd_path(rng, 1.0).replace("\ud800", "x")
        try:
            env = EnvironBuilder(path=path, base_url=rng.choice(
                ["http://localhost/", "http://localhost/root/", "http://☃.net/ä/"])).get_environ()
        except Exception:
            continue
        pieces = env["PATH_INFO"].split("/")
        spec = [("/".join(pieces[:k]), False)
                for k in sorted(set(rng.randrange(1, len(pieces) + 1) for _ in range(2)))]
        items = [(k, v) for k, v in env.items() if isinstance(v, (str, int, bool, tuple))]
        compare(spec, False, items, rng.choice(modes))

    print(f"compared {n} scenarios; selected={selected}; exceptions={excs}; mismatches={bad}")
    if (bad == 0 and n >= 3000 and selected.get("mount", 0) > 1000
            and selected.get("default", 0) > 1000 and excs > 50):
        print("PASS")
        return 0
    print("FAIL")
    return 1


if __name__ == "__main__":
    sys.exit(main())
