"""Differential check for refactoring 3
(sansio.Response._clean_status and datastructures.headers._str_header_value).

Run: cd /tmp/wt10-C05 && PYTHONPATH=/tmp/wt10-C05/src /venv/bin/python /tmp/twin6-C05/3/diff_check.py
"""
import random
import re
import sys
from http import HTTPStatus

from werkzeug.datastructures import Headers
from werkzeug.datastructures import headers as headers_mod
from werkzeug.http import HTTP_STATUS_CODES
from werkzeug.sansio.response import Response as SansIOResponse
from werkzeug.wrappers import Response

# ---- ORIGINAL implementations (copied from the unmodified tree) ----
_newline_re = re.compile(r"[\r\n]")


def orig_str_header_value(value):
    if not isinstance(value, str):
        value = str(value)

    if _newline_re.search(value) is not None:
        raise ValueError("Header values must not contain newline characters.")

    return value


def orig_clean_status(self, value):
    if isinstance(value, (int, HTTPStatus)):
        status_code = int(value)
    else:
        value = value.strip()

        if not value:
            raise ValueError("Empty status argument")

        code_str, sep, _ = value.partition(" ")

        try:
            status_code = int(code_str)
        except ValueError:
            # only message
            return f"0 {value}", 0

        if sep:
            # code and message
            return value, status_code

    # only code, look up message
    try:
        status = f"{status_code} {HTTP_STATUS_CODES[status_code].upper()}"
    except KeyError:
        status = f"{status_code} UNKNOWN"

    return status, status_code


# ---------------------------------------------------------------- helpers
def outcome(f, *a):
    try:
        r = f(*a)
        return ("ok", type(r).__name__, repr(r), _deep_types(r))
    except Exception as e:  # noqa: BLE001
        return ("exc", type(e).__name__, str(e))


def _deep_types(r):
    if isinstance(r, tuple):
        return tuple(type(x).__name__ for x in r)
    return None


class MyInt(int):
    pass


class MyStr(str):
    pass


class Obj:
    def __init__(self, s):
        self.s = s

    def __str__(self):
        return self.s


class BadStr:
    def __str__(self):
        raise RuntimeError("no str")


class StrReturnsSub:
    def __str__(self):
        return MyStr("sub\nclass")


WS = [" ", "\t", "\n", "\r", "\x0b", "\x0c", "\xa0", " ", " ", "\x1c", "\x85"]
WORDS = ["OK", "Not Found", "wat", "I'm a teapot", "ÜNICODE", "No Content", "", "x" * 40, "200", "-"]
CODE_STRS = (
    [str(c) for c in list(HTTP_STATUS_CODES)[:80]]
    + ["0", "00", "007", "99", "600", "999", "1000", "-1", "+200", "2_0_0", "20 0", "٢٠٠", "２００",
       "2e2", "200.0", "0x10", "²", "", "200\t", "1" * 30, "9" * 5000, " 204", "304 ", "abc"]
)


def gen_status(rng):
    k = rng.randrange(12)
    if k == 0:
        return rng.choice(list(HTTP_STATUS_CODES))
    if k == 1:
        return rng.randrange(-5, 1100)
    if k == 2:
        return rng.choice(list(HTTPStatus))
    if k == 3:
        return rng.choice([True, False, MyInt(204), MyInt(777), 10**20, -(10**20), 10**5000])
    if k == 4:
        return rng.choice([None, 200.0, b"200 OK", b"", b"  ", [], ("200",), object(), bytearray(b"404"), MyStr(" 204 "), MyStr("")])
    if k == 5:
        return rng.choice(["", " ", "\t\n", " ", "\xa0\xa0"])
    if k == 6:
        return rng.choice(CODE_STRS)
    if k == 7:
        return rng.choice(WORDS)
    # composed
    parts = []
    if rng.random() < 0.4:
        parts.append(rng.choice(WS) * rng.randrange(3))
    parts.append(rng.choice(CODE_STRS))
    if rng.random() < 0.8:
        parts.append(rng.choice([" ", " ", " ", "  ", "\t", "\xa0", "-", ""]))
        parts.append(rng.choice(WORDS))
    if rng.random() < 0.4:
        parts.append(rng.choice(WS) * rng.randrange(3))
    return "".join(parts)


CHARS = ["a", "b", " ", "\t", "\r", "\n", "\r\n", "\x0b", "\x0c", "\x85", " ", " ", "ä", "☃", "\x00", ";", "=", '"', "\x1c", "\x1d", "\x1e"]


def gen_text(rng):
    return "".join(rng.choice(CHARS) for _ in range(rng.randrange(0, 8)))


def gen_value(rng):
    k = rng.randrange(14)
    if k < 6:
        return gen_text(rng)
    if k == 6:
        return rng.choice([0, 1, -5, 10**12, True, 3.5, None, float("nan")])
    if k == 7:
        return gen_text(rng).encode("utf-8")  # str(bytes) -> "b'...'" escapes newlines
    if k == 8:
        return MyStr(gen_text(rng))
    if k == 9:
        return Obj(gen_text(rng))
    if k == 10:
        return rng.choice([BadStr(), StrReturnsSub(), Obj("fine"), Obj("bad\n")])
    if k == 11:
        return [gen_text(rng)]
    if k == 12:
        return (gen_text(rng), 1)
    return rng.choice(["text/html", "a\nb", "a\rb", "\n", "\r", "trailing\n", "\nleading", "ok\x85ok"])


def headers_ops(rng):
    """A random sequence of mutator calls: (method, args, kwargs)."""
    ops = []
    for _ in range(rng.randrange(1, 5)):
        m = rng.choice(["set", "add", "setitem", "extend", "setdefault", "setlist", "update", "add_kw", "setlistdefault", "init"])
        key = rng.choice(["X-A", "Content-Type", "Set-Cookie", "x-a", "Location"])
        if m in ("setlist", "setlistdefault"):
            ops.append((m, key, [gen_value(rng) for _ in range(rng.randrange(3))]))
        elif m in ("extend", "update", "init"):
            ops.append((m, None, [(rng.choice(["X-A", "X-B"]), gen_value(rng)) for _ in range(rng.randrange(3))]))
        elif m == "add_kw":
            ops.append((m, key, (gen_value(rng), gen_text(rng))))
        else:
            ops.append((m, key, gen_value(rng)))
    return ops


def apply_ops(ops):
    h = Headers()
    trace = []
    for m, key, val in ops:
        try:
            if m == "set":
                h.set(key, val)
            elif m == "add":
                h.add(key, val)
            elif m == "setitem":
                h[key] = val
            elif m == "setdefault":
                trace.append(repr(h.setdefault(key, val)))
            elif m == "setlist":
                h.setlist(key, val)
            elif m == "setlistdefault":
                trace.append(repr(h.setlistdefault(key, val)))
            elif m == "extend":
                h.extend(val)
            elif m == "update":
                h.update(val)
            elif m == "init":
                h = Headers(val)
            elif m == "add_kw":
                h.add(key, val[0], param=val[1])
            trace.append("ok")
        except Exception as e:  # noqa: BLE001
            trace.append(("exc", type(e).__name__, str(e)))
    try:
        wsgi = h.to_wsgi_list()
        types = [(type(k).__name__, type(v).__name__) for k, v in h._list]
    except Exception as e:  # noqa: BLE001
        wsgi, types = ("exc", type(e).__name__), None
    return trace, wsgi, types


def main():
    rng = random.Random(50503)
    bad = 0
    counts = {"status": 0, "status_resp": 0, "hv": 0, "hdr_ops": 0}
    dummy = SansIOResponse.__new__(SansIOResponse)

    def mismatch(label, inp, a, b):
        nonlocal bad
        bad += 1
        if bad <= 5:
            print("MISMATCH", label, repr(inp)[:200], a, b, sep="\n  ")

    # --- _clean_status: direct
    fixed = list(HTTP_STATUS_CODES) + list(HTTPStatus) + CODE_STRS + [f"{c} {w}" for c in CODE_STRS[::7] for w in WORDS]
    for i in range(8000):
        v = fixed[i] if i < len(fixed) else gen_status(rng)
        a = outcome(orig_clean_status, dummy, v)
        b = outcome(SansIOResponse._clean_status, dummy, v)
        counts["status"] += 1
        if a != b:
            mismatch("_clean_status", v, a, b)

    # --- through the public Response API (status / status_code setters, WSGI status line)
    def via_response(v, clean):
        saved = SansIOResponse._clean_status
        SansIOResponse._clean_status = clean
        try:
            r = Response(b"x", status=v)
            first = (r.status, r.status_code, repr(r))
            r.status_code = 204 if not isinstance(v, int) else v
            second = (r.status, r.status_code)
            r.status = v
            _, status_line, _ = r.get_wsgi_response({"REQUEST_METHOD": "GET"})
            return first, second, status_line, type(status_line).__name__
        finally:
            SansIOResponse._clean_status = saved

    refactored = SansIOResponse._clean_status
    for _ in range(3000):
        v = gen_status(rng)
        a = outcome(via_response, v, orig_clean_status)
        b = outcome(via_response, v, refactored)
        counts["status_resp"] += 1
        if a != b:
            mismatch("Response(status=)", v, a, b)

    # --- _str_header_value: direct
    for _ in range(8000):
        v = gen_value(rng)
        a = outcome(orig_str_header_value, v)
        b = outcome(headers_mod._str_header_value, v)
        counts["hv"] += 1
        if a != b:
            mismatch("_str_header_value", v, a, b)
        # identity must be preserved for str inputs
        if isinstance(v, str) and a[0] == "ok" and headers_mod._str_header_value(v) is not v:
            mismatch("_str_header_value identity", v, a, b)

    # --- through every Headers mutator
    refactored_hv = headers_mod._str_header_value
    for _ in range(4000):
        state = rng.getstate()
        ops = headers_ops(rng)
        headers_mod._str_header_value = orig_str_header_value
        try:
            a = apply_ops(ops)
        finally:
            headers_mod._str_header_value = refactored_hv
        b = apply_ops(ops)
        counts["hdr_ops"] += 1
        if a != b:
            mismatch("Headers mutators", ops, a, b)

    print(counts, f"mismatches={bad}")
    if bad == 0:
        print("PASS")
    else:
        print("FAIL")
        sys.exit(1)


if __name__ == "__main__":
    main()
