"""Differential check for refactoring 2 (EnvironHeaders environ view).

Run as:
    cd /tmp/wt9-C08 && PYTHONPATH=/tmp/wt9-C08/src /venv/bin/python /tmp/twin5-C08/2/diff_check.py

Strategy: a deterministic (seeded) scenario generator is run twice in the same
process -- once against the refactored methods that live in the worktree and
once after monkeypatching the ORIGINAL method bodies (pasted below verbatim)
onto ``EnvironHeaders``.  Every observation (result repr or exception type +
args) of both runs is compared.  Prints PASS only if all are identical.
"""

from __future__ import annotations

import copy
import pickle
import random
import sys

from werkzeug.datastructures import EnvironHeaders
from werkzeug.datastructures import Headers
from werkzeug.exceptions import BadRequestKeyError

# --------------------------------------------------------------------------
# ORIGINAL implementations (verbatim from the unmodified tree)
# --------------------------------------------------------------------------


def orig__get_key(self, key):
    if not isinstance(key, str):
        raise BadRequestKeyError(key)

    key = key.upper().replace("-", "_")

    if key in {"CONTENT_TYPE", "CONTENT_LENGTH"}:
        return self.environ[key]  # type: ignore[no-any-return]

    return self.environ[f"HTTP_{key}"]  # type: ignore[no-any-return]


def orig___len__(self):
    return sum(1 for _ in self)


def orig___iter__(self):
    for key, value in self.environ.items():
        if key.startswith("HTTP_") and key not in {
            "HTTP_CONTENT_TYPE",
            "HTTP_CONTENT_LENGTH",
        }:
            yield key[5:].replace("_", "-").title(), value
        elif key in {"CONTENT_TYPE", "CONTENT_LENGTH"} and value:
            yield key.replace("_", "-").title(), value


ORIGINALS = {
    "_get_key": orig__get_key,
    "__len__": orig___len__,
    "__iter__": orig___iter__,
}

# --------------------------------------------------------------------------
# scenario generator
# --------------------------------------------------------------------------


class StrSub(str):
    pass


ENV_KEYS = [
    "HTTP_HOST", "HTTP_X_FOO", "HTTP_X_FOO_BAR", "HTTP_", "HTTP", "HTTP_CONTENT_TYPE",
    "HTTP_CONTENT_LENGTH", "CONTENT_TYPE", "CONTENT_LENGTH", "CONTENT_MD5",
    "HTTP_content_type", "http_x", "wsgi.input", "REQUEST_METHOD", "HTTP_ACCEPT",
    "HTTP_X-DASH", "HTTP_ÄÖ_ß", "HTTP__X", "Content_Type", "HTTP_HTTP_X",
    "HTTP_X_FOO ", "HTTP_1ST_2nd", "HTTP_COOKIE", "PATH_INFO", "HTTP_CONTENT_TYPE_X",
    "CONTENT_TYPE_X", "HTTP_CONTENT_MD5", StrSub("HTTP_SUB"), StrSub("CONTENT_TYPE"),
    StrSub("HTTP_CONTENT_LENGTH"),
]
ODD_ENV_KEYS = [5, None, b"HTTP_X", ("HTTP_",), 1.5]
ENV_VALUES = [
    "example.org", "", "0", "text/html; charset=utf-8", "42", "a, b", 0, 1, None, [],
    ["x"], b"bytes", "ü", " ", 3.5, False, True,
]
LOOKUPS = [
    "Host", "host", "HOST", "X-Foo", "x_foo", "X_FOO", "x-foo-bar", "Content-Type",
    "content_type", "CONTENT-LENGTH", "Content-Length", "content-length",
    "Http-Content-Type", "HTTP_CONTENT_LENGTH", "", "Missing", "Accept", "cookie",
    "X-Dash", "x--dash", "äö-ß", "ÄÖ-SS", "-X", "_x", "Http-X", "Sub",
    "X-Foo ", "1st-2nd", "Content-Md5", "Content-Type-X", "content type",
    StrSub("Content-Type"), StrSub("host"), "ı", "ﬁ",
]
ODD_LOOKUPS = [1, None, b"Host", ("a",), 2.5, [], 0, True]


def conv_value(v):
    if v in ("", "0", None):
        raise ValueError(v)
    return ("conv", v)


def conv_type(v):
    raise TypeError(v)


def conv_key(v):
    raise KeyError(v)


TYPES = [None, int, float, str, len, conv_value, conv_type, conv_key]
DEFAULTS = [None, "dflt", 0, ("d",)]


def observe(fn):
    try:
        rv = fn()
    except BaseException as e:  # noqa: B902
        return ("EXC", type(e).__name__, repr(e.args))
    return ("OK", type(rv).__name__, repr(rv))


def make_environ(rng):
    env = {}
    for _ in range(rng.randrange(0, 9)):
        if rng.random() < 0.008:
            k = rng.choice(ODD_ENV_KEYS)
        else:
            k = rng.choice(ENV_KEYS)
        env[k] = rng.choice(ENV_VALUES)
    return env


MUTATORS = [
    lambda h: h.__delitem__("Host"),
    lambda h: h.__delitem__(0),
    lambda h: h.__setitem__("Host", "x"),
    lambda h: h.set("Host", "x"),
    lambda h: h.setlist("Host", ["x"]),
    lambda h: h.add("Host", "x"),
    lambda h: h.add_header("Host", "x", a="b"),
    lambda h: h.remove("Host"),
    lambda h: h.extend({"Host": "x"}),
    lambda h: h.update({"Host": "x"}),
    lambda h: h.__ior__({"Host": "x"}),
    lambda h: h.insert(0, ("Host", "x")),
    lambda h: h.pop(),
    lambda h: h.pop("Host"),
    lambda h: h.pop("Host", None),
    lambda h: h.popitem(),
    lambda h: h.setdefault("Host", "x"),
    lambda h: h.setlistdefault("Host", ["x"]),
    lambda h: h.clear(),
    lambda h: h.copy(),
    lambda h: copy.copy(h),
    lambda h: h | {"Host": "x"},
]


def scenario(seed):
    rng = random.Random(seed)
    out = []
    env = make_environ(rng)
    h = EnvironHeaders(env)

    for _step in range(rng.randrange(8, 20)):
        op = rng.randrange(26)
        key = rng.choice(LOOKUPS) if rng.random() < 0.92 else rng.choice(ODD_LOOKUPS)
        typ = rng.choice(TYPES)
        dflt = rng.choice(DEFAULTS)
        tname = getattr(typ, "__name__", None)
        if op in (0, 1):
            out.append(("getitem", repr(key), observe(lambda: h[key])))
        elif op == 2:
            out.append(("_get_key", repr(key), observe(lambda: h._get_key(key))))
        elif op == 3:
            out.append(("get", repr(key), observe(lambda: h.get(key)),
                        observe(lambda: h.get(key, dflt))))
        elif op == 4:
            out.append(("get-t", repr(key), tname, observe(lambda: h.get(key, dflt, typ))))
        elif op in (5, 6):
            out.append(("contains", repr(key), observe(lambda: key in h)))
        elif op == 7:
            out.append(("getlist", repr(key), observe(lambda: h.getlist(key)),
                        observe(lambda: h.get_all(key))))
        elif op == 8:
            out.append(("getlist-t", repr(key), tname, observe(lambda: h.getlist(key, typ))))
        elif op in (9, 10):
            out.append(("len", observe(lambda: len(h)), observe(lambda: bool(h))))
        elif op in (11, 12):
            out.append(("iter", observe(lambda: list(h)), observe(lambda: list(iter(h)))))
        elif op == 13:
            out.append(("keys", observe(lambda: list(h.keys())),
                        observe(lambda: list(h.keys(lower=True)))))
        elif op == 14:
            out.append(("values", observe(lambda: list(h.values()))))
        elif op == 15:
            out.append(("items", observe(lambda: list(h.items())),
                        observe(lambda: list(h.items(lower=True)))))
        elif op == 16:
            out.append(("wsgi", observe(lambda: h.to_wsgi_list()), observe(lambda: str(h)),
                        observe(lambda: repr(h))))
        elif op == 17:
            other = EnvironHeaders(dict(env))
            same = EnvironHeaders(env)
            out.append(("eq", observe(lambda: h == other), observe(lambda: h == same),
                        observe(lambda: h != other), observe(lambda: h == Headers(list(h))),
                        observe(lambda: hash(h))))
        elif op == 18:
            before = (repr(env), repr(h._list))
            m = rng.choice(MUTATORS)
            out.append(("mutator", MUTATORS.index(m), observe(lambda: m(h)),
                        before == (repr(env), repr(h._list))))
        elif op in (19, 20):
            # the view must reflect every change of the environ
            k = rng.choice(ENV_KEYS)
            sub = rng.randrange(4)
            if sub == 0:
                env[k] = rng.choice(ENV_VALUES)
            elif sub == 1:
                env.pop(k, None)
            elif sub == 2:
                env.clear()
            else:
                env.update(make_environ(rng))
            out.append(("env-changed", sub, repr(k), observe(lambda: list(h)),
                        observe(lambda: len(h))))
        elif op == 21:
            def rt():
                env2 = {k: v for k, v in env.items()}
                h2 = pickle.loads(pickle.dumps(EnvironHeaders(env2)))
                return (type(h2).__name__, list(h2), len(h2))
            out.append(("pickle", observe(rt)))
        elif op == 22:
            def dc():
                h2 = copy.deepcopy(h)
                return (type(h2).__name__, list(h2), h2.environ is env)
            out.append(("deepcopy", observe(dc)))
        elif op == 23:
            # partial consumption interleaved with a change of the environ
            def partial():
                it = iter(h)
                got = []
                try:
                    got.append(next(it))
                except StopIteration:
                    got.append("stop")
                env["HTTP_LATE"] = "v"
                try:
                    got.extend(it)
                except RuntimeError as e:
                    got.append(("rt", str(e)))
                return got
            out.append(("partial", observe(partial), observe(lambda: len(h))))
        elif op == 24:
            out.append(("slice", observe(lambda: h[0]), observe(lambda: h[0:1])))
        else:
            def to_headers():
                return (list(Headers(h)), Headers(h).get(key) if isinstance(key, str) else None,
                        dict(h))
            out.append(("convert", repr(key), observe(to_headers)))
    out.append(("final", observe(lambda: list(h)), observe(lambda: len(h))))
    return out


def exhaustive():
    """every lookup name against a fully populated environ, and each environ
    key alone with each value"""
    out = []
    full = {k: f"v{i}" for i, k in enumerate(ENV_KEYS)}
    h = EnvironHeaders(full)
    out.append(observe(lambda: list(h)))
    out.append(observe(lambda: len(h)))
    for key in LOOKUPS + ODD_LOOKUPS:
        out.append((repr(key), observe(lambda: h[key]), observe(lambda: key in h),
                    observe(lambda: h.get(key, "d")), observe(lambda: h.getlist(key))))
    for k in ENV_KEYS + ODD_ENV_KEYS:
        for v in ENV_VALUES:
            h1 = EnvironHeaders({k: v})
            out.append((repr(k), repr(v), observe(lambda: list(h1)), observe(lambda: len(h1))))
    return out


def run_all(n):
    return [exhaustive()] + [scenario(seed) for seed in range(n)]


def main():
    n = 6000
    new = run_all(n)
    saved = {name: EnvironHeaders.__dict__[name] for name in ORIGINALS}
    for name, fn in ORIGINALS.items():
        setattr(EnvironHeaders, name, fn)
    try:
        old = run_all(n)
    finally:
        for name, fn in saved.items():
            setattr(EnvironHeaders, name, fn)
    n_obs = sum(len(s) for s in new)
    n_exc = repr(new).count("'EXC'")
    bad = [i for i in range(len(new)) if new[i] != old[i]]
    if bad:
        i = bad[0]
        for a, b in zip(new[i], old[i]):
            if a != b:
                print("scenario", i - 1, "\n new:", a, "\n old:", b)
                break
        print(f"FAIL ({len(bad)} of {len(new)} scenarios differ)")
        return 1
    print(f"PASS ({n} scenarios + exhaustive table, {n_obs} observations, "
          f"{n_exc} exception outcomes)")
    return 0


if __name__ == "__main__":
    sys.exit(main())
