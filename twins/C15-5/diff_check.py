"""Differential check for refactoring 2 (urls._make_unquote_part / urls._decode_idna).

Run: cd /tmp/wt6-C15 && PYTHONPATH=/tmp/wt6-C15/src /venv/bin/python /tmp/twin4-C15/2/diff_check.py
"""
import random
import re
from urllib.parse import unquote
from urllib.parse import urlsplit
from urllib.parse import urlunsplit

import werkzeug.urls as new  # registers the 'werkzeug.url_quote' codec error handler


# ---- verbatim copies of the ORIGINAL implementations -------------------------
def o_make_unquote_part(name, chars):
    choices = "|".join(f"{ord(c):02X}" for c in sorted(chars))
    pattern = re.compile(f"((?:%(?:{choices}))+)", re.I)

    def _unquote_partial(value):
        parts = iter(pattern.split(value))
        out = []

        for part in parts:
            out.append(unquote(part, "utf-8", "werkzeug.url_quote"))
            out.append(next(parts, ""))

        return "".join(out)

    _unquote_partial.__name__ = f"_unquote_{name}"
    return _unquote_partial


_always_unsafe = bytes((*range(0x21), 0x25, 0x7F)).decode()
o_unquote_fragment = o_make_unquote_part("fragment", _always_unsafe)
o_unquote_query = o_make_unquote_part("query", _always_unsafe + "&=+#")
o_unquote_path = o_make_unquote_part("path", _always_unsafe + "/?#")
o_unquote_user = o_make_unquote_part("user", _always_unsafe + ":@/?#")


def o_decode_idna(domain):
    try:
        data = domain.encode("ascii")
    except UnicodeEncodeError:
        # If the domain is not ASCII, it's decoded already.
        return domain

    try:
        # Try decoding in one shot.
        return data.decode("idna")
    except UnicodeError:
        pass

    # Decode each part separately, leaving invalid parts as punycode.
    parts = []

    for part in data.split(b"."):
        try:
            parts.append(part.decode("idna"))
        except UnicodeError:
            parts.append(part.decode("ascii"))

    return ".".join(parts)


def o_uri_to_iri(uri):
    parts = urlsplit(uri)
    path = o_unquote_path(parts.path)
    query = o_unquote_query(parts.query)
    fragment = o_unquote_fragment(parts.fragment)

    if parts.hostname:
        netloc = o_decode_idna(parts.hostname)
    else:
        netloc = ""

    if ":" in netloc:
        netloc = f"[{netloc}]"

    if parts.port:
        netloc = f"{netloc}:{parts.port}"

    if parts.username:
        auth = o_unquote_user(parts.username)

        if parts.password:
            password = o_unquote_user(parts.password)
            auth = f"{auth}:{password}"

        netloc = f"{auth}@{netloc}"

    return urlunsplit((parts.scheme, netloc, path, query, fragment))


# ---- generators --------------------------------------------------------------
rng = random.Random(20261002)
HEX = "0123456789abcdefABCDEF"
ALPH = (
    list("abcXYZ019-._~!$&'()*+,;=:@/?#[] %\t\n\x7f\"<>\\^`{|}")
    + ["☃", "\xe9", "\xe5", "𝄞", "​", "ß", "日本"]
)


def rand_pct():
    r = rng.random()
    if r < 0.5:
        return "%" + rng.choice(HEX) + rng.choice(HEX)
    if r < 0.7:
        # reserved/unsafe ones
        return rng.choice(
            ["%2F", "%2f", "%3F", "%23", "%25", "%20", "%26", "%3D", "%2B", "%3A",
             "%40", "%7F", "%00", "%0a", "%C3%A5", "%E2%98%83", "%F0%9D%84%9E",
             "%DF", "%C3", "%E2%98", "%FF%FE", "%c3%28"]
        )
    if r < 0.8:
        return "%" + rng.choice(HEX)  # truncated escape
    if r < 0.9:
        return "%"
    return "%G" + rng.choice(HEX)


def rand_text(maxlen=12):
    out = []
    for _ in range(rng.randrange(0, maxlen)):
        if rng.random() < 0.45:
            out.append(rand_pct())
        else:
            out.append(rng.choice(ALPH))
    return "".join(out)


LABELS = [
    "example", "com", "xn--n3h", "xn--", "xn--a", "xn--caf-dma", "XN--N3H", "",
    "a" * 63, "a" * 64, "xn--" + "a" * 70, "☃", "caf\xe9", "xn--zz-zz-zz", "-",
    "xn--80ak6aa92e", "xn--9", "xn--wgv71a119e", "localhost", "127", "0", "1",
    "xn--bcher-kva", "xn--\x00", "a b", "%41", "xn--n3h-", "::1", "[::1]",
]


def rand_domain():
    k = rng.randrange(0, 5)
    return ".".join(rng.choice(LABELS) for _ in range(k))


def rand_uri():
    scheme = rng.choice(["http", "https", "ws", "", "itms-services", "mailto", "file", "x"])
    host = rng.choice([rand_domain(), "[::1]", "[fe80::1%25eth0]", "127.0.0.1", ""])
    auth = ""
    if rng.random() < 0.3:
        auth = rand_text(5).replace("/", "").replace("?", "").replace("#", "")
        if rng.random() < 0.5:
            auth += ":" + rand_text(5).replace("/", "").replace("?", "").replace("#", "")
        auth += "@"
    port = rng.choice(["", "", ":80", ":0", ":8080", ":99999", ":abc", ":"])
    url = ""
    if scheme:
        url += scheme + ":"
    if host or auth or rng.random() < 0.5:
        url += "//" + auth + host + port
    url += rng.choice(["", "/"]) + rand_text()
    if rng.random() < 0.6:
        url += "?" + rand_text()
    if rng.random() < 0.4:
        url += "#" + rand_text()
    return url


def call(f, *a):
    try:
        return ("ok", f(*a))
    except BaseException as e:  # noqa: BLE001
        return ("exc", type(e), str(e))


def main():
    n = 0
    pairs = [
        (o_unquote_fragment, new._unquote_fragment),
        (o_unquote_query, new._unquote_query),
        (o_unquote_path, new._unquote_path),
        (o_unquote_user, new._unquote_user),
    ]
    for o, nw in pairs:
        assert o.__name__ == nw.__name__, (o.__name__, nw.__name__)

    for _ in range(15000):
        v = rand_text(20)
        for o, nw in pairs:
            a, b = call(o, v), call(nw, v)
            if a != b:
                print("MISMATCH unquote", nw.__name__, repr(v), a, b)
                raise SystemExit(1)
            n += 1

    # non-str inputs -> same exception type
    for v in (None, b"%41", 5):
        for o, nw in pairs:
            a, b = call(o, v), call(nw, v)
            if a[:2] != b[:2]:
                print("MISMATCH unquote type", repr(v), a, b)
                raise SystemExit(1)
            n += 1

    for _ in range(15000):
        d = rand_domain()
        a, b = call(o_decode_idna, d), call(new._decode_idna, d)
        if a != b:
            print("MISMATCH idna", repr(d), a, b)
            raise SystemExit(1)
        n += 1

    for _ in range(15000):
        u = rand_uri()
        a, b = call(o_uri_to_iri, u), call(new.uri_to_iri, u)
        if a != b:
            print("MISMATCH uri_to_iri", repr(u), a, b)
            raise SystemExit(1)
        # also through iri_to_uri -> uri_to_iri round trip using new module
        if a[0] == "ok":
            c = call(lambda x: o_uri_to_iri(new.iri_to_uri(x)), a[1])
            d = call(lambda x: new.uri_to_iri(new.iri_to_uri(x)), a[1])
            if c != d:
                print("MISMATCH roundtrip", repr(u), c, d)
                raise SystemExit(1)
        n += 1

    print(f"PASS ({n} comparisons)")


if __name__ == "__main__":
    main()
