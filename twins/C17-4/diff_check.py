"""Differential check for refactoring 1 (parse_accept_header / _parse_q_value).

Compares werkzeug.http.parse_accept_header from the worktree with a pasted copy
of the ORIGINAL implementation on generated Accept-style headers.
"""
from __future__ import annotations

import random
import re
import sys

from werkzeug import datastructures as ds
from werkzeug import http
from werkzeug.http import dump_options_header
from werkzeug.http import parse_list_header
from werkzeug.http import parse_options_header

_orig_q_value_re = re.compile(r"-?\d+(\.\d+)?", re.ASCII)


def orig_parse_accept_header(value, cls=None):
    if cls is None:
        cls = ds.Accept

    if not value:
        return cls(None)

    result = []

    for item in parse_list_header(value):
        item, options = parse_options_header(item)

        if "q" in options:
            # pop q, remaining options are reconstructed
            q_str = options.pop("q").strip()

            if _orig_q_value_re.fullmatch(q_str) is None:
                # ignore an invalid q
                continue

            q = float(q_str)

            if q < 0 or q > 1:
                # ignore an invalid q
                continue
        else:
            q = 1

        if options:
            # reconstruct the media type with any options
            item = dump_options_header(item, options)

        result.append((item, q))

    return cls(result)


VALUES = [
    "text/html", "text/*", "*/*", "*", "application/json", "application/xhtml+xml",
    "text/plain", "en", "en-US", "en_GB", "de", "fr-CA", "utf-8", "iso-8859-1",
    "gzip", "identity", "br", "text/html;level=1", "text/html; level=2", "*/html",
    "", " ", "a", "A/B", "x;y", '"quoted"', "zh-Hant-TW", "text",
]
QS = [
    "1", "0", "0.5", "0.7", "1.0", "1.000", "0.000", "0.001", "1.001", "2", "10",
    "-0", "-0.0", "-1", "-0.5", ".5", "1.", "", " ", "abc", "nan", "inf", "-inf",
    "1e0", "1e-1", "0x1", "+1", "+0.5", "0,5", "0.5.5", "٠", "١.٥",
    "１", " 0.5", "0.5 ", "\t0.3\t", '"0.5"', '" 0.5 "', '"1"', '"2"', "0.33333333",
    "00.5", "01", "000", "1_0", "0.5;", "0.99999999999999999999", "1.00000000000000000001",
    "9" * 400, "0." + "9" * 400, "١", "0.5\n", "1\x00",
]
QKEYS = ["q", "Q", " q", "q ", "q*", "qs", "q*0", "level", "charset"]
SEPS = [",", ", ", " , ", ",,", ";", ", ,"]


def gen_item(rng):
    v = rng.choice(VALUES)
    nopts = rng.choice([0, 1, 1, 1, 2, 3])
    parts = [v]
    for _ in range(nopts):
        k = rng.choice(QKEYS) if rng.random() < 0.85 else rng.choice(["a", "b", "level"])
        if rng.random() < 0.8:
            q = rng.choice(QS)
        else:
            q = "%.*f" % (rng.randint(0, 5), rng.uniform(-0.5, 1.5))
        eq = rng.choice(["=", "=", "=", " = ", "= ", " ="])
        parts.append(f"{k}{eq}{q}")
    sep = rng.choice([";", "; ", " ;", " ; "])
    return sep.join(parts)


def gen_header(rng):
    r = rng.random()
    if r < 0.02:
        return rng.choice([None, "", " ", ",", ";q=1", "q=0.5"])
    if r < 0.07:
        # raw noise
        alphabet = "aq=;,.*/-01 \"\\\t5e"
        return "".join(rng.choice(alphabet) for _ in range(rng.randint(1, 30)))
    n = rng.randint(1, 6)
    return rng.choice(SEPS).join(gen_item(rng) for _ in range(n))


def run(fn, *args):
    try:
        res = fn(*args)
    except BaseException as e:  # noqa: B036
        return ("EXC", type(e))
    return (
        "OK",
        type(res),
        res.provided,
        [(repr(v), type(q), repr(q)) for v, q in list.__iter__(res)],
        res.to_header(),
        res.best,
    )


def main():
    rng = random.Random(170401)
    classes = [None, ds.Accept, ds.MIMEAccept, ds.LanguageAccept, ds.CharsetAccept]
    n = 0
    bad = 0
    accepted = skipped = 0
    for _ in range(12000):
        h = gen_header(rng)
        for cls in classes:
            args = (h,) if cls is None else (h, cls)
            a = run(orig_parse_accept_header, *args)
            b = run(http.parse_accept_header, *args)
            n += 1
            if a != b:
                bad += 1
                if bad <= 10:
                    print("MISMATCH", repr(h), cls, a, b)
            if a[0] == "OK":
                accepted += len(a[3])
    # direct helper-level check on every q string, against the original inline logic
    for q_str in QS + ["%.*f" % (d, x / 1000) for d in range(5) for x in range(-500, 1600, 7)]:
        for pad in ["", " ", "\t", "\n", " "]:
            raw = pad + q_str + pad
            s = raw.strip()
            if _orig_q_value_re.fullmatch(s) is None:
                exp = None
            else:
                f = float(s)
                exp = None if (f < 0 or f > 1) else f
            got = http._parse_q_value(raw)
            n += 1
            if repr(exp) != repr(got):
                bad += 1
                print("MISMATCH helper", repr(raw), exp, got)
    print(f"compared {n} cases, items accepted in total: {accepted}, mismatches: {bad}")
    if bad:
        print("FAIL")
        sys.exit(1)
    print("PASS")


if __name__ == "__main__":
    main()
