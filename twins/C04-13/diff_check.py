"""Differential check for refactoring 1 (C04).

Compares the refactored MapAdapter._partial_build and Rule.suitable_for in the
worktree against the ORIGINAL implementations pasted below, on a few thousand
generated build / match round trips plus direct calls of the helpers.

Run: cd /tmp/wt13-C04 && PYTHONPATH=/tmp/wt13-C04/src /venv/bin/python /tmp/twin8-C04/1/diff_check.py
"""
from __future__ import annotations

import inspect
import typing as t

from werkzeug.routing import map as map_mod
from werkzeug.routing import rules as rules_mod


# ---- ORIGINAL implementations (copied from the unmodified tree) -------------
def orig_partial_build(
    self,
    endpoint: t.Any,
    values: t.Mapping[str, t.Any],
    method: str | None,
    append_unknown: bool,
) -> tuple[str, str, bool] | None:
    # in case the method is none, try with the default method first
    if method is None:
        rv = self._partial_build(
            endpoint, values, self.default_method, append_unknown
        )
        if rv is not None:
            return rv

    # Default method did not match or a specific method is passed.
    # Check all for first match with matching host. If no matching
    # host is found, go with first result.
    first_match = None

    for rule in self.map._rules_by_endpoint.get(endpoint, ()):
        if rule.suitable_for(values, method):
            build_rv = rule.build(values, append_unknown)

            if build_rv is not None:
                rv = (build_rv[0], build_rv[1], rule.websocket)
                if self.map.host_matching:
                    if rv[0] == self.server_name:
                        return rv
                    elif first_match is None:
                        first_match = rv
                else:
                    return rv

    return first_match


def orig_suitable_for(
    self, values: t.Mapping[str, t.Any], method: str | None = None
) -> bool:
    # if a method was given explicitly and that method is not supported
    # by this rule, this rule is not suitable.
    if (
        method is not None
        and self.methods is not None
        and method not in self.methods
    ):
        return False

    defaults = self.defaults or ()

    # all arguments required must be either in the defaults dict or
    # the value dictionary otherwise it's not suitable
    for key in self.arguments:
        if key not in defaults and key not in values:
            return False

    # in case defaults are given we ensure that either the value was
    # skipped or the value is the same as the default value.
    if defaults:
        for key, value in defaults.items():
            if key in values and value != values[key]:
                return False

    return True


def check_refactoring_present():
    src = inspect.getsource(map_mod.MapAdapter._partial_build)
    assert "continue" in src, "worktree does not contain refactoring 1 (map.py)"
    src = inspect.getsource(rules_mod.Rule.suitable_for)
    assert "all(" in src, "worktree does not contain refactoring 1 (rules.py)"


def install_originals():
    map_mod.MapAdapter._partial_build = orig_partial_build
    rules_mod.Rule.suitable_for = orig_suitable_for


# --------------------------------------------------------------------------
# Common harness: generates maps / adapters / values covering the C04 input
# space and records the outcome of build, match, re-build and of the low level
# helpers (Rule.suitable_for, Rule.build, converter to_url / to_python).
# --------------------------------------------------------------------------
import random
import uuid as uuid_mod
from urllib.parse import unquote
from urllib.parse import urlsplit

from werkzeug.datastructures import MultiDict
from werkzeug.exceptions import HTTPException
from werkzeug.routing import Map
from werkzeug.routing import RequestRedirect
from werkzeug.routing import Rule
from werkzeug.routing import Subdomain
from werkzeug.routing import Submount

EXTRA_CONVERTERS = None  # replaced by the converter check
SERVER = "example.com"

# endpoint -> list of (argument name, kind)
ENDPOINT_ARGS = {
    "s": [("v", "str")],
    "s_len": [("v", "str3")],
    "s_mm": [("v", "str25")],
    "i": [("v", "int")],
    "i_signed": [("v", "sint")],
    "i_fixed": [("v", "int")],
    "i_mm": [("v", "int")],
    "f": [("v", "float")],
    "f_signed": [("v", "sfloat")],
    "any": [("v", "any")],
    "u": [("v", "uuid")],
    "p": [("v", "path")],
    "p_edit": [("v", "path")],
    "two": [("a", "int"), ("b", "str")],
    "d": [("page", "int")],
    "dv": [("lang", "lang")],
    "meth": [("v", "str")],
    "sub": [("v", "int")],
    "sdyn": [("name", "label"), ("v", "str")],
    "mx": [("v", "str")],
    "ws": [("v", "str")],
    "bo": [("v", "str")],
    "h": [("v", "str")],
    "h3": [("sub", "label"), ("v", "path")],
    "nope": [("v", "str")],
}

TEXT_ALPHABET = "abcXYZ019 ;?#%&=+:@!$'()*,~._-éü中Ж\U0001f600\"<>[]{}|\\^`"


def gen_text(rnd, lo=1, hi=8):
    return "".join(rnd.choice(TEXT_ALPHABET) for _ in range(rnd.randint(lo, hi)))


def gen_value(rnd, kind):
    """Mostly canonical values, sometimes values the converter rejects."""
    r = rnd.random()
    if r < 0.08:
        return rnd.choice(
            [None, "", "x/y", -3, 2.5, "abc", [1, 2], ("a",), 10**25, "007", True,
             "1e5", float("inf"), b"raw", uuid_mod.UUID(int=5), {"k": 1}]
        )
    if kind == "str":
        return gen_text(rnd)
    if kind == "str3":
        return gen_text(rnd, 3, 3) if rnd.random() < 0.8 else gen_text(rnd, 1, 5)
    if kind == "str25":
        return gen_text(rnd, 2, 5) if rnd.random() < 0.8 else gen_text(rnd, 1, 8)
    if kind == "int":
        return rnd.choice([0, 1, 5, 7, 42, 100, 101, 9999, 12345, rnd.randint(0, 10**6)])
    if kind == "sint":
        return rnd.randint(-(10**6), 10**6)
    if kind == "float":
        return rnd.choice([0.0, 0.5, 1.25, 3.0, round(rnd.uniform(0, 1e6), rnd.randint(0, 6))])
    if kind == "sfloat":
        return rnd.choice([-0.0, -0.5, round(rnd.uniform(-1e6, 1e6), rnd.randint(0, 6))])
    if kind == "any":
        return rnd.choice(["foo", "bar", "b z", "b;z", "été", "baz", "FOO"])
    if kind == "uuid":
        u = uuid_mod.UUID(int=rnd.getrandbits(128))
        return u if rnd.random() < 0.7 else str(u).upper()
    if kind == "path":
        return "/".join(gen_text(rnd, 1, 5).replace("\\", "b") for _ in range(rnd.randint(1, 4)))
    if kind == "lang":
        return rnd.choice(["en", "de", "fr", "é"])
    if kind == "label":
        return rnd.choice(["api", "www", "a-b", "x1"])
    raise AssertionError(kind)


def make_maps():
    kw = {"converters": EXTRA_CONVERTERS} if EXTRA_CONVERTERS else {}
    main_rules = lambda: [  # noqa: E731
        Rule("/s/<string:v>", endpoint="s"),
        Rule("/s-alias/<v>", endpoint="s", alias=True),
        Rule("/sl/<string(length=3):v>", endpoint="s_len"),
        Rule("/sm/<string(minlength=2, maxlength=5):v>", endpoint="s_mm"),
        Rule("/i/<int:v>", endpoint="i"),
        Rule("/is/<int(signed=True):v>", endpoint="i_signed"),
        Rule("/if/<int(fixed_digits=4):v>", endpoint="i_fixed"),
        Rule("/im/<int(min=5, max=100):v>", endpoint="i_mm"),
        Rule("/f/<float:v>", endpoint="f"),
        Rule("/fs/<float(signed=True, max=1000.5):v>", endpoint="f_signed"),
        Rule('/a/<any(foo, bar, "b z", "b;z", "été"):v>', endpoint="any"),
        Rule("/u/<uuid:v>", endpoint="u"),
        Rule("/p/<path:v>", endpoint="p"),
        Rule("/pe/<path:v>/edit", endpoint="p_edit"),
        Rule("/two/<int:a>/x-<b>/", endpoint="two"),
        Rule("/d/", endpoint="d", defaults={"page": 1}),
        Rule("/d/page/<int:page>", endpoint="d"),
        Rule("/dv/<lang>/x y;z", endpoint="dv", defaults={"lang": "en"}),
        Rule("/dv2/<lang>/", endpoint="dv"),
        Rule("/m-post/<v>", endpoint="meth", methods=["POST"]),
        Rule("/m-get/<v>", endpoint="meth", methods=["GET"]),
        Rule("/m-any/<v>/<int:extra>", endpoint="meth"),
        Subdomain("api", [Rule("/sub/<int:v>", endpoint="sub")]),
        Rule("/sd/<v>", subdomain="<name>", endpoint="sdyn"),
        Submount("/mnt", [Rule("/x/<v>", endpoint="mx"), Rule("/", endpoint="mroot")]),
        Rule("/ws/<v>", endpoint="ws", websocket=True),
        Rule("/bo/<v>", endpoint="bo", build_only=True),
        Rule("/", endpoint="index"),
    ]
    host_rules = lambda: [  # noqa: E731
        Rule("/h-other/<v>", host="other.org", endpoint="h"),
        Rule("/h-int/<int:v>", host="num.example.com", endpoint="h"),
        Rule("/h/<v>", host=SERVER, endpoint="h"),
        Rule("/h3/<path:v>", host="<sub>.example.com", endpoint="h3"),
        Rule("/i/<int:v>", host="other.org", endpoint="i"),
        Rule("/f/<float(signed=True):v>", host=SERVER, endpoint="f_signed"),
        Rule("/d/", endpoint="d", defaults={"page": 1}, host=SERVER),
        Rule("/d/page/<int:page>", endpoint="d", host="other.org"),
        Rule("/ws/<v>", endpoint="ws", websocket=True, host="other.org"),
        Rule("/", endpoint="index", host=SERVER),
    ]
    return [
        ("plain", Map(main_rules(), **kw)),
        ("sorted", Map(main_rules(), sort_parameters=True, redirect_defaults=False,
                       strict_slashes=False, merge_slashes=False, **kw)),
        ("host", Map(host_rules(), host_matching=True, **kw)),
    ]


def norm(v):
    return repr(v)


def outcome(fn):
    try:
        return ("ok", norm(fn()))
    except RequestRedirect as e:
        return ("redirect", e.new_url)
    except HTTPException as e:
        return ("http", type(e).__name__)
    except Exception as e:  # noqa: B902
        return ("exc", type(e).__name__)


def gen_values(rnd, endpoint):
    values = {}
    for name, kind in ENDPOINT_ARGS.get(endpoint, ()):
        if rnd.random() < 0.93:
            values[name] = gen_value(rnd, kind)
    if endpoint == "d" and rnd.random() < 0.4:
        values["page"] = rnd.choice([1, 1.0, "1", 2, True])
    if endpoint == "meth" and rnd.random() < 0.3:
        values["extra"] = rnd.randint(0, 9)
    if rnd.random() < 0.35:  # extra query values
        for _ in range(rnd.randint(1, 3)):
            values[rnd.choice(["q", "z", "a b", "ü", "k&"])] = rnd.choice(
                [gen_text(rnd), 5, None, ["x", gen_text(rnd)], (), 1.5, ("t", 2)]
            )
    if rnd.random() < 0.1:
        values = MultiDict(
            (k, v) for k, v in values.items() if not isinstance(v, (list, tuple, dict))
        )
        if rnd.random() < 0.5:
            values.add("q", "second")
    return values


def trial(rnd, name, m):
    out = []
    script_name = rnd.choice(["/", "/app", "/app/"])
    scheme = rnd.choice(["http", "https", "ws", "wss", ""])
    if name == "host":
        server = rnd.choice([SERVER, SERVER, "other.org", "num.example.com"])
        adapter = m.bind(server, script_name, url_scheme=scheme)
    else:
        server = SERVER
        adapter = m.bind(server, script_name, subdomain=rnd.choice([None, None, "api", "www"]),
                         url_scheme=scheme)
    endpoint = rnd.choice(list(ENDPOINT_ARGS) + ["index", "mroot"])
    values = gen_values(rnd, endpoint)
    method = rnd.choice([None, None, "GET", "POST", "DELETE"])
    force_external = rnd.random() < 0.4
    append_unknown = rnd.random() < 0.75
    url_scheme = rnd.choice([None, None, "https", "ws"])

    built = outcome(
        lambda: adapter.build(endpoint, values, method=method, force_external=force_external,
                              append_unknown=append_unknown, url_scheme=url_scheme)
    )
    out.append(built)
    pb_values = dict(values) if not isinstance(values, MultiDict) else values.to_dict()
    out.append(outcome(lambda: adapter._partial_build(endpoint, pb_values, method, append_unknown)))

    if built[0] == "ok":
        url = eval(built[1])
        parts = urlsplit(url)
        host = parts.netloc or adapter.get_host(None)
        path = parts.path
        root = script_name.rstrip("/")
        if root and path.startswith(root):
            path = path[len(root):]
        path_info = unquote(path)
        if name == "host":
            matcher = m.bind(host, script_name, url_scheme=scheme)
        else:
            sub = host[: -len(SERVER) - 1] if host.endswith("." + SERVER) else ""
            matcher = m.bind(SERVER, script_name, subdomain=sub, url_scheme=scheme)
        for meth in ("GET", "POST"):
            matched = [None]

            def do_match(meth=meth):
                rv = matcher.match(path_info, method=meth, query_args=parts.query, websocket=endpoint == "ws")
                matched[0] = rv
                return rv

            out.append(outcome(do_match))
            if matched[0] is not None:
                ep, args = matched[0]
                out.append(outcome(lambda: matcher.build(ep, args, force_external=force_external)))
                out.append(outcome(lambda: matcher.build(ep, args, method=meth, append_unknown=False)))

    # low level helpers on every rule of the endpoint (and one other endpoint)
    plain = {k: v for k, v in pb_values.items() if v is not None}
    for ep in (endpoint, rnd.choice(list(ENDPOINT_ARGS))):
        for rule in m._rules_by_endpoint.get(ep, ()):
            out.append(outcome(lambda: rule.suitable_for(plain, method)))
            out.append(outcome(lambda: rule.suitable_for(plain)))
            out.append(outcome(lambda: rule.build(plain, append_unknown)))
            out.append(outcome(lambda: rule.build_compare_key()))
            out.append(outcome(lambda: rule._encode_query_vars(plain)))
    return out


def converter_trials(rnd, m):
    out = []
    convs = []
    for rule in m._rules:
        for cname in sorted(rule._converters):
            convs.append((rule.rule, cname, rule._converters[cname]))
    for _ in range(3000):
        rule_s, cname, conv = rnd.choice(convs)
        kind = rnd.choice(["str", "int", "sint", "float", "sfloat", "any", "uuid", "path", "str3"])
        value = gen_value(rnd, kind)
        url = outcome(lambda: conv.to_url(value))
        out.append((rule_s, cname, url))
        text = rnd.choice(
            [str(value), "0042", "-7", "3.50", "-0.25", "12", "99999", "5", "4", "100", "101",
             "abc", "", "1e3", "٣", "-1000.5", "-1000.75", " 7", "7_0"]
        )
        out.append(outcome(lambda: conv.to_python(text)))
        if url[0] == "ok":
            out.append(outcome(lambda: conv.to_python(unquote(eval(url[1])))))
    return out


def builder_fingerprint(m):
    """Code objects of the compiled builder functions."""
    out = []
    for rule in m._rules:
        for fn in (rule._build, rule._build_unknown):
            code = fn.__func__.__code__
            out.append(
                (rule.rule, code.co_name, code.co_code, repr(code.co_consts), code.co_names,
                 code.co_varnames, code.co_argcount, repr(fn.__func__.__defaults__))
            )
    return out


def run_all(n_trials=2500, seed=20240):
    results = []
    maps = make_maps()
    for name, m in maps:
        m.update()
        results.append(("fingerprint", name, builder_fingerprint(m)))
    for idx, (name, m) in enumerate(maps):
        rnd = random.Random(seed + idx)
        for t_no in range(n_trials):
            results.append((name, t_no, trial(rnd, name, m)))
        results.append((name, "converters", converter_trials(random.Random(seed + 100 + idx), m)))
    return results


def compare(res_new, res_old):
    if len(res_new) != len(res_old):
        print("FAIL: result lengths differ", len(res_new), len(res_old))
        return False
    n_items = 0
    kinds = {}
    for a, b in zip(res_new, res_old):
        if a != b:
            print("FAIL: mismatch")
            print("  refactored:", str(a)[:1500])
            print("  original  :", str(b)[:1500])
            return False
        payload = a[2]
        n_items += len(payload)
        if a[0] != "fingerprint":
            for item in payload:
                o = item[2] if len(item) == 3 else item
                kinds[o[0]] = kinds.get(o[0], 0) + 1
    print(f"compared {len(res_new)} result groups, {n_items} individual outcomes; outcome kinds: {kinds}")
    return True


if __name__ == "__main__":
    check_refactoring_present()
    res_new = run_all()
    install_originals()
    res_old = run_all()
    if compare(res_new, res_old):
        print("PASS")
    else:
        print("FAIL")
        raise SystemExit(1)
