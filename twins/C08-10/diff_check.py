"""Differential check for refactoring 1 (Headers._del_key / set / setlist).

Run: cd /tmp/wt10-C08 && PYTHONPATH=/tmp/wt10-C08/src /venv/bin/python /tmp/twin6-C08/1/diff_check.py

``OrigHeaders`` carries a verbatim copy of the ORIGINAL implementations of the
three touched methods; everything else is inherited from the worktree's
``Headers``.  Random operation sequences are replayed on both classes and all
return values, raised exception types and the resulting pair list are compared
after every step.
"""

from __future__ import annotations

import copy
import pickle
import random

from werkzeug.datastructures import Headers
from werkzeug.datastructures import MultiDict
from werkzeug.datastructures.headers import _options_header_vkw
from werkzeug.datastructures.headers import _str_header_value


class OrigHeaders(Headers):
    # ---- verbatim copies of the unmodified implementations ----
    def _del_key(self, key):
        key = key.lower()
        new = []

        for k, v in self._list:
            if k.lower() != key:
                new.append((k, v))

        self._list[:] = new

    def set(self, key, value, /, **kwargs):
        if kwargs:
            value = _options_header_vkw(value, kwargs)

        value_str = _str_header_value(value)

        if not self._list:
            self._list.append((key, value_str))
            return

        iter_list = iter(self._list)
        ikey = key.lower()

        for idx, (old_key, _) in enumerate(iter_list):
            if old_key.lower() == ikey:
                # replace first occurrence
                self._list[idx] = (key, value_str)
                break
        else:
            # no existing occurrences
            self._list.append((key, value_str))
            return

        # remove remaining occurrences
        self._list[idx + 1 :] = [t for t in iter_list if t[0].lower() != ikey]

    def setlist(self, key, values):
        if values:
            values_iter = iter(values)
            self.set(key, next(values_iter))

            for value in values_iter:
                self.add(key, value)
        else:
            self.remove(key)


KEYS = [
    "a", "A", "b", "B", "Content-Type", "content-type", "CONTENT-TYPE",
    "X-Foo", "x-foo", "X-FOO", "", "ß", "SS", "İ", "i̇", "ǅ", "ǆ",
    "Set-Cookie", "set-cookie",
]
BAD_KEYS = [1, None, b"a", ("a",), 3.5]
VALUES = ["1", "2", "x", "", "text/html", "a b", 1, 2.5, None, b"v", "bad\nvalue", "bad\rvalue", True]


def rkey(r):
    if r.random() < 0.05:
        return r.choice(BAD_KEYS)
    return r.choice(KEYS)


def rval(r):
    return r.choice(VALUES)


def rvalues(r, stable_repr=False):
    n = r.choice([0, 0, 1, 2, 3, 4])
    vals = [rval(r) for _ in range(n)]
    kinds = ["list", "tuple", "gen", "set", "str", "dictkeys", "none", "zero"]
    if stable_repr:
        # values that end up str()-ed must not embed a memory address
        kinds = ["list", "tuple", "set", "str", "none", "zero"]
    kind = r.choice(kinds)
    if kind == "list":
        return lambda: list(vals)
    if kind == "tuple":
        return lambda: tuple(vals)
    if kind == "gen":
        return lambda: (v for v in vals)
    if kind == "set":
        try:
            s = set(vals)
        except TypeError:
            s = set()
        return lambda: set(s)
    if kind == "str":
        s = r.choice(["", "abc", "q"])
        return lambda: s
    if kind == "dictkeys":
        d = {str(v): 1 for v in vals}
        return lambda: d.keys()
    if kind == "none":
        return lambda: None
    return lambda: 0


def rkwargs(r):
    if r.random() < 0.8:
        return {}
    return r.choice(
        [{"charset": "utf-8"}, {"file_name": "a b.txt"}, {"x": None}, {"a": "1", "b_c": "é"}]
    )


def rpairs(r):
    return [(rkey(r), rval(r)) for _ in range(r.randint(0, 5))]


def gen_op(r):
    """Return (name, thunk taking a headers object)."""
    c = r.randrange(24)
    if c == 0:
        k, v, kw = rkey(r), rval(r), rkwargs(r)
        return "set", lambda h: h.set(k, v, **kw)
    if c == 1:
        k, mk = rkey(r), rvalues(r)
        return "setlist", lambda h: h.setlist(k, mk())
    if c == 2:
        k = rkey(r)
        return "remove", lambda h: h.remove(k)
    if c == 3:
        k = r.choice([rkey(r), r.randint(-3, 6), slice(r.randint(-2, 3), r.randint(-2, 5))])
        return "delitem", lambda h: h.__delitem__(k)
    if c == 4:
        k, v, kw = rkey(r), rval(r), rkwargs(r)
        return "add", lambda h: h.add(k, v, **kw)
    if c == 5:
        k, v = rkey(r), rval(r)
        return "setitem", lambda h: h.__setitem__(k, v)
    if c == 6:
        i, k, v = r.randint(-3, 6), rkey(r), rval(r)
        return "setitem_int", lambda h: h.__setitem__(i, (k, v))
    if c == 7:
        sl, p = slice(r.randint(-2, 3), r.randint(-2, 5)), rpairs(r)
        return "setitem_slice", lambda h: h.__setitem__(sl, list(p))
    if c == 8:
        k = r.choice([None, rkey(r), r.randint(-3, 6)])
        if r.random() < 0.5:
            return "pop", lambda h: h.pop(k)
        d = rval(r)
        return "pop_default", lambda h: h.pop(k, d)
    if c == 9:
        k, v = rkey(r), rval(r)
        return "setdefault", lambda h: h.setdefault(k, v)
    if c == 10:
        k, mk = rkey(r), rvalues(r)
        return "setlistdefault", lambda h: h.setlistdefault(k, mk())
    if c == 11:
        p = rpairs(r)
        kind = r.randrange(5)
        if kind == 0:
            return "update_pairs", lambda h: h.update(list(p))
        if kind == 1:
            def mk_md():
                return MultiDict([(k, v) for k, v in p if isinstance(k, str)])
            return "update_md", lambda h: h.update(mk_md())
        if kind == 2:
            def mk_h():
                return Headers([(k, v) for k, v in p if isinstance(k, str) and "\n" not in str(v) and "\r" not in str(v)])
            return "update_headers", lambda h: h.update(mk_h())
        if kind == 3:
            mks = {k: rvalues(r, stable_repr=True) for k, _ in p if isinstance(k, str)}
            return "update_dict_lists", lambda h: h.update({k: mk() for k, mk in mks.items()})
        kw = {k.replace("-", "_"): v for k, v in p if isinstance(k, str) and k.isascii() and k}
        return "update_kwargs", lambda h: h.update(**kw)
    if c == 12:
        p = rpairs(r)
        return "extend", lambda h: h.extend(list(p))
    if c == 13:
        p = {k: v for k, v in rpairs(r) if isinstance(k, str)}
        return "ior", lambda h: h.__ior__(dict(p))
    if c == 14:
        p = {k: v for k, v in rpairs(r) if isinstance(k, str)}
        return "or", lambda h: list(h.__or__(dict(p)))
    if c == 15:
        k = rkey(r)
        return "getlist", lambda h: h.getlist(k)
    if c == 16:
        k = rkey(r)
        return "get", lambda h: h.get(k, "dflt")
    if c == 17:
        k = rkey(r)
        return "contains", lambda h: k in h
    if c == 18:
        return "popitem", lambda h: h.popitem()
    if c == 19:
        return "clear" if r.random() < 0.2 else "len", (
            (lambda h: h.clear()) if r.random() < 0.2 else (lambda h: len(h))
        )
    if c == 20:
        return "str", lambda h: str(h)
    if c == 21:
        return "copy_roundtrip", lambda h: (
            list(h.copy()),
            list(copy.copy(h)),
            list(copy.deepcopy(h)),
            h == h.copy(),
        )
    if c == 22:
        k = rkey(r)
        return "getitem", lambda h: h[k]
    return "keys", lambda h: (list(h.keys()), list(h.keys(lower=True)), list(h.values()), list(h.items(True)))


def run(op, h):
    try:
        return ("ok", op(h))
    except BaseException as e:  # noqa: BLE001
        return ("exc", type(e), e.args if not isinstance(e, StopIteration) else ())


def norm(res):
    if res[0] == "ok":
        v = res[1]
        if isinstance(v, Headers):
            v = ("H", list(v))
        return ("ok", repr(v))
    return ("exc", res[1].__name__, repr(res[2]))


def main():
    r = random.Random(0xC08)
    n_seq = 4000
    n_ops = 0
    for seq in range(n_seq):
        init = [(k, v) for k, v in rpairs(r) if isinstance(k, str) and "\n" not in str(v) and "\r" not in str(v)]
        new = Headers(list(init))
        old = OrigHeaders(list(init))
        assert list(new) == list(old)
        for _ in range(r.randint(1, 15)):
            name, op = gen_op(r)
            a = norm(run(op, new))
            b = norm(run(op, old))
            n_ops += 1
            if a != b or new._list != old._list:
                print("FAIL", seq, name, a, b, new._list, old._list)
                return 1
            if [type(x) for x in new._list] != [type(x) for x in old._list]:
                print("FAIL types", seq, name)
                return 1
        # pickling / equality consistency of the final state
        pn = pickle.loads(pickle.dumps(new))
        po = pickle.loads(pickle.dumps(old))
        if list(pn) != list(po) or list(pn) != list(old):
            print("FAIL pickle", seq)
            return 1
        if norm(run(lambda h: h == pn, new)) != norm(run(lambda h: h == po, old)):
            print("FAIL eq", seq)
            return 1
    print(f"PASS ({n_seq} sequences, {n_ops} operations)")
    return 0


if __name__ == "__main__":
    raise SystemExit(main())
