"""Differential check for refactoring 3 (hash caching in ImmutableListMixin /
ImmutableDictMixin, HeaderSet.update / index / as_set).

Run: cd /tmp/wt13-C08 && PYTHONPATH=/tmp/wt13-C08/src /venv/bin/python /tmp/twin8-C08/3/diff_check.py

The ORIGINAL bodies of the touched methods are pasted below and mounted on
subclasses of the worktree classes.  Part A replays random operation sequences
on a refactored HeaderSet and on the original one and compares every return
value, raised exception type, the internal ``_headers`` / ``_set`` state and
the on_update call log.  Part B compares hashing (value, cache attribute,
failure on unhashable content, stability, behaviour after pickling/copying and
after rejected mutators) of all immutable containers.
"""

from __future__ import annotations

import copy
import pickle
import random
import sys

from werkzeug.datastructures import HeaderSet
from werkzeug.datastructures import ImmutableDict
from werkzeug.datastructures import ImmutableList
from werkzeug.datastructures import ImmutableMultiDict
from werkzeug.datastructures import ImmutableTypeConversionDict


# ---- original code, verbatim ---------------------------------------------
class OrigHeaderSet(HeaderSet):
    def update(self, iterable):
        inserted_any = False
        for header in iterable:
            key = header.lower()
            if key not in self._set:
                self._headers.append(header)
                self._set.add(key)
                inserted_any = True
        if inserted_any and self.on_update is not None:
            self.on_update(self)

    def index(self, header):
        rv = self.find(header)
        if rv < 0:
            raise IndexError(header)
        return rv

    def as_set(self, preserve_casing=False):
        if preserve_casing:
            return set(self._headers)
        return set(self._set)


def _orig_list_hash(self):
    if self._hash_cache is not None:
        return self._hash_cache
    rv = self._hash_cache = hash(tuple(self))  # type: ignore[arg-type]
    return rv


def _orig_dict_hash(self):
    if self._hash_cache is not None:
        return self._hash_cache
    rv = self._hash_cache = hash(frozenset(self._iter_hashitems()))
    return rv


class OrigImmutableList(ImmutableList):
    __hash__ = _orig_list_hash


class OrigImmutableDict(ImmutableDict):
    __hash__ = _orig_dict_hash


class OrigImmutableTypeConversionDict(ImmutableTypeConversionDict):
    __hash__ = _orig_dict_hash


class OrigImmutableMultiDict(ImmutableMultiDict):
    __hash__ = _orig_dict_hash


# ---------------------------------------------------------------------------

ORIG_NAMES = [
    "OrigHeaderSet", "OrigImmutableList", "OrigImmutableDict",
    "OrigImmutableTypeConversionDict", "OrigImmutableMultiDict",
]


def norm(text):
    for name in ORIG_NAMES:
        text = text.replace(name, name[4:])
    return text


def outcome(f):
    try:
        rv = f()
    except Exception as e:  # noqa: BLE001
        return ("exc", type(e), norm(repr(e.args)))
    return ("ok", rv)


# ---- part A: HeaderSet ------------------------------------------------------
ITEMS = [
    "foo", "Foo", "FOO", "bar", "Bar", "baz", "", "Accept-Encoding",
    "accept-encoding", "ß", "SS", "ss", "İ", "i̇", "a b", 'q"uote', "Σ", "σ", "ς",
]
BAD_ITEMS = [1, None, b"foo", ("foo",)]


def ritem(r):
    if r.random() < 0.05:
        return r.choice(BAD_ITEMS)
    return r.choice(ITEMS)


def riter(r):
    items = [ritem(r) for _ in range(r.randrange(0, 5))]
    kind = r.randrange(5)
    if kind == 0:
        return ("list", items)
    if kind == 1:
        return ("tuple", items)
    if kind == 2:
        return ("gen", items)
    if kind == 3:
        return ("str", r.choice(["", "abA", "xyz"]))
    return ("bad", r.choice([None, 5]))


def realise(spec):
    kind, data = spec
    if kind == "list":
        return list(data)
    if kind == "tuple":
        return tuple(data)
    if kind == "gen":
        return (x for x in data)
    return data


def rop(r):
    k = r.randrange(14)
    if k == 0:
        return ("add", ritem(r))
    if k == 1:
        return ("remove", ritem(r))
    if k == 2:
        return ("discard", ritem(r))
    if k in (3, 4, 5):
        return ("update", riter(r))
    if k == 6:
        return ("find", ritem(r))
    if k in (7, 8):
        return ("index", ritem(r))
    if k == 9:
        return ("as_set", r.choice([False, True, 0, 1, "", "x", None]))
    if k == 10:
        return ("clear",)
    if k == 11:
        return ("delitem", r.randrange(-4, 5))
    if k == 12:
        return ("setitem", r.randrange(-4, 5), ritem(r))
    return ("as_set_default",)


def apply(hs, op):
    name = op[0]
    if name == "add":
        return outcome(lambda: hs.add(op[1]))
    if name == "remove":
        return outcome(lambda: hs.remove(op[1]))
    if name == "discard":
        return outcome(lambda: hs.discard(op[1]))
    if name == "update":
        return outcome(lambda: hs.update(realise(op[1])))
    if name == "find":
        return outcome(lambda: hs.find(op[1]))
    if name == "index":
        return outcome(lambda: hs.index(op[1]))
    if name == "as_set":
        return outcome(lambda: hs.as_set(op[1]))
    if name == "as_set_default":
        return outcome(lambda: (hs.as_set(), hs.as_set(preserve_casing=True)))
    if name == "clear":
        return outcome(lambda: hs.clear())
    if name == "delitem":
        return outcome(lambda: hs.__delitem__(op[1]))
    if name == "setitem":
        return outcome(lambda: hs.__setitem__(op[1], op[2]))
    raise AssertionError(name)


def observe(hs):
    return [
        list(hs._headers),
        set(hs._set),
        outcome(lambda: list(hs)),
        outcome(lambda: len(hs)),
        outcome(lambda: bool(hs)),
        outcome(lambda: hs.to_header()),
        outcome(lambda: norm(repr(hs))),
        outcome(lambda: [x in hs for x in ITEMS]),
        outcome(lambda: [hs.find(x) for x in ITEMS]),
        outcome(lambda: type(hs.as_set())),
    ]


class Log:
    def __init__(self, explode_every):
        self.calls = []
        self.explode_every = explode_every

    def __call__(self, hs):
        self.calls.append((list(hs._headers), sorted(hs._set)))
        if self.explode_every and len(self.calls) % self.explode_every == 0:
            raise RuntimeError("callback failed")


def part_a():
    r = random.Random(80803)
    n = 0
    for seq in range(5000):
        init = [r.choice(ITEMS) for _ in range(r.randrange(0, 5))]
        mode = r.randrange(3)
        explode = r.choice([0, 0, 3])
        log_new = Log(explode) if mode else None
        log_old = Log(explode) if mode else None
        new = HeaderSet(init, log_new)
        old = OrigHeaderSet(init, log_old)
        for _ in range(r.randrange(1, 10)):
            op = rop(r)
            a = apply(new, op)
            b = apply(old, op)
            n += 1
            if a != b or observe(new) != observe(old):
                print("FAIL A", seq, op, a, b, observe(new), observe(old))
                sys.exit(1)
            if mode and log_new.calls != log_old.calls:
                print("FAIL A callbacks", seq, op, log_new.calls, log_old.calls)
                sys.exit(1)
    return n


# ---- part B: hash caching ---------------------------------------------------
HKEYS = ["a", "b", "c", 1, 2.0, None, ("t", 1), ""]
HVALS = ["1", "2", 0, 1, 1.0, True, None, ("x",), "", frozenset({1})]
UNHASHABLE = [[1], {"a": 1}, {1, 2}]


def rvals(r, n):
    out = []
    for _ in range(n):
        if r.random() < 0.08:
            out.append(r.choice(UNHASHABLE))
        else:
            out.append(r.choice(HVALS))
    return out


def hash_observations(obj, mutators):
    out = []
    out.append(obj.__dict__.get("_hash_cache", "<unset>"))
    out.append(outcome(lambda: hash(obj)))
    out.append(obj.__dict__.get("_hash_cache", "<unset>"))
    out.append(outcome(lambda: hash(obj)))
    out.append(outcome(lambda: obj.__hash__()))
    out.append(obj.__dict__.get("_hash_cache", "<unset>"))
    # hash agrees with an equal, separately built object
    out.append(outcome(lambda: hash(obj) == hash(type(obj)(obj))))
    # pickling / copying keep equality and hash consistent
    for f in (
        lambda: pickle.loads(pickle.dumps(obj)),
        lambda: copy.copy(obj),
        lambda: copy.deepcopy(obj),
    ):
        dup = outcome(f)
        if dup[0] == "ok":
            d = dup[1]
            out.append(("dup", norm(repr(d)), d == obj, outcome(lambda: hash(d)),
                        d.__dict__.get("_hash_cache", "<unset>")))
        else:
            out.append(dup)
    # rejected mutators leave content and hash alone
    before = norm(repr(obj))
    for m in mutators:
        out.append(outcome(lambda: m(obj)))
    out.append(norm(repr(obj)) == before)
    out.append(outcome(lambda: hash(obj)))
    # a preset cache value is returned as is
    probe = type(obj)(obj)
    probe._hash_cache = 12345
    out.append(outcome(lambda: hash(probe)))
    probe._hash_cache = 0  # falsy but not None: still a valid cached hash
    out.append(outcome(lambda: hash(probe)))
    out.append(probe.__dict__.get("_hash_cache"))
    return out


LIST_MUT = [
    lambda o: o.append(1), lambda o: o.extend([1]), lambda o: o.pop(),
    lambda o: o.__setitem__(0, 1), lambda o: o.__delitem__(0), lambda o: o.sort(),
    lambda o: o.clear(), lambda o: o.__iadd__([1]), lambda o: o.insert(0, 1),
]
DICT_MUT = [
    lambda o: o.__setitem__("a", 1), lambda o: o.__delitem__("a"), lambda o: o.pop("a"),
    lambda o: o.popitem(), lambda o: o.clear(), lambda o: o.update({"a": 1}),
    lambda o: o.setdefault("zz", 1), lambda o: o.__ior__({"a": 1}),
]
MULTI_MUT = DICT_MUT + [
    lambda o: o.add("a", 1), lambda o: o.setlist("a", [1]), lambda o: o.poplist("a"),
    lambda o: o.popitemlist(), lambda o: o.setlistdefault("a", [1]),
]


def part_b():
    r = random.Random(80804)
    n = 0
    for i in range(3000):
        size = r.randrange(0, 6)
        vals = rvals(r, size)
        keys = [r.choice(HKEYS) for _ in range(size)]
        pairs = list(zip(keys, vals))
        cases = [
            (ImmutableList, OrigImmutableList, vals, LIST_MUT),
            (ImmutableDict, OrigImmutableDict, pairs, DICT_MUT),
            (ImmutableTypeConversionDict, OrigImmutableTypeConversionDict, pairs, DICT_MUT),
            (ImmutableMultiDict, OrigImmutableMultiDict, pairs, MULTI_MUT),
        ]
        for new_cls, old_cls, data, mutators in cases:
            a = hash_observations(new_cls(data), mutators)
            b = hash_observations(old_cls(data), mutators)
            n += len(a)
            if a != b:
                for x, y in zip(a, b):
                    if x != y:
                        print("FAIL B", i, new_cls.__name__, data, x, y)
                        break
                sys.exit(1)
    return n


def main():
    na = part_a()
    nb = part_b()
    print(f"part A: {na} HeaderSet operations compared")
    print(f"part B: {nb} hash observations compared")
    print("PASS")


if __name__ == "__main__":
    main()
