"""Differential check for refactoring 1 (host_is_trusted / _normalize_host).

Run: cd /tmp/wt15-C20 && PYTHONPATH=/tmp/wt15-C20/src /venv/bin/python /tmp/twin10-C20/1/diff_check.py
"""
from __future__ import annotations

import random

from werkzeug.exceptions import SecurityError
from werkzeug.sansio.utils import get_host as new_get_host
from werkzeug.sansio.utils import host_is_trusted as new_host_is_trusted


# ---- ORIGINAL implementation (copied from the unmodified tree) ----
def _strip_port(host):
    if host.startswith("["):
        return host[: host.find("]") + 1] or host

    return host.partition(":")[0]


def orig_host_is_trusted(hostname, trusted_list):
    if not hostname:
        return False

    try:
        hostname = _strip_port(hostname).encode("idna").decode("ascii")
    except UnicodeError:
        return False

    if isinstance(trusted_list, str):
        trusted_list = [trusted_list]

    for ref in trusted_list:
        if ref.startswith("."):
            ref = ref[1:]
            suffix_match = True
        else:
            suffix_match = False

        try:
            ref = _strip_port(ref).encode("idna").decode("ascii")
        except UnicodeError:
            return False

        if ref == hostname or (suffix_match and hostname.endswith(f".{ref}")):
            return True

    return False


def orig_get_host(scheme, host_header, server=None, trusted_hosts=None):
    host = ""

    if host_header is not None:
        host = host_header
    elif server is not None:
        host = server[0]

        if ":" in host and host[0] != "[":
            host = f"[{host}]"

        if server[1] is not None:
            host = f"{host}:{server[1]}"

    if scheme in {"http", "ws"} and host.endswith(":80"):
        host = host[:-3]
    elif scheme in {"https", "wss"} and host.endswith(":443"):
        host = host[:-4]

    if trusted_hosts is not None:
        if not orig_host_is_trusted(host, trusted_hosts):
            raise SecurityError(f"Host {host!r} is not trusted.")

    return host


# ---- input generation ----
rng = random.Random(20)

LABELS = [
    "example", "com", "org", "localhost", "www", "a", "b", "evil", "EXAMPLE",
    "xn--bcher-kva", "bücher", "täst", "ß", "☃", "-", "",
    "a" * 63, "a" * 64, "127", "0", "1", "::1", "[::1]", "[", "]", "fe80::1",
    "evilexample", "notlocalhost", "\udcff", "\x00", " ", "ex ample", "。",
]
PORTS = ["", "", ":80", ":443", ":8080", ":", ":abc", ":80:90", "]:80"]
FIXED = [
    None, "", ".", "..", ":", "[", "]", "[]", "[]:80", "[::1]", "[::1]:80",
    "[::1", "::1", "127.0.0.1", "127.0.0.1:5000", "127.0.0.10", "localhost",
    ".localhost", "a.localhost", "alocalhost", "example.com", ".example.com",
    "www.example.com", "evilexample.com", "example.com.evil.org",
    "EXAMPLE.com", "bücher.example", "xn--bcher-kva.example",
    "\udcff.com", "a" * 64 + ".com", "a..b", ".a", "a.", "example.com.",
    "example。com", "[::ffff:127.0.0.1]", "[fe80::1%eth0]:80",
]


def gen_name():
    r = rng.random()
    if r < 0.25:
        return rng.choice(FIXED)
    n = rng.randint(1, 4)
    name = ".".join(rng.choice(LABELS) for _ in range(n))
    if rng.random() < 0.2:
        name = "." + name
    if rng.random() < 0.1:
        name = "[" + name + "]"
    return name + rng.choice(PORTS)


def gen_list(host):
    r = rng.random()
    if r < 0.1:
        s = gen_name()
        return s if s is not None else ""  # bare string
    out = []
    for _ in range(rng.randint(0, 4)):
        x = gen_name()
        if x is None:
            continue
        out.append(x)
    if host and rng.random() < 0.4:
        # derive related entries from the host itself
        base = host
        choice = rng.randint(0, 5)
        if choice == 0:
            out.append(base)
        elif choice == 1:
            out.append("." + base)
        elif choice == 2 and "." in base:
            out.append("." + base.split(".", 1)[1])
        elif choice == 3 and "." in base:
            out.append(base.split(".", 1)[1])
        elif choice == 4:
            out.append(base[1:])
        else:
            out.append("." + base[1:])
    rng.shuffle(out)
    if rng.random() < 0.1:
        return tuple(out)
    return out


def run(f, *args):
    try:
        return ("ok", f(*args))
    except BaseException as e:  # noqa: BLE001
        return ("exc", type(e), str(e))


n = 0
bad = 0
for _ in range(40000):
    host = gen_name()
    trusted = gen_list(host)
    a = run(orig_host_is_trusted, host, trusted)
    b = run(new_host_is_trusted, host, trusted)
    n += 1
    if a != b:
        bad += 1
        print("MISMATCH host_is_trusted", repr(host), repr(trusted), a, b)

    # generators as trusted list
    a = run(orig_host_is_trusted, host, (x for x in list(trusted)))
    b = run(new_host_is_trusted, host, (x for x in list(trusted)))
    n += 1
    if a != b:
        bad += 1
        print("MISMATCH host_is_trusted(gen)", repr(host), repr(trusted), a, b)

for _ in range(20000):
    scheme = rng.choice(["http", "https", "ws", "wss", "ftp"])
    header = gen_name()
    server = rng.choice(
        [
            None,
            ("localhost", 80),
            ("127.0.0.1", 5000),
            ("::1", 443),
            ("[::1]", None),
            ("/tmp/sock", None),
            ("example.com", 443),
        ]
    )
    trusted = gen_list(header) if rng.random() < 0.85 else None
    a = run(orig_get_host, scheme, header, server, trusted)
    b = run(new_get_host, scheme, header, server, trusted)
    n += 1
    if a != b:
        bad += 1
        print("MISMATCH get_host", scheme, repr(header), server, repr(trusted), a, b)

# non-str entries raise the same exception type
for host, trusted in [
    ("a", [b".a"]),
    ("a", [None]),
    ("a", [1]),
    (b"a", ["a"]),
    ("a", None),
    ("a", 5),
]:
    a = run(orig_host_is_trusted, host, trusted)
    b = run(new_host_is_trusted, host, trusted)
    n += 1
    if a[:2] != b[:2]:
        bad += 1
        print("MISMATCH type case", repr(host), repr(trusted), a, b)

print(f"{n} cases, {bad} mismatches")
print("PASS" if bad == 0 else "FAIL")
