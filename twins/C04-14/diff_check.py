"""Differential check for refactoring 2 (C04).

Compares the refactored Rule._compile_builder in the worktree against the
ORIGINAL implementation pasted below: the code objects of every compiled
builder (fixed maps + ~3000 randomly generated rules) must be identical, and a
few thousand generated build / match round trips must give identical results.

Run: cd /tmp/wt13-C04 && PYTHONPATH=/tmp/wt13-C04/src /venv/bin/python /tmp/twin8-C04/2/diff_check.py
"""
from __future__ import annotations

import ast
import inspect
import typing as t
from urllib.parse import quote

from werkzeug.routing import rules as rules_mod
from werkzeug.routing.rules import _CALL_CONVERTER_CODE_FMT
from werkzeug.routing.rules import _IF_KWARGS_URL_ENCODE_AST
from werkzeug.routing.rules import _prefix_names
from werkzeug.routing.rules import _URL_ENCODE_AST_NAMES


# ---- ORIGINAL implementation (copied from the unmodified tree) --------------
def orig_compile_builder(
    self, append_unknown: bool = True
) -> t.Callable[..., tuple[str, str]]:
    defaults = self.defaults or {}
    dom_ops: list[tuple[bool, str]] = []
    url_ops: list[tuple[bool, str]] = []

    opl = dom_ops
    for is_dynamic, data in self._trace:
        if data == "|" and opl is dom_ops:
            opl = url_ops
            continue
        # this seems like a silly case to ever come up but:
        # if a default is given for a value that appears in the rule,
        # resolve it to a constant ahead of time
        if is_dynamic and data in defaults:
            data = self._converters[data].to_url(defaults[data])
            opl.append((False, data))
        elif not is_dynamic:
            # safe = https://url.spec.whatwg.org/#url-path-segment-string
            opl.append((False, quote(data, safe="!$&'()*+,/:;=@")))
        else:
            opl.append((True, data))

    def _convert(elem: str) -> ast.Call:
        ret = _prefix_names(_CALL_CONVERTER_CODE_FMT.format(elem=elem), ast.Call)
        ret.args = [ast.Name(elem, ast.Load())]
        return ret

    def _parts(ops: list[tuple[bool, str]]) -> list[ast.expr]:
        parts: list[ast.expr] = [
            _convert(elem) if is_dynamic else ast.Constant(elem)
            for is_dynamic, elem in ops
        ]
        parts = parts or [ast.Constant("")]
        # constant fold
        ret = [parts[0]]
        for p in parts[1:]:
            if isinstance(p, ast.Constant) and isinstance(ret[-1], ast.Constant):
                ret[-1] = ast.Constant(ret[-1].value + p.value)
            else:
                ret.append(p)
        return ret

    dom_parts = _parts(dom_ops)
    url_parts = _parts(url_ops)
    body: list[ast.stmt]
    if not append_unknown:
        body = []
    else:
        body = [_IF_KWARGS_URL_ENCODE_AST]
        url_parts.extend(_URL_ENCODE_AST_NAMES)

    def _join(parts: list[ast.expr]) -> ast.expr:
        if len(parts) == 1:  # shortcut
            return parts[0]
        return ast.JoinedStr(parts)

    body.append(
        ast.Return(ast.Tuple([_join(dom_parts), _join(url_parts)], ast.Load()))
    )

    pargs = [
        elem
        for is_dynamic, elem in dom_ops + url_ops
        if is_dynamic and elem not in defaults
    ]
    kargs = [str(k) for k in defaults]

    func_ast = _prefix_names("def _(): pass", ast.FunctionDef)
    func_ast.name = f"<builder:{self.rule!r}>"
    func_ast.args.args.append(ast.arg(".self", None))
    for arg in pargs + kargs:
        func_ast.args.args.append(ast.arg(arg, None))
    func_ast.args.kwarg = ast.arg(".kwargs", None)
    for _ in kargs:
        func_ast.args.defaults.append(ast.Constant(""))
    func_ast.body = body

    # Use `ast.parse` instead of `ast.Module` for better portability, since the
    # signature of `ast.Module` can change.
    module = ast.parse("")
    module.body = [func_ast]

    # mark everything as on line 1, offset 0
    # less error-prone than `ast.fix_missing_locations`
    # bad line numbers cause an assert to fail in debug builds
    for node in ast.walk(module):
        if "lineno" in node._attributes:
            node.lineno = 1  # type: ignore[attr-defined]
        if "end_lineno" in node._attributes:
            node.end_lineno = node.lineno  # type: ignore[attr-defined]
        if "col_offset" in node._attributes:
            node.col_offset = 0  # type: ignore[attr-defined]
        if "end_col_offset" in node._attributes:
            node.end_col_offset = node.col_offset  # type: ignore[attr-defined]

    code = compile(module, "<werkzeug routing>", "exec")
    return self._get_func_code(code, func_ast.name)


def check_refactoring_present():
    src = inspect.getsource(rules_mod.Rule._compile_builder)
    assert "args.defaults.extend(" in src, "worktree does not contain refactoring 2"
    assert "elif data in defaults" in src, "worktree does not contain refactoring 2"


def install_originals():
    rules_mod.Rule._compile_builder = orig_compile_builder


# --------------------------------------------------------------------------
# Common harness: generates maps / adapters / values covering the C04 input
# space and records the outcome of build, match, re-build and of the low level
# helpers (Rule.suitable_for, Rule.build, converter to_url / to_python).
# --------------------------------------------------------------------------
import random
import uuid as uuid_mod
from urllib.parse import unquote
from urllib.parse import urlsplit

from werkzeug.datastructures import MultiDict
from werkzeug.exceptions import HTTPException
from werkzeug.routing import Map
from werkzeug.routing import RequestRedirect
from werkzeug.routing import Rule
from werkzeug.routing import Subdomain
from werkzeug.routing import Submount

EXTRA_CONVERTERS = None  # replaced by the converter check
SERVER = "example.com"

# endpoint -> list of (argument name, kind)
ENDPOINT_ARGS = {
    "s": [("v", "str")],
    "s_len": [("v", "str3")],
    "s_mm": [("v", "str25")],
    "i": [("v", "int")],
    "i_signed": [("v", "sint")],
    "i_fixed": [("v", "int")],
    "i_mm": [("v", "int")],
    "f": [("v", "float")],
    "f_signed": [("v", "sfloat")],
    "any": [("v", "any")],
    "u": [("v", "uuid")],
    "p": [("v", "path")],
    "p_edit": [("v", "path")],
    "two": [("a", "int"), ("b", "str")],
    "d": [("page", "int")],
    "dv": [("lang", "lang")],
    "meth": [("v", "str")],
    "sub": [("v", "int")],
    "sdyn": [("name", "label"), ("v", "str")],
    "mx": [("v", "str")],
    "ws": [("v", "str")],
    "bo": [("v", "str")],
    "h": [("v", "str")],
    "h3": [("sub", "label"), ("v", "path")],
    "nope": [("v", "str")],
}

TEXT_ALPHABET = "abcXYZ019 ;?#%&=+:@!$'()*,~._-éü中Ж\U0001f600\"<>[]{}|\\^`"


def gen_text(rnd, lo=1, hi=8):
    return "".join(rnd.choice(TEXT_ALPHABET) for _ in range(rnd.randint(lo, hi)))


def gen_value(rnd, kind):
    """Mostly canonical values, sometimes values the converter rejects."""
    r = rnd.random()
    if r < 0.08:
        return rnd.choice(
            [None, "", "x/y", -3, 2.5, "abc", [1, 2], ("a",), 10**25, "007", True,
             "1e5", float("inf"), b"raw", uuid_mod.UUID(int=5), {"k": 1}]
        )
    if kind == "str":
        return gen_text(rnd)
    if kind == "str3":
        return gen_text(rnd, 3, 3) if rnd.random() < 0.8 else gen_text(rnd, 1, 5)
    if kind == "str25":
        return gen_text(rnd, 2, 5) if rnd.random() < 0.8 else gen_text(rnd, 1, 8)
    if kind == "int":
        return rnd.choice([0, 1, 5, 7, 42, 100, 101, 9999, 12345, rnd.randint(0, 10**6)])
    if kind == "sint":
        return rnd.randint(-(10**6), 10**6)
    if kind == "float":
        return rnd.choice([0.0, 0.5, 1.25, 3.0, round(rnd.uniform(0, 1e6), rnd.randint(0, 6))])
    if kind == "sfloat":
        return rnd.choice([-0.0, -0.5, round(rnd.uniform(-1e6, 1e6), rnd.randint(0, 6))])
    if kind == "any":
        return rnd.choice(["foo", "bar", "b z", "b;z", "été", "baz", "FOO"])
    if kind == "uuid":
        u = uuid_mod.UUID(int=rnd.getrandbits(128))
        return u if rnd.random() < 0.7 else str(u).upper()
    if kind == "path":
        return "/".join(gen_text(rnd, 1, 5).replace("\\", "b") for _ in range(rnd.randint(1, 4)))
    if kind == "lang":
        return rnd.choice(["en", "de", "fr", "é"])
    if kind == "label":
        return rnd.choice(["api", "www", "a-b", "x1"])
    raise AssertionError(kind)


def make_maps():
    kw = {"converters": EXTRA_CONVERTERS} if EXTRA_CONVERTERS else {}
    main_rules = lambda: [  # noqa: E731
        Rule("/s/<string:v>", endpoint="s"),
        Rule("/s-alias/<v>", endpoint="s", alias=True),
        Rule("/sl/<string(length=3):v>", endpoint="s_len"),
        Rule("/sm/<string(minlength=2, maxlength=5):v>", endpoint="s_mm"),
        Rule("/i/<int:v>", endpoint="i"),
        Rule("/is/<int(signed=True):v>", endpoint="i_signed"),
        Rule("/if/<int(fixed_digits=4):v>", endpoint="i_fixed"),
        Rule("/im/<int(min=5, max=100):v>", endpoint="i_mm"),
        Rule("/f/<float:v>", endpoint="f"),
        Rule("/fs/<float(signed=True, max=1000.5):v>", endpoint="f_signed"),
        Rule('/a/<any(foo, bar, "b z", "b;z", "été"):v>', endpoint="any"),
        Rule("/u/<uuid:v>", endpoint="u"),
        Rule("/p/<path:v>", endpoint="p"),
        Rule("/pe/<path:v>/edit", endpoint="p_edit"),
        Rule("/two/<int:a>/x-<b>/", endpoint="two"),
        Rule("/d/", endpoint="d", defaults={"page": 1}),
        Rule("/d/page/<int:page>", endpoint="d"),
        Rule("/dv/<lang>/x y;z", endpoint="dv", defaults={"lang": "en"}),
        Rule("/dv2/<lang>/", endpoint="dv"),
        Rule("/m-post/<v>", endpoint="meth", methods=["POST"]),
        Rule("/m-get/<v>", endpoint="meth", methods=["GET"]),
        Rule("/m-any/<v>/<int:extra>", endpoint="meth"),
        Subdomain("api", [Rule("/sub/<int:v>", endpoint="sub")]),
        Rule("/sd/<v>", subdomain="<name>", endpoint="sdyn"),
        Submount("/mnt", [Rule("/x/<v>", endpoint="mx"), Rule("/", endpoint="mroot")]),
        Rule("/ws/<v>", endpoint="ws", websocket=True),
        Rule("/bo/<v>", endpoint="bo", build_only=True),
        Rule("/", endpoint="index"),
    ]
    host_rules = lambda: [  # noqa: E731
        Rule("/h-other/<v>", host="other.org", endpoint="h"),
        Rule("/h-int/<int:v>", host="num.example.com", endpoint="h"),
        Rule("/h/<v>", host=SERVER, endpoint="h"),
        Rule("/h3/<path:v>", host="<sub>.example.com", endpoint="h3"),
        Rule("/i/<int:v>", host="other.org", endpoint="i"),
        Rule("/f/<float(signed=True):v>", host=SERVER, endpoint="f_signed"),
        Rule("/d/", endpoint="d", defaults={"page": 1}, host=SERVER),
        Rule("/d/page/<int:page>", endpoint="d", host="other.org"),
        Rule("/ws/<v>", endpoint="ws", websocket=True, host="other.org"),
        Rule("/", endpoint="index", host=SERVER),
    ]
    return [
        ("plain", Map(main_rules(), **kw)),
        ("sorted", Map(main_rules(), sort_parameters=True, redirect_defaults=False,
                       strict_slashes=False, merge_slashes=False, **kw)),
        ("host", Map(host_rules(), host_matching=True, **kw)),
    ]


def norm(v):
    return repr(v)


def outcome(fn):
    try:
        return ("ok", norm(fn()))
    except RequestRedirect as e:
        return ("redirect", e.new_url)
    except HTTPException as e:
        return ("http", type(e).__name__)
    except Exception as e:  # noqa: B902
        return ("exc", type(e).__name__)


def gen_values(rnd, endpoint):
    values = {}
    for name, kind in ENDPOINT_ARGS.get(endpoint, ()):
        if rnd.random() < 0.93:
            values[name] = gen_value(rnd, kind)
    if endpoint == "d" and rnd.random() < 0.4:
        values["page"] = rnd.choice([1, 1.0, "1", 2, True])
    if endpoint == "meth" and rnd.random() < 0.3:
        values["extra"] = rnd.randint(0, 9)
    if rnd.random() < 0.35:  # extra query values
        for _ in range(rnd.randint(1, 3)):
            values[rnd.choice(["q", "z", "a b", "ü", "k&"])] = rnd.choice(
                [gen_text(rnd), 5, None, ["x", gen_text(rnd)], (), 1.5, ("t", 2)]
            )
    if rnd.random() < 0.1:
        values = MultiDict(
            (k, v) for k, v in values.items() if not isinstance(v, (list, tuple, dict))
        )
        if rnd.random() < 0.5:
            values.add("q", "second")
    return values


def trial(rnd, name, m):
    out = []
    script_name = rnd.choice(["/", "/app", "/app/"])
    scheme = rnd.choice(["http", "https", "ws", "wss", ""])
    if name == "host":
        server = rnd.choice([SERVER, SERVER, "other.org", "num.example.com"])
        adapter = m.bind(server, script_name, url_scheme=scheme)
    else:
        server = SERVER
        adapter = m.bind(server, script_name, subdomain=rnd.choice([None, None, "api", "www"]),
                         url_scheme=scheme)
    endpoint = rnd.choice(list(ENDPOINT_ARGS) + ["index", "mroot"])
    values = gen_values(rnd, endpoint)
    method = rnd.choice([None, None, "GET", "POST", "DELETE"])
    force_external = rnd.random() < 0.4
    append_unknown = rnd.random() < 0.75
    url_scheme = rnd.choice([None, None, "https", "ws"])

    built = outcome(
        lambda: adapter.build(endpoint, values, method=method, force_external=force_external,
                              append_unknown=append_unknown, url_scheme=url_scheme)
    )
    out.append(built)
    pb_values = dict(values) if not isinstance(values, MultiDict) else values.to_dict()
    out.append(outcome(lambda: adapter._partial_build(endpoint, pb_values, method, append_unknown)))

    if built[0] == "ok":
        url = eval(built[1])
        parts = urlsplit(url)
        host = parts.netloc or adapter.get_host(None)
        path = parts.path
        root = script_name.rstrip("/")
        if root and path.startswith(root):
            path = path[len(root):]
        path_info = unquote(path)
        if name == "host":
            matcher = m.bind(host, script_name, url_scheme=scheme)
        else:
            sub = host[: -len(SERVER) - 1] if host.endswith("." + SERVER) else ""
            matcher = m.bind(SERVER, script_name, subdomain=sub, url_scheme=scheme)
        for meth in ("GET", "POST"):
            matched = [None]

            def do_match(meth=meth):
                rv = matcher.match(path_info, method=meth, query_args=parts.query, websocket=endpoint == "ws")
                matched[0] = rv
                return rv

            out.append(outcome(do_match))
            if matched[0] is not None:
                ep, args = matched[0]
                out.append(outcome(lambda: matcher.build(ep, args, force_external=force_external)))
                out.append(outcome(lambda: matcher.build(ep, args, method=meth, append_unknown=False)))

    # low level helpers on every rule of the endpoint (and one other endpoint)
    plain = {k: v for k, v in pb_values.items() if v is not None}
    for ep in (endpoint, rnd.choice(list(ENDPOINT_ARGS))):
        for rule in m._rules_by_endpoint.get(ep, ()):
            out.append(outcome(lambda: rule.suitable_for(plain, method)))
            out.append(outcome(lambda: rule.suitable_for(plain)))
            out.append(outcome(lambda: rule.build(plain, append_unknown)))
            out.append(outcome(lambda: rule.build_compare_key()))
            out.append(outcome(lambda: rule._encode_query_vars(plain)))
    return out


def converter_trials(rnd, m):
    out = []
    convs = []
    for rule in m._rules:
        for cname in sorted(rule._converters):
            convs.append((rule.rule, cname, rule._converters[cname]))
    for _ in range(3000):
        rule_s, cname, conv = rnd.choice(convs)
        kind = rnd.choice(["str", "int", "sint", "float", "sfloat", "any", "uuid", "path", "str3"])
        value = gen_value(rnd, kind)
        url = outcome(lambda: conv.to_url(value))
        out.append((rule_s, cname, url))
        text = rnd.choice(
            [str(value), "0042", "-7", "3.50", "-0.25", "12", "99999", "5", "4", "100", "101",
             "abc", "", "1e3", "٣", "-1000.5", "-1000.75", " 7", "7_0"]
        )
        out.append(outcome(lambda: conv.to_python(text)))
        if url[0] == "ok":
            out.append(outcome(lambda: conv.to_python(unquote(eval(url[1])))))
    return out


def builder_fingerprint(m):
    """Code objects of the compiled builder functions."""
    out = []
    for rule in m._rules:
        for fn in (rule._build, rule._build_unknown):
            code = fn.__func__.__code__
            out.append(
                (rule.rule, code.co_name, code.co_code, repr(code.co_consts), code.co_names,
                 code.co_varnames, code.co_argcount, repr(fn.__func__.__defaults__))
            )
    return out


def run_all(n_trials=2500, seed=20240):
    results = []
    maps = make_maps()
    for name, m in maps:
        m.update()
        results.append(("fingerprint", name, builder_fingerprint(m)))
    for idx, (name, m) in enumerate(maps):
        rnd = random.Random(seed + idx)
        for t_no in range(n_trials):
            results.append((name, t_no, trial(rnd, name, m)))
        results.append((name, "converters", converter_trials(random.Random(seed + 100 + idx), m)))
    return results


def compare(res_new, res_old):
    if len(res_new) != len(res_old):
        print("FAIL: result lengths differ", len(res_new), len(res_old))
        return False
    n_items = 0
    kinds = {}
    for a, b in zip(res_new, res_old):
        if a != b:
            print("FAIL: mismatch")
            print("  refactored:", str(a)[:1500])
            print("  original  :", str(b)[:1500])
            return False
        payload = a[2]
        n_items += len(payload)
        if a[0] != "fingerprint":
            for item in payload:
                o = item[2] if len(item) == 3 else item
                kinds[o[0]] = kinds.get(o[0], 0) + 1
    print(f"compared {len(res_new)} result groups, {n_items} individual outcomes; outcome kinds: {kinds}")
    return True


def extra_results():
    return []


# ---- refactoring 2 specific: random rule shapes -----------------------------
CONVERTER_SPECS = [
    ("", "str"), ("string:", "str"), ("string(length=3):", "str3"),
    ("string(minlength=2, maxlength=5):", "str25"), ("int:", "int"),
    ("int(signed=True):", "sint"), ("int(fixed_digits=4):", "int"), ("float:", "float"),
    ("float(signed=True):", "sfloat"), ('any(foo, bar, "b z", "b;z", "été"):', "any"),
    ("uuid:", "uuid"), ("path:", "path"),
]
STATIC_BITS = ["seg", "a b", "x;y", "é", "q?m", "h#s", "p%c", "pl+us", "co:lon", "at@", "~t", "(p)"]


def random_rule(rnd):
    names = ["a", "b", "c", "d"]
    rnd.shuffle(names)
    pieces = []
    kinds = {}
    used_path = False
    for _ in range(rnd.randint(1, 4)):
        if rnd.random() < 0.55 and names:
            spec, kind = rnd.choice(CONVERTER_SPECS)
            if kind == "path":
                if used_path:
                    continue
                used_path = True
            name = names.pop()
            kinds[name] = kind
            piece = f"<{spec}{name}>"
            if rnd.random() < 0.3:
                piece = rnd.choice(["v-", "x."]) + piece
            pieces.append(piece)
        else:
            pieces.append(rnd.choice(STATIC_BITS))
    rule = "/" + "/".join(pieces) + rnd.choice(["", "/"])
    defaults = None
    if rnd.random() < 0.5:
        defaults = {}
        for name, kind in kinds.items():
            if rnd.random() < 0.5:  # default for a value that appears in the rule
                defaults[name] = gen_value(rnd, kind)
        if rnd.random() < 0.5:
            defaults["extra"] = rnd.choice([1, "two", None])
    kwargs = {}
    dom = rnd.random()
    if dom < 0.2:
        kwargs["subdomain"] = rnd.choice(["api", "<sd>", "<sd>.x", "é"])
        if "<sd>" in kwargs["subdomain"]:
            kinds["sd"] = "label"
            if defaults is not None and rnd.random() < 0.3:
                defaults["sd"] = "www"
    return rule, defaults, kwargs, kinds


def extra_results():
    rnd = random.Random(777)
    out = []
    for n in range(3000):
        rule_s, defaults, kwargs, kinds = random_rule(rnd)
        item = [rule_s, repr(defaults), repr(kwargs)]
        try:
            m = Map([Rule(rule_s, endpoint="e", defaults=defaults, **kwargs)])
        except Exception as e:  # noqa: B902
            item.append(("exc", type(e).__name__, str(e)))
            out.append(("random-rule", n, [("exc", tuple(item))]))
            continue
        item.append(builder_fingerprint(m))
        adapter = m.bind(SERVER, rnd.choice(["/", "/app", "/app/"]))
        rule = m._rules[0]
        res = []
        for _ in range(4):
            values = {k: gen_value(rnd, kind) for k, kind in kinds.items() if rnd.random() < 0.9}
            if rnd.random() < 0.3:
                values["q"] = gen_text(rnd)
            if defaults and rnd.random() < 0.5:
                values.update({k: v for k, v in defaults.items() if rnd.random() < 0.7})
            res.append(outcome(lambda: rule.build(values, True)))
            res.append(outcome(lambda: rule.build(values, False)))
            res.append(outcome(lambda: adapter.build("e", values)))
            res.append(outcome(lambda: adapter.build("e", values, force_external=True, append_unknown=False)))
        out.append(("random-rule", n, [("ok", tuple(item))] + res))
    return out


if __name__ == "__main__":
    check_refactoring_present()
    res_new = run_all() + extra_results()
    install_originals()
    res_old = run_all() + extra_results()
    if compare(res_new, res_old):
        print("PASS")
    else:
        print("FAIL")
        raise SystemExit(1)
