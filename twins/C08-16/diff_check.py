"""Differential check for refactoring 1 (Headers.update / _del_key / setlist).

Run: cd /tmp/wt13-C08 && PYTHONPATH=/tmp/wt13-C08/src /venv/bin/python /tmp/twin8-C08/1/diff_check.py

The ORIGINAL implementations of the three touched methods are pasted below and
mounted on a subclass of the worktree's Headers.  Random operation sequences
are then replayed on a refactored ``Headers`` and on the ``OrigHeaders`` and
every return value, raised exception type and resulting ``_list`` is compared.
"""

from __future__ import annotations

import collections.abc as cabc
import random
import sys

from werkzeug.datastructures import Headers
from werkzeug.datastructures import ImmutableMultiDict
from werkzeug.datastructures import MultiDict


class OrigHeaders(Headers):
    # ---- original code, verbatim -------------------------------------
    def _del_key(self, key):
        key = key.lower()
        new = []

        for k, v in self._list:
            if k.lower() != key:
                new.append((k, v))

        self._list[:] = new

    def setlist(self, key, values):
        if values:
            values_iter = iter(values)
            self.set(key, next(values_iter))

            for value in values_iter:
                self.add(key, value)
        else:
            self.remove(key)

    def update(self, arg=None, /, **kwargs):
        if arg is not None:
            if isinstance(arg, (Headers, MultiDict)):
                for key in arg.keys():
                    self.setlist(key, arg.getlist(key))
            elif isinstance(arg, cabc.Mapping):
                for key, value in arg.items():
                    if isinstance(value, (list, tuple, set)):
                        self.setlist(key, value)
                    else:
                        self.set(key, value)
            else:
                for key, value in arg:
                    self.set(key, value)

        for key, value in kwargs.items():
            if isinstance(value, (list, tuple, set)):
                self.setlist(key, value)
            else:
                self.set(key, value)

    # ------------------------------------------------------------------


KEYS = [
    "a", "A", "b", "B", "Content-Type", "content-type", "CONTENT-TYPE",
    "X-Foo", "x-foo", "x_foo", "Set-Cookie", "set-cookie", "", "ß", "SS",
    "İ", "i̇", "Σ", "σ",
]
BAD_KEYS = [1, None, b"a", ("a",), 2.5]
VALUES = [
    "1", "2", "x", "", "text/plain", 0, 1, 3.5, None, True, b"raw", "a\nb",
    "a\rb", "café",
]


def rkey(r):
    if r.random() < 0.04:
        return r.choice(BAD_KEYS)
    return r.choice(KEYS)


def rval(r):
    return r.choice(VALUES)


def rvalues(r):
    n = r.choice([0, 0, 1, 2, 3])
    vals = [rval(r) for _ in range(n)]
    kind = r.randrange(6)
    if kind == 0:
        return vals
    if kind == 1:
        return tuple(vals)
    if kind == 2:
        try:
            return set(vals)
        except TypeError:
            return vals
    if kind == 3:
        # generator: always truthy, even when empty -> exercises StopIteration
        return ("gen", vals)
    if kind == 4:
        return "".join(str(v) for v in vals if isinstance(v, str))  # plain str
    return None if r.random() < 0.3 else vals


def realise(v):
    """Build a fresh object per target so generators are not shared."""
    if isinstance(v, tuple) and len(v) == 2 and v[0] == "gen":
        return (x for x in v[1])
    return v


def rpairs(r):
    return [(rkey(r), rval(r)) for _ in range(r.randrange(0, 5))]


def rmapping_value(r):
    if r.random() < 0.5:
        return rval(r)
    v = rvalues(r)
    if isinstance(v, tuple) and len(v) == 2 and v[0] == "gen":
        return list(v[1])
    return v


def rupdate_arg(r):
    kind = r.randrange(9)
    if kind == 0:
        return None
    if kind == 1:
        return ("pairs", rpairs(r))
    if kind == 2:
        return ("dict", [(r.choice(KEYS), rmapping_value(r)) for _ in range(r.randrange(0, 4))])
    if kind == 3:
        return ("multidict", [(r.choice(KEYS), rval(r)) for _ in range(r.randrange(0, 5))])
    if kind == 4:
        return ("immultidict", [(r.choice(KEYS), rval(r)) for _ in range(r.randrange(0, 5))])
    if kind == 5:
        return ("headers", [(r.choice(KEYS), r.choice(["1", "2", "x", ""])) for _ in range(r.randrange(0, 5))])
    if kind == 6:
        return ("origheaders", [(r.choice(KEYS), r.choice(["1", "2", "x", ""])) for _ in range(r.randrange(0, 5))])
    if kind == 7:
        return ("genpairs", rpairs(r))
    return ("bad", r.choice([5, "abc", [("a",)], [1, 2]]))


def build_update_arg(spec):
    if spec is None:
        return None
    tag, data = spec
    if tag == "pairs":
        return list(data)
    if tag == "dict":
        return dict(data)
    if tag == "multidict":
        return MultiDict(data)
    if tag == "immultidict":
        return ImmutableMultiDict(data)
    if tag == "headers":
        return Headers(data)
    if tag == "origheaders":
        return OrigHeaders(data)
    if tag == "genpairs":
        return (p for p in data)
    return data


def rkwargs(r):
    if r.random() < 0.6:
        return []
    return [
        (r.choice(["a", "A", "b", "x_foo", "content_type"]), rmapping_value(r))
        for _ in range(r.randrange(1, 3))
    ]


def rop(r):
    kind = r.randrange(13)
    if kind == 0:
        return ("add", rkey(r), rval(r))
    if kind == 1:
        return ("set", rkey(r), rval(r))
    if kind == 2:
        return ("setlist", rkey(r), rvalues(r))
    if kind == 3:
        return ("remove", rkey(r))
    if kind == 4:
        return ("delitem", r.choice([rkey(r), r.randrange(-3, 4), slice(r.randrange(0, 3), r.randrange(0, 5))]))
    if kind == 5:
        return ("pop", rkey(r), r.choice(["<missing>", None, "dflt"]))
    if kind in (6, 7, 8):
        return ("update", rupdate_arg(r), rkwargs(r))
    if kind == 9:
        return ("ior", rupdate_arg(r))
    if kind == 10:
        return ("or", rupdate_arg(r))
    if kind == 11:
        return ("setlistdefault", rkey(r), rvalues(r))
    return ("setitem", rkey(r), rval(r))


def apply(h, op):
    name = op[0]
    try:
        if name == "add":
            return ("ok", h.add(op[1], op[2]))
        if name == "set":
            return ("ok", h.set(op[1], op[2]))
        if name == "setlist":
            return ("ok", h.setlist(op[1], realise(op[2])))
        if name == "remove":
            return ("ok", h.remove(op[1]))
        if name == "delitem":
            del h[op[1]]
            return ("ok", None)
        if name == "pop":
            if op[2] == "<missing>":
                return ("ok", h.pop(op[1]))
            return ("ok", h.pop(op[1], op[2]))
        if name == "update":
            return ("ok", h.update(build_update_arg(op[1]), **dict(op[2])))
        if name == "ior":
            h2 = h
            h2 |= build_update_arg(op[1])
            return ("ok", h2 is h)
        if name == "or":
            rv = h | build_update_arg(op[1])
            return ("ok", list(rv._list), rv is h)
        if name == "setlistdefault":
            return ("ok", h.setlistdefault(op[1], realise(op[2])))
        if name == "setitem":
            h[op[1]] = op[2]
            return ("ok", None)
        raise AssertionError(name)
    except Exception as e:  # noqa: BLE001
        # the harness subclass name is the only permitted difference
        return ("exc", type(e), repr(e.args).replace("OrigHeaders", "Headers"))


def reads(h, k):
    out = []
    for f in (lambda: h.getlist(k), lambda: h.get(k), lambda: k in h):
        try:
            out.append(f())
        except Exception as e:  # noqa: BLE001
            out.append(type(e))
    return out


def main():
    r = random.Random(80801)
    n_ops = 0
    n_exc = 0
    for seq in range(6000):
        init = [(r.choice(KEYS), r.choice(["1", "2", "x", ""])) for _ in range(r.randrange(0, 6))]
        new = Headers(init)
        old = OrigHeaders(init)
        for _ in range(r.randrange(1, 9)):
            op = rop(r)
            a = apply(new, op)
            b = apply(old, op)
            n_ops += 1
            if a[0] == "exc":
                n_exc += 1
            if a != b or new._list != old._list:
                print("FAIL", seq, op, a, b, new._list, old._list)
                sys.exit(1)
            # identity/types of stored items
            if [type(x) for x in new._list] != [type(x) for x in old._list]:
                print("FAIL types", seq, op)
                sys.exit(1)
            # reads agree
            for k in ("a", "content-type", "x-foo", "ss"):
                if reads(new, k) != reads(old, k):
                    print("FAIL read", seq, op, k)
                    sys.exit(1)
            if str(new) != str(old):
                print("FAIL str", seq, op)
                sys.exit(1)
    print(f"{n_ops} operations compared ({n_exc} raising)")
    print("PASS")


if __name__ == "__main__":
    main()
