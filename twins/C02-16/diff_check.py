"""Differential check for refactoring 1 (MultipartEncoder.send_event).

Run: cd /tmp/wt15-C02 && PYTHONPATH=/tmp/wt15-C02/src /venv/bin/python /tmp/twin10-C02/1/diff_check.py
"""
from __future__ import annotations

import random
import typing as t

from werkzeug.datastructures import Headers
from werkzeug.sansio.multipart import Data
from werkzeug.sansio.multipart import Epilogue
from werkzeug.sansio.multipart import Event
from werkzeug.sansio.multipart import Field
from werkzeug.sansio.multipart import File
from werkzeug.sansio.multipart import MultipartDecoder
from werkzeug.sansio.multipart import MultipartEncoder
from werkzeug.sansio.multipart import Preamble
from werkzeug.sansio.multipart import State


class OrigEncoder:
    """Verbatim copy of the original implementation."""

    def __init__(self, boundary: bytes) -> None:
        self.boundary = boundary
        self.state = State.PREAMBLE

    def send_event(self, event: Event) -> bytes:
        if isinstance(event, Preamble) and self.state == State.PREAMBLE:
            self.state = State.PART
            return event.data
        elif isinstance(event, (Field, File)) and self.state in {
            State.PREAMBLE,
            State.PART,
            State.DATA,
        }:
            data = b"\r\n--" + self.boundary + b"\r\n"
            data += b'Content-Disposition: form-data; name="%s"' % event.name.encode()
            if isinstance(event, File):
                data += b'; filename="%s"' % event.filename.encode()
            data += b"\r\n"
            for name, value in t.cast(Field, event).headers:
                if name.lower() != "content-disposition":
                    data += f"{name}: {value}\r\n".encode()
            self.state = State.DATA_START
            return data
        elif isinstance(event, Data) and self.state == State.DATA_START:
            self.state = State.DATA
            if len(event.data) > 0:
                return b"\r\n" + event.data
            else:
                return event.data
        elif isinstance(event, Data) and self.state == State.DATA:
            return event.data
        elif isinstance(event, Epilogue):
            self.state = State.COMPLETE
            return b"\r\n--" + self.boundary + b"--\r\n" + event.data
        else:
            raise ValueError(f"Cannot generate {event} in state: {self.state}")


rng = random.Random(20261003)

ALPHABETS = [
    "abcXYZ019 _-.;=",
    "äöüßéñ文字列🙂​ ",
    "\ud800",  # lone surrogate: .encode() raises
    "'%:&+/\t",
]


def rand_text(maxlen: int = 8) -> str:
    alpha = rng.choice(ALPHABETS[:2] + [ALPHABETS[3]])
    if rng.random() < 0.03:
        alpha = ALPHABETS[2] + "ab"
    return "".join(rng.choice(alpha) for _ in range(rng.randrange(maxlen)))


def rand_bytes(boundary: bytes) -> bytes:
    pieces = [
        b"",
        b"\r",
        b"\n",
        b"\r\n",
        b"--",
        b"-",
        boundary,
        b"--" + boundary,
        b"\r\n--" + boundary[:-1],
        b"\r\n--" + boundary,
        bytes(rng.randrange(256) for _ in range(rng.randrange(6))),
        b"abc",
    ]
    return b"".join(rng.choice(pieces) for _ in range(rng.randrange(6)))


def rand_headers() -> Headers:
    items = []
    for _ in range(rng.randrange(4)):
        name = rng.choice(
            [
                "Content-Type",
                "content-disposition",
                "Content-Disposition",
                "CONTENT-DISPOSITION",
                "X-Extra",
                "Content-Length",
                rand_text(5) or "X",
            ]
        )
        value = rng.choice(
            ["text/plain", "text/plain; charset=utf-8", "12", rand_text(), ""]
        )
        if "\ud800" in name or "\ud800" in value:
            # Headers() itself is fine with these, keep them: encode() must
            # raise identically in both implementations.
            pass
        items.append((name, value))
    return Headers(items)


def rand_event(boundary: bytes) -> Event:
    r = rng.random()
    if r < 0.08:
        return Preamble(data=rand_bytes(boundary))
    if r < 0.33:
        return Field(name=rand_text(), headers=rand_headers())
    if r < 0.55:
        return File(name=rand_text(), filename=rand_text(), headers=rand_headers())
    if r < 0.92:
        return Data(data=rand_bytes(boundary), more_data=rng.random() < 0.5)
    if r < 0.98:
        return Epilogue(data=rand_bytes(boundary))
    return Event()


def call(enc, event):
    try:
        return ("ok", enc.send_event(event))
    except Exception as e:  # noqa: B902
        return ("exc", type(e), str(e))


def main() -> None:
    n_calls = 0
    n_exc = 0
    for _case in range(6000):
        boundary = rng.choice(
            [b"b", b"boundary", b"----WebKitFormBoundary7MA4YWxk", b"-", b"a" * 70]
        )
        new, old = MultipartEncoder(boundary), OrigEncoder(boundary)
        for _ in range(rng.randrange(1, 12)):
            event = rand_event(boundary)
            a, b = call(new, event), call(old, event)
            n_calls += 1
            n_exc += a[0] == "exc"
            assert a == b, (event, a, b)
            assert type(a[1]) is type(b[1])
            assert new.state == old.state, (event, new.state, old.state)

    # Well-formed messages: identical bytes and they decode to the same parts.
    for _case in range(2000):
        boundary = rng.choice([b"b", b"boundary", b"x" * 40])
        new, old = MultipartEncoder(boundary), OrigEncoder(boundary)
        events: list[Event] = [Preamble(data=b"")]
        for _ in range(rng.randrange(5)):
            name = rand_text().replace("\ud800", "")
            hdrs = Headers(
                [(k, v) for k, v in rand_headers() if "\ud800" not in k + v]
            )
            if rng.random() < 0.5:
                events.append(Field(name=name, headers=hdrs))
            else:
                events.append(
                    File(
                        name=name,
                        filename=rand_text().replace("\ud800", ""),
                        headers=hdrs,
                    )
                )
            for _ in range(rng.randrange(1, 3)):
                events.append(Data(data=rand_bytes(boundary), more_data=True))
            events.append(Data(data=b"", more_data=False))
        events.append(Epilogue(data=b""))
        out_new = b"".join(new.send_event(e) for e in events)
        out_old = b"".join(old.send_event(e) for e in events)
        assert out_new == out_old
        n_calls += len(events)
        dec = MultipartDecoder(boundary)
        dec.receive_data(out_new)
        dec.receive_data(None)
        try:
            while not isinstance(dec.next_event(), Epilogue):
                pass
        except ValueError:
            pass

    print(f"compared {n_calls} send_event calls ({n_exc} raising)")
    print("PASS")


if __name__ == "__main__":
    main()
