"""Differential check for refactoring 1 (dump_cookie value-quoting helper +
attribute-loop if/elif). Compares worktree werkzeug.http.dump_cookie against a
pasted copy of the ORIGINAL implementation.

Run: cd /tmp/wt6-C13 && PYTHONPATH=/tmp/wt6-C13/src /venv/bin/python /tmp/twin4-C13/1/diff_check.py
"""
from __future__ import annotations

import random
import re
import sys
import warnings
from datetime import datetime
from datetime import timedelta
from datetime import timezone
from urllib.parse import quote

import werkzeug.http as H
from werkzeug.sansio.http import parse_cookie

assert H.__file__.startswith("/tmp/wt6-C13/"), H.__file__


class FixedDT(datetime):
    @classmethod
    def now(cls, tz=None):  # type: ignore[override]
        return datetime(2024, 5, 6, 7, 8, 9, tzinfo=timezone.utc)


# freeze "now" in both implementations
H.datetime = FixedDT  # type: ignore[attr-defined]
http_date = H.http_date

# ---------------------------------------------------------------- ORIGINAL
_cookie_no_quote_re = re.compile(r"[\w!#$%&'()*+\-./:<=>?@\[\]^`{|}~]*", re.A)
_cookie_slash_re = re.compile(rb"[\x00-\x1f\",;\\\x7f-\xff]", re.A)
_cookie_slash_map = {b'"': b'\\"', b"\\": b"\\\\"}
_cookie_slash_map.update(
    (v.to_bytes(1, "big"), b"\\%03o" % v)
    for v in [*range(0x20), *b",;", *range(0x7F, 256)]
)


def orig_dump_cookie(
    key,
    value="",
    max_age=None,
    expires=None,
    path="/",
    domain=None,
    secure=False,
    httponly=False,
    sync_expires=True,
    max_size=4093,
    samesite=None,
    partitioned=False,
):
    if path is not None:
        path = quote(path, safe="%!$&'()*+,/:=@")

    if domain:
        domain = domain.partition(":")[0].lstrip(".").encode("idna").decode("ascii")

    if isinstance(max_age, timedelta):
        max_age = int(max_age.total_seconds())

    if expires is not None:
        if not isinstance(expires, str):
            expires = http_date(expires)
    elif max_age is not None and sync_expires:
        expires = http_date(FixedDT.now(tz=timezone.utc).timestamp() + max_age)

    if samesite is not None:
        samesite = samesite.title()

        if samesite not in {"Strict", "Lax", "None"}:
            raise ValueError("SameSite must be 'Strict', 'Lax', or 'None'.")

    if partitioned:
        secure = True

    if not _cookie_no_quote_re.fullmatch(value):
        value = _cookie_slash_re.sub(
            lambda m: _cookie_slash_map[m.group()], value.encode()
        ).decode("ascii")
        value = f'"{value}"'

    buf = [f"{key.encode().decode('latin1')}={value}"]

    for k, v in (
        ("Domain", domain),
        ("Expires", expires),
        ("Max-Age", max_age),
        ("Secure", secure),
        ("HttpOnly", httponly),
        ("Path", path),
        ("SameSite", samesite),
        ("Partitioned", partitioned),
    ):
        if v is None or v is False:
            continue

        if v is True:
            buf.append(k)
            continue

        buf.append(f"{k}={v}")

    rv = "; ".join(buf)
    cookie_size = len(rv)

    if max_size and cookie_size > max_size:
        value_size = len(value)
        warnings.warn(
            f"The '{key}' cookie is too large: the value was {value_size} bytes but the"
            f" header required {cookie_size - value_size} extra bytes. The final size"
            f" was {cookie_size} bytes but the limit is {max_size} bytes. Browsers may"
            " silently ignore cookies larger than this.",
            stacklevel=2,
        )

    return rv


# ---------------------------------------------------------------- generators
rnd = random.Random(0xC13)
SPECIAL = list('",;\\ \t\r\n\x00\x01\x1f\x7f\x80\xff=%/') + [
    "é",
    "€",
    "\U0001f600",
    "\ud800",  # lone surrogate -> UnicodeEncodeError in both
    "\\073",
    "\\\"",
    "; Secure",
    "; Domain=evil.example",
    " ",
    "\x85",
]
SAFE = "abcXYZ019_!#$%&'()*+-./:<=>?@[]^`{|}~"


def rand_text(maxlen=12):
    n = rnd.randint(0, maxlen)
    out = []
    for _ in range(n):
        r = rnd.random()
        if r < 0.4:
            out.append(rnd.choice(SAFE))
        elif r < 0.8:
            out.append(rnd.choice(SPECIAL))
        elif r < 0.9:
            out.append(chr(rnd.randint(0, 0x2FF)))
        else:
            out.append(chr(rnd.randint(0, 0x10FFFF)))
    return "".join(out)


def rand_value():
    r = rnd.random()
    if r < 0.02:
        return b"bytes"  # TypeError both
    if r < 0.04:
        return 5
    if r < 0.06:
        return None
    if r < 0.1:
        return "x" * rnd.randint(4000, 4200)
    if r < 0.4:
        return "".join(rnd.choice(SAFE) for _ in range(rnd.randint(0, 10)))
    return rand_text()


def rand_kwargs():
    kw = {}
    if rnd.random() < 0.4:
        kw["max_age"] = rnd.choice(
            [0, 1, 3600, -5, timedelta(days=1), timedelta(seconds=1.7), None, True, False, 2.5]
        )
    if rnd.random() < 0.4:
        kw["expires"] = rnd.choice(
            [
                0,
                1700000000,
                1.5,
                "Thu, 01 Jan 1970 00:00:00 GMT",
                "junk; Secure",
                datetime(2030, 1, 2, 3, 4, 5, tzinfo=timezone.utc),
                datetime(2030, 1, 2, 3, 4, 5),
                None,
                True,
                False,
            ]
        )
    if rnd.random() < 0.5:
        kw["path"] = rnd.choice([None, "/", "", "/a b", "/x;y", "/é", "/%41", rand_text(), True, False, 3])
    if rnd.random() < 0.5:
        kw["domain"] = rnd.choice(
            [None, "", "example.com", ".example.com", "localhost:80", "bücher.de", "a..b", rand_text(6), True, False]
        )
    if rnd.random() < 0.4:
        kw["secure"] = rnd.choice([True, False, 1, 0, "yes", None])
    if rnd.random() < 0.4:
        kw["httponly"] = rnd.choice([True, False, 1, 0, "yes", None])
    if rnd.random() < 0.3:
        kw["sync_expires"] = rnd.choice([True, False])
    if rnd.random() < 0.3:
        kw["max_size"] = rnd.choice([0, 10, 4093, 100000])
    if rnd.random() < 0.5:
        kw["samesite"] = rnd.choice(
            [None, "strict", "Lax", "NONE", "bogus", "", "lax; Secure", "sTRICT", 7]
        )
    if rnd.random() < 0.3:
        kw["partitioned"] = rnd.choice([True, False, 1, 0, None, "p"])
    return kw


def call(fn, *a, **kw):
    with warnings.catch_warnings(record=True) as w:
        warnings.simplefilter("always")
        try:
            res = ("ok", fn(*a, **kw))
        except BaseException as e:  # noqa: BLE001
            res = ("exc", type(e), str(e))
    return res, [(x.category, str(x.message)) for x in w]


def main():
    n = 0
    bad = 0
    # exhaustive single-char and BMP coverage of the value escaping
    singles = [chr(c) for c in range(0x0, 0x3000)] + [chr(c) for c in range(0xD7F0, 0xE010)]
    cases = [(("k", s), {}) for s in singles]
    cases += [(("k", "a" + s + "b"), {}) for s in singles[:0x200]]
    for _ in range(20000):
        key = rnd.choice(["k", "", "kéy", "a=b", "a;b", rand_text(5)])
        cases.append(((key, rand_value()), rand_kwargs()))

    for a, kw in cases:
        n += 1
        r1 = call(orig_dump_cookie, *a, **kw)
        r2 = call(H.dump_cookie, *a, **kw)
        if r1 != r2:
            bad += 1
            if bad < 10:
                print("MISMATCH", a, kw, r1, r2)
            continue
        # property sanity: round trip for ok str values
        if r2[0][0] == "ok" and isinstance(a[1], str) and a[0] == "k" and not kw:
            got = parse_cookie(r2[0][1].partition("; Path=")[0]).get("k")
            if got != a[1]:
                bad += 1
                print("ROUNDTRIP", a, r2, got)

    print(f"{n} cases, {bad} mismatches")
    print("PASS" if bad == 0 else "FAIL")
    return 0 if bad == 0 else 1


if __name__ == "__main__":
    sys.exit(main())
